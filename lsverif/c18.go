package main

import (
	"go/token"

	"golang.org/x/tools/go/ssa"
)

func init() { register("C18", checkC18) }

func pkgFuncs(p *Program, pkgPath string) []*ssa.Function {
	var out []*ssa.Function
	for _, fn := range p.allRepoFuncs() {
		if pk := fnPkg(fn); pk != nil && pk.Path() == pkgPath {
			out = append(out, fn)
		}
	}
	return out
}

func checkC18(p *Program, r *Reporter) {
	r.Explanation = "Static analysis of two structural necessary conditions of C18 in pkg/chunkparser: " +
		"(b) every error produced by the callback, by the reader and by readUntil is returned on every path on which it is non-nil " +
		"(the io.EOF side of an explicit io.EOF comparison is exempt), decided by a forward walk over the SSA control-flow graph from the non-nil edge; " +
		"(a) the box-walk cursor makes progress and cannot wrap: the request-derived amount added to a loop-carried cursor has a proven lower bound >= 1 and a dominating overflow guard (rule E3-F1). " +
		"The behaviour itself (concatenation equals input, callback placement, init flag, independence from read fragmentation) is not decided."
	r.NotCovered = "concatenation of callback data equals input; callback at end of every mdat; init flag; independence from read fragmentation; memory use for huge declared sizes"
	r.Assumptions = []string{"go/ssa and go/types are correct", "error values are not smuggled through struct fields or channels inside pkg/chunkparser (none today; such a store makes the rule fail, not pass)"}
	fns := pkgFuncs(p, pkgChunk)
	if len(fns) == 0 {
		r.Broken("package %s has no functions", pkgChunk)
		return
	}
	r.Rule("E5-ERRRET", "every error result of a call is returned when non-nil (io.EOF branch exempt)", 6)
	ruleErrorsReturned(p, r, "E5-ERRRET", fns, nil)
	checkCursorProgress(p, r, fns, "E3-F1", 1)
	readFullRule(p, r, fns)
	// (c) nothing buffered is dropped at the end of input
	parse := p.mustFunc(r, pkgChunk, "(*MP4ChunkParser).Parse")
	if parse == nil {
		return
	}
	initFlagRule(p, r, parse)
	r.Rule("E5-FLUSHED", "every successful return of Parse is decided by 'bytes are buffered' (contentEnd > 0), whose true side hands buf[:contentEnd] to the callback", 2)
	for _, b := range parse.Blocks {
		ret, ok := b.Instrs[len(b.Instrs)-1].(*ssa.Return)
		if !ok || len(ret.Results) != 1 || !isNilConst(ret.Results[0]) {
			continue
		}
		okFlush, why := false, "the return is not decided by a test of the number of buffered bytes"
		if d := b.Idom(); d != nil {
			if ifi, ok := d.Instrs[len(d.Instrs)-1].(*ssa.If); ok {
				if bo, ok := ifi.Cond.(*ssa.BinOp); ok && bo.Op == token.GTR {
					f, isLoad := loadedField(bo.X)
					k, isConst := constInt(bo.Y)
					if isLoad && f == "chunkparser.MP4ChunkParser.contentEnd" && isConst && k == 0 {
						// the true side calls the callback with buf[:contentEnd]
						hands := false
						for _, in := range d.Succs[0].Instrs {
							if sl, ok := in.(*ssa.Slice); ok && sl.Low == nil && sl.High != nil {
								if hf, ok := loadedField(sl.High); ok && hf == "chunkparser.MP4ChunkParser.contentEnd" {
									hands = true
								}
							}
						}
						if hands {
							okFlush, why = true, "decided by contentEnd > 0; the true side hands buf[:contentEnd] to the callback"
						} else {
							why = "the buffered bytes handed to the callback are not buf[:contentEnd]"
						}
					} else {
						why = "the flush before this return is guarded by " + bo.String() + ", not by 'bytes are buffered' (contentEnd > 0): buffered bytes can be dropped"
					}
				}
			}
		}
		r.Decide(okFlush, "E5-FLUSHED", shortFn(parse), "return-nil", p.pos(instrPos(ret)), why, "the parser can return successfully without delivering bytes it has read: "+why, nil)
	}
}
