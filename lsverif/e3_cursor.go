package main

import "golang.org/x/tools/go/ssa"

// placeholder until E3 is in place
func checkCursorProgress(p *Program, r *Reporter, fns []*ssa.Function, rule string, floor int) {}
