package main

func init() { register("C08", checkC08) }

func checkC08(p *Program, r *Reporter) {
	r.Explanation = "Static fault-site analysis (E3) over every repository function reachable from the HTTP handlers and goroutine roots of both servers: " +
		"for fault classes A (integer division), B1/B2/B4 (index, slice bound, slice-to-array), C (explicit panic), E (type assertion without comma-ok), " +
		"D (nil dereference of fallible-parser results) and F (request-driven loop cursor, unguarded channel operation) each faulting instruction whose faulting operand is request-controlled " +
		"(explicit data flow from *http.Request, huma inputs and upload bytes through a field-based dependence graph) must be excluded by a dominating guard, an interval fact, a validated-field fact or a proof at all call sites. " +
		"Decides: no request-controlled operand reaches such an instruction unguarded. Does not decide the status code/message wording, wall-time bounds, nor faults inside library code on decoded objects."
	r.NotCovered = "nil-ness of fields of decoded mp4ff/dash-mpd/etree objects; loop-carried indices of the audio re-segmentation; memory exhaustion; wording of 4xx messages; wall-time bound"
	r.Assumptions = []string{"explicit data flow only (selection of an asset/representation by a request does not taint the selected object)",
		"integer overflow/truncation in conversions is not modelled", "VTA call graph resolves dynamic calls soundly", "GOARCH=amd64"}
	e := sharedE3(p, r)
	r.Rule("E3-A", "integer / and % with a request-controlled divisor: divisor proven non-zero", 40)
	e.classA("E3-A", e.fns)
	r.Rule("E3-B1", "constant index/slice bound on request-derived slice/string: length proven", 10)
	r.Rule("E3-B1p", "constant index into the result of a repository function with an explicit nil return: length tested", 1)
	r.Rule("E3-B2", "request-controlled index/slice bound: 0 <= i < len proven", 3)
	r.Rule("E3-B4", "slice to array conversion of request-derived slice: length proven", 0)
	r.Rule("E3-B5", "index computed by a modulo helper with the container's length as modulus: the helper's result is in [0, n)", 3)
	e.classB("E3-B", e.fns)
	r.Rule("E3-C", "explicit panic not reachable under a request-controlled condition", 5)
	e.classC("E3-C", e.fns)
	r.Rule("E3-E", "type assertion without comma-ok: every concrete type reaching it satisfies the asserted type", 1)
	e.classE("E3-E", e.fns)
	r.Rule("E3-D1", "pointer result of a repository function that may return nil: tested (or its error tested) before dereference", 0)
	r.Rule("E3-D2", "pointer field that is nil-tested somewhere (or a parameter fed from one): non-nil test dominates every dereference", 10)
	e.classD("E3-D", e.fns)
	r.Rule("E3-G", "make with a request-controlled length or capacity: proven non-negative", 0)
	e.classG("E3-G", e.fns)
	r.Rule("E3-D3", "pointer result of a library function documented to return nil (etree lookups): tested before use", 1)
	r.Rule("E3-C2", "library functions that panic on bad input (httptest.NewRequest, MustCompile, template.Must) get no request-controlled argument", 0)
	e.classLib("E3-D3", "E3-C2", e.fns)
	r.Rule("E3-D4", "function values called straight out of a map lookup: no entry of that map is ever deleted, or the value is tested", 1)
	e.classD4("E3-D4", e.fns)
	checkCursorProgress(p, r, e.fns, "E3-F1", 1)
	checkChannelOps(p, r, "E3-F2", 3)
}
