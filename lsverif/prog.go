package main

// E0: program loading, SSA construction, call graph, entry roots, reachability.

import (
	"fmt"
	"go/token"
	"go/types"
	"os"
	"sort"
	"strings"

	"golang.org/x/tools/go/callgraph"
	"golang.org/x/tools/go/callgraph/cha"
	"golang.org/x/tools/go/callgraph/vta"
	"golang.org/x/tools/go/packages"
	"golang.org/x/tools/go/ssa"
	"golang.org/x/tools/go/ssa/ssautil"
)

const modPath = "github.com/Dash-Industry-Forum/livesim2"

const (
	pkgApp   = modPath + "/cmd/livesim2/app"
	pkgRecv  = modPath + "/cmd/cmaf-ingest-receiver/app"
	pkgChunk = modPath + "/pkg/chunkparser"
	pkgPatch = modPath + "/pkg/patch"
	pkgScte  = modPath + "/pkg/scte35"
	pkgDrm   = modPath + "/pkg/drm"
	pkgLog   = modPath + "/pkg/logging"
)

// Program is the analysed program.
type Program struct {
	RepoDir  string
	Fset     *token.FileSet
	Pkgs     []*packages.Package // repository packages only
	AllPkgs  map[string]*packages.Package
	SSA      *ssa.Program
	SSAPkgs  map[string]*ssa.Package
	AllFuncs map[*ssa.Function]bool
	CG       *callgraph.Graph
	cgKind   string

	siteCallees map[ssa.CallInstruction][]*ssa.Function

	Roots     []*Root
	rootByFn  map[*ssa.Function]*Root
	reachH    map[*ssa.Function]*ssa.Function // reachable from H/G roots -> predecessor (for path)
	reachRoot map[*ssa.Function]*Root
	reachS    map[*ssa.Function]bool // reachable from main/init without going through opaque library code
}

// Root is an entry point.
type Root struct {
	Fn    *ssa.Function
	Class string // "H" http handler, "G" goroutine
	Why   string
}

func isRepoPkgPath(p string) bool {
	return p == modPath || strings.HasPrefix(p, modPath+"/")
}

func (p *Program) isRepoFunc(fn *ssa.Function) bool {
	if fn == nil {
		return false
	}
	if pk := fnPkg(fn); pk != nil {
		return isRepoPkgPath(pk.Path())
	}
	return false
}

// fnPkg returns the types.Package a function belongs to, looking through
// closures, bound-method wrappers and generic instantiations.
func fnPkg(fn *ssa.Function) *types.Package {
	for f := fn; f != nil; f = f.Parent() {
		if f.Pkg != nil {
			return f.Pkg.Pkg
		}
		if o := f.Origin(); o != nil && o.Pkg != nil {
			return o.Pkg.Pkg
		}
		if obj := f.Object(); obj != nil && obj.Pkg() != nil {
			return obj.Pkg()
		}
	}
	return nil
}

func loadProgram(repoDir string, cgKind string) (*Program, error) {
	cfg := &packages.Config{
		Mode:  packages.LoadAllSyntax,
		Dir:   repoDir,
		Tests: false,
		Env: append(os.Environ(),
			"GOFLAGS=-mod=readonly", "GOPROXY=off", "GOSUMDB=off", "GOTOOLCHAIN=local", "GOWORK=off",
			"GOARCH=amd64", "GOOS=linux", "CGO_ENABLED=0"),
	}
	initial, err := packages.Load(cfg, "./...")
	if err != nil {
		return nil, fmt.Errorf("packages.Load: %w", err)
	}
	p := &Program{RepoDir: repoDir, AllPkgs: map[string]*packages.Package{}, SSAPkgs: map[string]*ssa.Package{}}
	nerr := 0
	packages.Visit(initial, nil, func(pk *packages.Package) {
		p.AllPkgs[pk.PkgPath] = pk
		if isRepoPkgPath(pk.PkgPath) {
			for _, e := range pk.Errors {
				fmt.Fprintf(os.Stderr, "load error: %s: %v\n", pk.PkgPath, e)
				nerr++
			}
		}
	})
	if nerr > 0 {
		return nil, fmt.Errorf("%d load/type errors in repository packages", nerr)
	}
	for _, pk := range initial {
		if isRepoPkgPath(pk.PkgPath) {
			p.Pkgs = append(p.Pkgs, pk)
		}
	}
	sort.Slice(p.Pkgs, func(i, j int) bool { return p.Pkgs[i].PkgPath < p.Pkgs[j].PkgPath })
	if len(p.Pkgs) < 13 {
		return nil, fmt.Errorf("only %d repository packages loaded (floor 13)", len(p.Pkgs))
	}
	if len(initial) > 0 {
		p.Fset = initial[0].Fset
	}
	prog, pkgs := ssautil.AllPackages(initial, ssa.InstantiateGenerics)
	prog.Build()
	p.SSA = prog
	for i, sp := range pkgs {
		if sp != nil {
			p.SSAPkgs[initial[i].PkgPath] = sp
		}
	}
	for _, sp := range prog.AllPackages() {
		if _, ok := p.SSAPkgs[sp.Pkg.Path()]; !ok {
			p.SSAPkgs[sp.Pkg.Path()] = sp
		}
	}
	p.AllFuncs = ssautil.AllFunctions(prog)
	p.cgKind = cgKind
	switch cgKind {
	case "cha":
		p.CG = cha.CallGraph(prog)
	default:
		p.CG = vta.CallGraph(p.AllFuncs, cha.CallGraph(prog))
	}
	p.findRoots()
	p.computeReach()
	p.computeReachS()
	summaryProgram = p
	return p, nil
}

// lookupFunc finds a package-level function or a method "Type.Method" / "(*Type).Method".
func (p *Program) lookupFunc(pkgPath, name string) *ssa.Function {
	sp := p.SSAPkgs[pkgPath]
	if sp == nil {
		return nil
	}
	if i := strings.Index(name, "."); i >= 0 {
		tname, mname := name[:i], name[i+1:]
		tname = strings.TrimPrefix(tname, "(*")
		tname = strings.TrimSuffix(tname, ")")
		tn, ok := sp.Members[tname].(*ssa.Type)
		if !ok {
			return nil
		}
		T := tn.Type()
		for _, t := range []types.Type{T, types.NewPointer(T)} {
			ms := p.SSA.MethodSets.MethodSet(t)
			for i := 0; i < ms.Len(); i++ {
				if ms.At(i).Obj().Name() == mname {
					return p.SSA.MethodValue(ms.At(i))
				}
			}
		}
		return nil
	}
	return sp.Func(name)
}

// mustFunc is lookupFunc that records an unresolved anchor.
func (p *Program) mustFunc(r *Reporter, pkgPath, name string) *ssa.Function {
	fn := p.lookupFunc(pkgPath, name)
	if fn == nil || len(fn.Blocks) == 0 {
		r.Broken("anchor function %s.%s does not resolve", pkgPath, name)
		return nil
	}
	return fn
}

func (p *Program) lookupType(pkgPath, name string) *types.Named {
	pk := p.AllPkgs[pkgPath]
	if pk == nil || pk.Types == nil {
		return nil
	}
	o := pk.Types.Scope().Lookup(name)
	if o == nil {
		return nil
	}
	n, _ := o.Type().(*types.Named)
	return n
}

// ---------------------------------------------------------------- roots

func isHandlerFuncType(t types.Type) bool {
	sig, ok := t.Underlying().(*types.Signature)
	if !ok {
		return false
	}
	if sig.Params().Len() != 2 || sig.Results().Len() != 0 {
		return false
	}
	return types.TypeString(sig.Params().At(0).Type(), nil) == "net/http.ResponseWriter" &&
		types.TypeString(sig.Params().At(1).Type(), nil) == "*net/http.Request"
}

func isHumaHandlerType(t types.Type) bool {
	sig, ok := t.Underlying().(*types.Signature)
	if !ok {
		return false
	}
	if sig.Params().Len() != 2 || sig.Results().Len() != 2 {
		return false
	}
	return types.TypeString(sig.Params().At(0).Type(), nil) == "context.Context" &&
		types.TypeString(sig.Results().At(1).Type(), nil) == "error"
}

// unwrapFuncValues resolves a value used as a function value to the repository
// functions it may denote (function, closure, bound method, result of a
// constructor that returns a closure).
func unwrapFuncValues(v ssa.Value, depth int) []*ssa.Function {
	if depth > 4 {
		return nil
	}
	switch x := v.(type) {
	case *ssa.Function:
		return []*ssa.Function{resolveWrapper(x)}
	case *ssa.MakeClosure:
		if f, ok := x.Fn.(*ssa.Function); ok {
			return []*ssa.Function{resolveWrapper(f)}
		}
	case *ssa.ChangeType:
		return unwrapFuncValues(x.X, depth+1)
	case *ssa.MakeInterface:
		return unwrapFuncValues(x.X, depth+1)
	case *ssa.Convert:
		return unwrapFuncValues(x.X, depth+1)
	case *ssa.Phi:
		var out []*ssa.Function
		for _, e := range x.Edges {
			out = append(out, unwrapFuncValues(e, depth+1)...)
		}
		return out
	case *ssa.Call:
		callee := x.Call.StaticCallee()
		if callee == nil {
			return nil
		}
		var out []*ssa.Function
		for _, b := range callee.Blocks {
			for _, in := range b.Instrs {
				if ret, ok := in.(*ssa.Return); ok {
					for _, res := range ret.Results {
						if _, ok := res.Type().Underlying().(*types.Signature); ok {
							out = append(out, unwrapFuncValues(res, depth+1)...)
						}
					}
				}
			}
		}
		return out
	}
	return nil
}

func unwrapFuncValue(v ssa.Value) *ssa.Function {
	fs := unwrapFuncValues(v, 0)
	if len(fs) > 0 {
		return fs[0]
	}
	return nil
}

// resolveWrapper maps synthetic $bound / $thunk wrappers to the wrapped method.
func resolveWrapper(f *ssa.Function) *ssa.Function {
	if f == nil {
		return nil
	}
	if f.Synthetic != "" && (strings.HasSuffix(f.Name(), "$bound") || strings.HasSuffix(f.Name(), "$thunk")) {
		// the wrapper's body is a single call to the method
		for _, b := range f.Blocks {
			for _, in := range b.Instrs {
				if c, ok := in.(ssa.CallInstruction); ok {
					if callee := c.Common().StaticCallee(); callee != nil {
						return callee
					}
				}
			}
		}
	}
	return f
}

func (p *Program) addRoot(fn *ssa.Function, class, why string) {
	if fn == nil || !p.isRepoFunc(fn) || len(fn.Blocks) == 0 {
		return
	}
	if r, ok := p.rootByFn[fn]; ok {
		if class == "H" && r.Class != "H" {
			r.Class = "H"
		}
		return
	}
	r := &Root{Fn: fn, Class: class, Why: why}
	p.rootByFn[fn] = r
	p.Roots = append(p.Roots, r)
}

func (p *Program) findRoots() {
	p.rootByFn = map[*ssa.Function]*Root{}
	for fn := range p.AllFuncs {
		if !p.isRepoFunc(fn) {
			continue
		}
		pk := fnPkg(fn)
		if pk != nil && strings.Contains(pk.Path(), "/cmd/dashfetcher") {
			continue
		}
		for _, b := range fn.Blocks {
			for _, in := range b.Instrs {
				switch x := in.(type) {
				case *ssa.Go:
					if callee := x.Call.StaticCallee(); callee != nil {
						p.addRoot(resolveWrapper(callee), "G", "go statement in "+fn.String())
					} else if f := unwrapFuncValue(x.Call.Value); f != nil {
						p.addRoot(f, "G", "go statement in "+fn.String())
					}
				case ssa.CallInstruction:
					p.rootsFromCall(fn, x.Common())
				}
				// conversion of a func value to http.HandlerFunc
				if ct, ok := in.(*ssa.ChangeType); ok {
					if types.TypeString(ct.Type(), nil) == "net/http.HandlerFunc" {
						if f := unwrapFuncValue(ct.X); f != nil {
							p.addRoot(f, "H", "converted to http.HandlerFunc in "+fn.String())
						}
					}
				}
				// returned closure of a middleware: func(http.Handler) http.Handler
				if mc, ok := in.(*ssa.MakeClosure); ok {
					if f, ok := mc.Fn.(*ssa.Function); ok && isHandlerFuncType(f.Signature) {
						p.addRoot(resolveWrapper(f), "H", "handler closure in "+fn.String())
					}
				}
			}
		}
	}
	sort.Slice(p.Roots, func(i, j int) bool { return p.Roots[i].Fn.String() < p.Roots[j].Fn.String() })
}

func (p *Program) rootsFromCall(in *ssa.Function, c *ssa.CallCommon) {
	var sig *types.Signature
	if c.IsInvoke() {
		sig, _ = c.Method.Type().(*types.Signature)
	} else {
		sig, _ = c.Value.Type().Underlying().(*types.Signature)
	}
	if sig == nil {
		return
	}
	for i, a := range c.Args {
		// parameter type (variadic aware)
		var pt types.Type
		idx := i
		if !c.IsInvoke() && sig.Recv() != nil {
			idx = i - 1
			if idx < 0 {
				continue
			}
		}
		if idx < sig.Params().Len() {
			pt = sig.Params().At(idx).Type()
		} else if sig.Variadic() && sig.Params().Len() > 0 {
			pt = sig.Params().At(sig.Params().Len() - 1).Type()
		}
		if pt == nil {
			continue
		}
		pts := types.TypeString(pt, nil)
		isH := pts == "net/http.Handler" || pts == "net/http.HandlerFunc" || isHandlerFuncType(pt)
		callee := c.StaticCallee()
		isHuma := callee != nil && callee.Pkg != nil && strings.Contains(callee.Pkg.Pkg.Path(), "danielgtaylor/huma") && isHumaHandlerType(a.Type())
		if callee != nil && callee.Origin() != nil && callee.Origin().Pkg != nil &&
			strings.Contains(callee.Origin().Pkg.Pkg.Path(), "danielgtaylor/huma") && isHumaHandlerType(a.Type()) {
			isHuma = true
		}
		if !isH && !isHuma {
			continue
		}
		for _, f := range unwrapFuncValues(a, 0) {
			p.addRoot(f, "H", "registered in "+in.String())
		}
	}
}

// computeReach computes, for every function reachable from an H or G root,
// one predecessor (BFS tree) so that a call path can be printed.
func (p *Program) computeReach() {
	p.reachH = map[*ssa.Function]*ssa.Function{}
	p.reachRoot = map[*ssa.Function]*Root{}
	var queue []*ssa.Function
	for _, r := range p.Roots {
		if _, ok := p.reachH[r.Fn]; !ok {
			p.reachH[r.Fn] = nil
			p.reachRoot[r.Fn] = r
			queue = append(queue, r.Fn)
		}
	}
	for len(queue) > 0 {
		fn := queue[0]
		queue = queue[1:]
		for _, callee := range p.callees(fn) {
			if _, ok := p.reachH[callee]; ok {
				continue
			}
			p.reachH[callee] = fn
			p.reachRoot[callee] = p.reachRoot[fn]
			queue = append(queue, callee)
		}
		// closures created in fn are considered reachable from it
		for _, an := range fn.AnonFuncs {
			if _, ok := p.reachH[an]; !ok {
				p.reachH[an] = fn
				p.reachRoot[an] = p.reachRoot[fn]
				queue = append(queue, an)
			}
		}
	}
}

// callees returns the distinct callees of fn according to the call graph, sorted.
func (p *Program) callees(fn *ssa.Function) []*ssa.Function {
	n := p.CG.Nodes[fn]
	if n == nil {
		return nil
	}
	seen := map[*ssa.Function]bool{}
	var out []*ssa.Function
	for _, e := range n.Out {
		c := e.Callee.Func
		if c != nil && !seen[c] {
			seen[c] = true
			out = append(out, c)
		}
	}
	sort.Slice(out, func(i, j int) bool { return out[i].String() < out[j].String() })
	return out
}

// calleesAt returns the callees of a specific call site.
func (p *Program) calleesAt(site ssa.CallInstruction) []*ssa.Function {
	if c := site.Common().StaticCallee(); c != nil {
		return []*ssa.Function{c}
	}
	if p.siteCallees == nil {
		p.siteCallees = map[ssa.CallInstruction][]*ssa.Function{}
		for _, n := range p.CG.Nodes {
			for _, e := range n.Out {
				if e.Site == nil || e.Callee.Func == nil {
					continue
				}
				dup := false
				for _, f := range p.siteCallees[e.Site] {
					if f == e.Callee.Func {
						dup = true
					}
				}
				if !dup {
					p.siteCallees[e.Site] = append(p.siteCallees[e.Site], e.Callee.Func)
				}
			}
		}
		for _, l := range p.siteCallees {
			sort.Slice(l, func(i, j int) bool { return l[i].String() < l[j].String() })
		}
	}
	return p.siteCallees[site]
}

// callersOf returns the call sites (in any function) that may call fn.
func (p *Program) callersOf(fn *ssa.Function) []ssa.CallInstruction {
	n := p.CG.Nodes[fn]
	if n == nil {
		return nil
	}
	var out []ssa.CallInstruction
	for _, e := range n.In {
		if e.Site != nil {
			out = append(out, e.Site)
		}
	}
	return out
}

// reachableFrom returns the set of functions reachable from the given functions.
func (p *Program) reachableFrom(starts ...*ssa.Function) map[*ssa.Function]bool {
	seen := map[*ssa.Function]bool{}
	var q []*ssa.Function
	for _, s := range starts {
		if s != nil && !seen[s] {
			seen[s] = true
			q = append(q, s)
		}
	}
	for len(q) > 0 {
		fn := q[0]
		q = q[1:]
		for _, c := range p.callees(fn) {
			if !seen[c] {
				seen[c] = true
				q = append(q, c)
			}
		}
		for _, an := range fn.AnonFuncs {
			if !seen[an] {
				seen[an] = true
				q = append(q, an)
			}
		}
	}
	return seen
}

// handlerReachableRepoFuncs lists repository functions reachable from the roots.
func (p *Program) handlerReachableRepoFuncs() []*ssa.Function {
	var out []*ssa.Function
	for fn := range p.reachH {
		if p.isRepoFunc(fn) && len(fn.Blocks) > 0 && fn.Synthetic == "" {
			out = append(out, fn)
		}
	}
	sort.Slice(out, func(i, j int) bool { return out[i].String() < out[j].String() })
	return out
}

func (p *Program) callPath(fn *ssa.Function) []string {
	var path []string
	seen := map[*ssa.Function]bool{}
	for f := fn; f != nil && !seen[f]; f = p.reachH[f] {
		seen[f] = true
		path = append(path, f.String())
	}
	for i, j := 0, len(path)-1; i < j; i, j = i+1, j-1 {
		path[i], path[j] = path[j], path[i]
	}
	return path
}

func (p *Program) pos(ps token.Pos) string {
	if !ps.IsValid() {
		return "-"
	}
	po := p.Fset.Position(ps)
	f := po.Filename
	if rel := strings.TrimPrefix(f, p.RepoDir+"/"); rel != f {
		f = rel
	}
	return fmt.Sprintf("%s:%d", f, po.Line)
}

// instrPos returns the best position for an instruction.
func instrPos(in ssa.Instruction) token.Pos {
	if in.Pos().IsValid() {
		return in.Pos()
	}
	if v, ok := in.(ssa.Value); ok {
		_ = v
	}
	// fall back to operands
	for _, op := range in.Operands(nil) {
		if op != nil && *op != nil && (*op).Pos().IsValid() {
			return (*op).Pos()
		}
	}
	if in.Parent() != nil {
		return in.Parent().Pos()
	}
	return token.NoPos
}

// allRepoFuncs lists all repository functions with bodies (excluding dashfetcher and synthetic).
func (p *Program) allRepoFuncs() []*ssa.Function {
	var out []*ssa.Function
	for fn := range p.AllFuncs {
		if p.isRepoFunc(fn) && len(fn.Blocks) > 0 && fn.Synthetic == "" {
			out = append(out, fn)
		}
	}
	sort.Slice(out, func(i, j int) bool { return out[i].String() < out[j].String() })
	return out
}

// computeReachS: functions that may run at start-up: reachable from main and
// package initialisers through repository code and the transparent data
// libraries (closures created in a reachable function count as reachable).
func (p *Program) computeReachS() {
	p.reachS = map[*ssa.Function]bool{}
	var q []*ssa.Function
	add := func(f *ssa.Function) {
		if f != nil && !p.reachS[f] {
			p.reachS[f] = true
			q = append(q, f)
		}
	}
	for _, sp := range p.SSA.AllPackages() {
		if !isRepoPkgPath(sp.Pkg.Path()) {
			continue
		}
		add(sp.Func("init"))
		add(sp.Func("main"))
	}
	for len(q) > 0 {
		fn := q[0]
		q = q[1:]
		for _, an := range fn.AnonFuncs {
			// handler closures registered at start-up are not executed at start-up
			if _, isRoot := p.rootByFn[an]; !isRoot {
				add(an)
			}
		}
		for _, c := range p.callees(fn) {
			if _, isRoot := p.rootByFn[c]; isRoot {
				continue
			}
			pk := calleePkgPath(c)
			if isRepoPkgPath(pk) || isTransparentLib(pk) {
				add(c)
			}
		}
	}
}
