package main

// Guard summaries of repository helpers, so that extracting a test into a helper does not
// change a verdict:
//   - error form:  if err := helper(x); err != nil { return ... }   — on the nil side, every
//     condition holds that holds on all success returns of helper (expressed over helper's values);
//   - flag form:   ok, v := helper(x); if ok { ... }               — on the true side, every
//     condition holds that holds on all returns of helper yielding the constant true.
// Conditions are injected, one level deep, into dominatingConds and condSets. Values of the callee
// are tied to the caller by sameValue (a parameter equals the argument bound to it at a call site in
// the other value's function) and by exprKey (a parameter of a function with exactly one static call
// site is named by its argument).

import (
	"go/constant"
	"go/token"

	"golang.org/x/tools/go/ssa"
)

var summaryProgram *Program

// calleeOfCondition: c holds and is "error of call == nil" / "bool result of call (== true)":
// returns the call, the result index and whether it is the error form.
func calleeOfCondition(c cond) (*ssa.Call, int, bool, bool) {
	p := summaryProgram
	if p == nil || c.V == nil {
		return nil, 0, false, false
	}
	resultOf := func(v ssa.Value) (*ssa.Call, int, bool) {
		switch x := v.(type) {
		case *ssa.Extract:
			if call, ok := x.Tuple.(*ssa.Call); ok {
				return call, x.Index, true
			}
		case *ssa.Call:
			return x, 0, true
		}
		return nil, 0, false
	}
	// error form
	if bo, ok := c.V.(*ssa.BinOp); ok && (bo.Op == token.EQL || bo.Op == token.NEQ) {
		var e ssa.Value
		if isNilConst(bo.Y) {
			e = bo.X
		} else if isNilConst(bo.X) {
			e = bo.Y
		}
		if e != nil && (isErrorType(e.Type()) || isErrPointerResult(e)) && (bo.Op == token.EQL) == c.Pos {
			if call, idx, ok := resultOf(e); ok {
				if callee := call.Call.StaticCallee(); callee != nil && p.isRepoFunc(callee) && len(callee.Blocks) > 0 {
					return call, idx, true, true
				}
			}
		}
		return nil, 0, false, false
	}
	// flag form
	if c.Pos {
		if call, idx, ok := resultOf(c.V); ok {
			if b, isBasic := c.V.Type().Underlying().(interface{ Kind() interface{} }); isBasic {
				_ = b
			}
			if c.V.Type().String() == "bool" {
				if callee := call.Call.StaticCallee(); callee != nil && p.isRepoFunc(callee) && len(callee.Blocks) > 0 {
					return call, idx, false, true
				}
			}
		}
	}
	return nil, 0, false, false
}

// summaryReturns: the return blocks of callee that match the condition (error result nil / flag result true).
func summaryReturns(callee *ssa.Function, idx int, errForm bool) []*ssa.BasicBlock {
	var out []*ssa.BasicBlock
	for _, b := range callee.Blocks {
		ret, ok := b.Instrs[len(b.Instrs)-1].(*ssa.Return)
		if !ok || idx >= len(ret.Results) {
			continue
		}
		res := ret.Results[idx]
		if errForm {
			if isNilConst(res) {
				out = append(out, b)
			} else if !definitelyNonNilError(res, b) {
				// a computed error that may be nil: a success return we cannot characterise
				return nil
			}
			continue
		}
		cst, isConst := res.(*ssa.Const)
		if !isConst {
			out = append(out, b) // computed flag: its truth conditions are added by truthAlternatives
			continue
		}
		if cst.Value == nil || cst.Value.Kind() != constant.Bool {
			return nil
		}
		if constant.BoolVal(cst.Value) {
			out = append(out, b)
		}
	}
	return out
}

var summaryDomMemo = map[*ssa.Call]map[int][]cond{}

// summaryDominating: conditions holding on all matching returns of the callee.
func summaryDominating(call *ssa.Call, idx int, errForm bool) []cond {
	if m, ok := summaryDomMemo[call]; ok {
		if r, ok := m[idx]; ok {
			return r
		}
	}
	callee := call.Call.StaticCallee()
	rets := summaryReturns(callee, idx, errForm)
	var common map[string]cond
	ff := factsOf(callee)
	for _, rb := range rets {
		for _, alt := range returnAlternatives(ff, rb, idx, errForm, false) {
			here := map[string]cond{}
			for _, d := range alt {
				here[condKey(d)] = d
			}
			if common == nil {
				common = here
			} else {
				for k := range common {
					if _, ok := here[k]; !ok {
						delete(common, k)
					}
				}
			}
		}
	}
	var out []cond
	for _, k := range sortedCondKeys(common) {
		out = append(out, common[k])
	}
	if summaryDomMemo[call] == nil {
		summaryDomMemo[call] = map[int][]cond{}
	}
	summaryDomMemo[call][idx] = out
	return out
}

// summarySets: alternative condition sets, one of which holds on every matching return of the callee.
func summarySets(call *ssa.Call, idx int, errForm bool) [][]cond {
	callee := call.Call.StaticCallee()
	rets := summaryReturns(callee, idx, errForm)
	ff := factsOf(callee)
	var out [][]cond
	for _, rb := range rets {
		for _, s := range returnAlternatives(ff, rb, idx, errForm, true) {
			out = append(out, s)
			if len(out) > maxCondSets {
				return nil
			}
		}
	}
	return out
}

func condKey(c cond) string {
	k := exprKey(c.V)
	if c.Pos {
		return k + "|T"
	}
	return k + "|F"
}

func sortedCondKeys(m map[string]cond) []string {
	var ks []string
	for k := range m {
		ks = append(ks, k)
	}
	sortStrings(ks)
	return ks
}

// boundArgument: if prm is a parameter of a function called from fn, the argument bound to it at a call
// site in fn (the first one; helpers reached through a summary have their call in fn).
func boundArgument(prm *ssa.Parameter, fn *ssa.Function) ssa.Value {
	p := summaryProgram
	if p == nil || prm.Parent() == nil || prm.Parent() == fn {
		return nil
	}
	callee := prm.Parent()
	idx := -1
	for i, q := range callee.Params {
		if q == prm {
			idx = i
		}
	}
	if idx < 0 {
		return nil
	}
	for _, s := range p.callersOf(callee) {
		if s.Parent() != fn || s.Common().StaticCallee() != callee {
			continue
		}
		args := s.Common().Args
		if idx < len(args) {
			return args[idx]
		}
	}
	return nil
}

// uniqueCallArgument: the argument of prm at the only static call site of its function (nil otherwise).
func uniqueCallArgument(prm *ssa.Parameter) ssa.Value {
	p := summaryProgram
	if p == nil || prm.Parent() == nil {
		return nil
	}
	callee := prm.Parent()
	if callee.Signature.Recv() != nil && len(callee.Params) > 0 && callee.Params[0] == prm {
		return nil // receivers keep their own name
	}
	var site ssa.CallInstruction
	n := 0
	for _, s := range p.callersOf(callee) {
		if !p.isRepoFunc(s.Parent()) {
			return nil
		}
		if s.Common().StaticCallee() != callee {
			return nil // reached dynamically as well
		}
		n++
		site = s
	}
	if n != 1 {
		return nil
	}
	if _, isGo := site.(*ssa.Go); isGo {
		return nil
	}
	for i, q := range callee.Params {
		if q == prm && i < len(site.Common().Args) {
			return site.Common().Args[i]
		}
	}
	return nil
}

// definitelyNonNilError: the returned error value cannot be nil (freshly constructed, boxed, or tested non-nil on the way).
func definitelyNonNilError(v ssa.Value, at *ssa.BasicBlock) bool {
	switch x := v.(type) {
	case *ssa.MakeInterface:
		return true
	case *ssa.Alloc:
		return true // the address of a freshly built value
	case *ssa.Call:
		if callee := x.Call.StaticCallee(); callee != nil {
			switch callee.String() {
			case "fmt.Errorf", "errors.New":
				return true
			}
			// a repository constructor of an error value: every return hands out a fresh object
			if summaryProgram != nil && summaryProgram.isRepoFunc(callee) && len(callee.Blocks) > 0 && callee.Signature.Results().Len() == 1 {
				all := true
				n := 0
				for _, b := range callee.Blocks {
					if ret, ok := b.Instrs[len(b.Instrs)-1].(*ssa.Return); ok && len(ret.Results) == 1 {
						n++
						switch ret.Results[0].(type) {
						case *ssa.Alloc, *ssa.MakeInterface:
						default:
							all = false
						}
					}
				}
				if all && n > 0 {
					return true
				}
			}
		}
	case *ssa.UnOp:
		if g, ok := x.X.(*ssa.Global); ok && x.Op == token.MUL && sentinelGlobal(g) {
			return true
		}
	}
	for _, c := range factsOf(at.Parent()).baseDominatingConds(at) {
		if is, nonNilOnTrue := nilTest(c.V, v); is && nonNilOnTrue == c.Pos {
			return true
		}
	}
	return false
}

// uniqueCallSite: the only static call site of fn in repository code (nil if there are several, none, or dynamic ones).
func uniqueCallSite(fn *ssa.Function) ssa.CallInstruction {
	p := summaryProgram
	if p == nil || fn == nil {
		return nil
	}
	var site ssa.CallInstruction
	n := 0
	for _, s := range p.callersOf(fn) {
		if !p.isRepoFunc(s.Parent()) || s.Common().StaticCallee() != fn {
			return nil
		}
		if _, isGo := s.(*ssa.Go); isGo {
			return nil
		}
		n++
		site = s
	}
	if n != 1 {
		return nil
	}
	return site
}

// effectiveCDeps: the conditions block b is control-dependent on, continued through the unique call sites of
// its function (an action moved into a helper keeps the conditions its call is subject to), up to 3 levels.
func effectiveCDeps(b *ssa.BasicBlock, moduloErr bool) []cond {
	out := factsOf(b.Parent()).transitiveCDeps(b, moduloErr)
	fn := b.Parent()
	for lvl := 0; lvl < 3; lvl++ {
		site := uniqueCallSite(fn)
		if site == nil {
			break
		}
		out = append(out, factsOf(site.Parent()).transitiveCDeps(site.Block(), moduloErr)...)
		fn = site.Parent()
	}
	return out
}

// effectiveDomConds: the conditions known to hold at b, continued through the unique call sites of its function.
func effectiveDomConds(b *ssa.BasicBlock) []cond {
	out := append([]cond{}, factsOf(b.Parent()).dominatingConds(b)...)
	fn := b.Parent()
	for lvl := 0; lvl < 3; lvl++ {
		site := uniqueCallSite(fn)
		if site == nil {
			break
		}
		out = append(out, factsOf(site.Parent()).dominatingConds(site.Block())...)
		fn = site.Parent()
	}
	return out
}

// cluster: fn and the repository functions it calls (two levels) that have no caller outside the cluster:
// the code a reader would still regard as "the body of fn" after helper extraction.
func cluster(fn *ssa.Function) []*ssa.Function {
	p := summaryProgram
	out := []*ssa.Function{fn}
	in := map[*ssa.Function]bool{fn: true}
	for lvl := 0; lvl < 2; lvl++ {
		var add []*ssa.Function
		for _, f := range out {
			for _, b := range f.Blocks {
				for _, instr := range b.Instrs {
					c, ok := instr.(ssa.CallInstruction)
					if !ok {
						continue
					}
					callee := c.Common().StaticCallee()
					if callee == nil || in[callee] || p == nil || !p.isRepoFunc(callee) || len(callee.Blocks) == 0 {
						continue
					}
					private := true
					for _, s := range p.callersOf(callee) {
						if !in[s.Parent()] {
							private = false
						}
					}
					if private {
						in[callee] = true
						add = append(add, callee)
					}
				}
			}
		}
		out = append(out, add...)
	}
	return out
}

// returnAlternatives: the alternative condition sets under which return block rb yields the summarised
// outcome (nil error / true flag): the conditions of reaching rb, and for a computed flag the conditions
// under which the returned value is true.
func returnAlternatives(ff *funcFacts, rb *ssa.BasicBlock, idx int, errForm, pathSensitive bool) [][]cond {
	var reach [][]cond
	if pathSensitive {
		reach = ff.baseCondSets(rb)
	} else {
		reach = [][]cond{ff.baseDominatingConds(rb)}
	}
	if errForm {
		return reach
	}
	ret := rb.Instrs[len(rb.Instrs)-1].(*ssa.Return)
	res := ret.Results[idx]
	if _, isConst := res.(*ssa.Const); isConst {
		return reach
	}
	truth := truthAlternatives(ff, res, 0)
	if len(truth) == 0 {
		return reach // nothing known about the computed flag beyond reaching the return
	}
	var out [][]cond
	for _, r := range reach {
		for _, t := range truth {
			out = append(out, append(append([]cond{}, r...), t...))
		}
	}
	return out
}

// truthAlternatives: alternative condition sets under which the bool value v is true.
func truthAlternatives(ff *funcFacts, v ssa.Value, depth int) [][]cond {
	if depth > 4 {
		return nil
	}
	switch x := v.(type) {
	case *ssa.BinOp:
		switch x.Op {
		case token.EQL, token.NEQ, token.LSS, token.LEQ, token.GTR, token.GEQ:
			return [][]cond{{cond{V: x, Pos: true, At: x.Block()}}}
		}
	case *ssa.UnOp:
		if x.Op == token.NOT {
			return [][]cond{{cond{V: x.X, Pos: false, At: x.Block()}}}
		}
	case *ssa.Phi:
		var out [][]cond
		for i, e := range x.Edges {
			pred := x.Block().Preds[i]
			base := append([]cond{}, ff.baseDominatingConds(pred)...)
			if ec, ok := edgeCond(pred, x.Block()); ok {
				base = append(base, ec)
			}
			if c, ok := e.(*ssa.Const); ok {
				if c.Value != nil && c.Value.Kind() == constant.Bool && constant.BoolVal(c.Value) {
					out = append(out, base)
				}
				continue
			}
			sub := truthAlternatives(ff, e, depth+1)
			if len(sub) == 0 {
				out = append(out, base)
				continue
			}
			for _, t := range sub {
				out = append(out, append(append([]cond{}, base...), t...))
			}
		}
		return out
	}
	return nil
}
