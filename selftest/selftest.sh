#!/bin/bash
# usage: selftest.sh <ID>
# Both-ways self-test of the check for property <ID>, from the frozen table selftest/expect.tsv:
#   <patch>\t<ID>\tfire    the check must report a violation on a scratch copy of /repo with the patch
#   <patch>\t<ID>\tsilent  the check must stay silent (behaviour-preserving rewrite)
# Patches that no longer apply to the working tree are skipped and reported (never failed).
# Writes the result into the evidence file of <ID> (coverage.selftest) and prints one line per variant.
# Exit 0: all expectations met; 2: the check misbehaves (CHECK-BROKEN).
set -u
ID="${1:?property id}"
cd /verif
export GOFLAGS=-mod=mod GOPROXY=off GOSUMDB=off GOTOOLCHAIN=local CGO_ENABLED=0
unset GOWORK
EV="${VERIF_OUT:-/verif/evidence}/$ID.json"
rc=0; results="[]"
while IFS=$'\t' read -r P PID EXP; do
  [ "$PID" = "$ID" ] || continue
  D=$(mktemp -d /tmp/st.XXXXXX)
  rsync -a --exclude .git "${VERIF_REPO:-/repo}/" "$D/"
  got=""
  if ! ( cd "$D" && git init -q . 2>/dev/null && git apply --whitespace=nowarn "/verif/$P" ) 2>/dev/null; then got="skipped(patch-does-not-apply)"
  elif ! ( cd "$D" && go build ./... ) >/dev/null 2>&1; then got="skipped(does-not-build)"
  else
    OUT=$(./bin/lsverif -repo "$D" -prop "$ID" -tier quick -out "$D/.ev" -known /verif/known_findings.json 2>&1); code=$?
    case $code in 0) got=silent;; 1) got=fire;; *) got="broken";; esac
  fi
  rm -rf "$D"
  verdict=ok
  case "$got" in skipped*) verdict=skipped;; "$EXP") verdict=ok;; *) verdict=FAILED; rc=2;; esac
  echo "SELFTEST property=$ID variant=$P expected=$EXP got=$got $verdict"
  results=$(echo "$results" | jq -c --arg p "$P" --arg e "$EXP" --arg g "$got" --arg v "$verdict" '. + [{variant:$p, expected:$e, got:$g, verdict:$v}]')
done < selftest/expect.tsv
if [ -f "$EV" ]; then
  tmp=$(mktemp); jq --argjson st "$results" '.coverage.selftest = $st' "$EV" > "$tmp" && mv "$tmp" "$EV"
fi
if [ $rc -ne 0 ]; then echo "CHECK-BROKEN property=$ID reason=self-test: a must-fire variant is no longer detected or a must-stay-silent variant fires"; fi
exit $rc
