package main

import "golang.org/x/tools/go/ssa"

func init() { register("C18", checkC18) }

func pkgFuncs(p *Program, pkgPath string) []*ssa.Function {
	var out []*ssa.Function
	for _, fn := range p.allRepoFuncs() {
		if pk := fnPkg(fn); pk != nil && pk.Path() == pkgPath {
			out = append(out, fn)
		}
	}
	return out
}

func checkC18(p *Program, r *Reporter) {
	r.Explanation = "Static analysis of two structural necessary conditions of C18 in pkg/chunkparser: " +
		"(b) every error produced by the callback, by the reader and by readUntil is returned on every path on which it is non-nil " +
		"(the io.EOF side of an explicit io.EOF comparison is exempt), decided by a forward walk over the SSA control-flow graph from the non-nil edge; " +
		"(a) the box-walk cursor makes progress and cannot wrap: the request-derived amount added to a loop-carried cursor has a proven lower bound >= 1 and a dominating overflow guard (rule E3-F1). " +
		"The behaviour itself (concatenation equals input, callback placement, init flag, independence from read fragmentation) is not decided."
	r.NotCovered = "concatenation of callback data equals input; callback at end of every mdat; init flag; independence from read fragmentation; memory use for huge declared sizes"
	r.Assumptions = []string{"go/ssa and go/types are correct", "error values are not smuggled through struct fields or channels inside pkg/chunkparser (none today; such a store makes the rule fail, not pass)"}
	fns := pkgFuncs(p, pkgChunk)
	if len(fns) == 0 {
		r.Broken("package %s has no functions", pkgChunk)
		return
	}
	r.Rule("E5-ERRRET", "every error result of a call is returned when non-nil (io.EOF branch exempt)", 6)
	ruleErrorsReturned(p, r, "E5-ERRRET", fns, nil)
	checkCursorProgress(p, r, fns, "E3-F1", 1)
}
