#!/bin/bash
# usage: explain.sh <violation file>: prints the diagnosis and re-runs the property's check
set -u
F="${1:?violation file}"
cat "$F"; echo
ID=$(python3 -c "import json,sys;print(json.load(open(sys.argv[1]))['property'])" "$F")
cd /verif && exec ./check.sh "$ID" quick
