// Reproduction: the availability time that the CMAF ingester computes for a segment (and then uses as
// "now" when it generates that segment) is truncated to whole milliseconds, so for some segments of an
// asset with fractional-millisecond segment ends the segment is "too early" at that very instant and is
// never sent.
// go test -vet=off -run TestProbeC16AvailabilityTimeNotTruncated ./cmd/livesim2/app
package app

import (
	"context"
	"net/http/httptest"
	"testing"

	"github.com/Dash-Industry-Forum/livesim2/pkg/logging"
)

func TestProbeC16AvailabilityTimeNotTruncated(t *testing.T) {
	cfg := ServerConfig{VodRoot: "testdata/assets", TimeoutS: 0, LogFormat: logging.LogDiscard}
	_ = logging.InitSlog(cfg.LogLevel, cfg.LogFormat)
	s, err := SetupServer(context.Background(), &cfg)
	if err != nil {
		t.Fatal(err)
	}
	assetPath := "WAVE/vectors/cfhd_sets/14.985_29.97_59.94/t1/2022-10-17"
	a, ok := s.assetMgr.findAsset(assetPath)
	if !ok {
		t.Fatal("asset not found")
	}
	rc := NewResponseConfig()
	rep := a.refRep
	bad := 0
	for nr := uint32(0); nr < 40; nr++ {
		availMS, err := calcSegmentAvailabilityTime(a, rep, nr, rc)
		if err != nil {
			t.Fatal(err)
		}
		w := httptest.NewRecorder()
		url := "/livesim2/" + assetPath + "/" + rep.ID + "/" + fmtInt(int(nr)) + ".m4s?nowMS=" + fmtInt(int(availMS))
		s.livesimHandlerFunc(w, httptest.NewRequest("GET", url, nil))
		if w.Code != 200 {
			bad++
			t.Errorf("segment %d: computed availability time %d ms, but a request at that instant gives %d %s", nr, availMS, w.Code, w.Body.String())
		}
	}
	if bad > 0 {
		t.Errorf("%d of 40 segments are not available at their computed availability time", bad)
	}
}
