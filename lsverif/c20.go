package main

import (
	"fmt"
	"strings"

	"golang.org/x/tools/go/ssa"
)

func init() { register("C20", checkC20) }

func checkC20(p *Program, r *Reporter) {
	r.Explanation = "Static lock-discipline analysis (E2) of the request limiter: (a) RACE: every access to a field of IPRequestLimiter that is written while serving " +
		"holds the limiter's mutex (exclusively for writes) on every path, computed by a forward must-lockset dataflow over the SSA control-flow graph with entry locksets from all call sites; " +
		"(b) ATOMIC-SECTION: count, compare and reset happen in one critical section: Inc (with the limiter methods it calls) acquires the mutex at exactly one site that dominates all its accesses; " +
		"(c) LOCK-PAIRING: every Lock is released on every exit. Decides these necessary conditions for all interleavings; does not decide the quota arithmetic, white-list matching or address parsing."
	r.NotCovered = "quota arithmetic, interval rule, white-list matching, client-address extraction (X-Forwarded-For), header values"
	r.Assumptions = []string{"the limiter object is reached only through *Server.reqLimiter and the middleware closure (origin analysis)", "sync.Mutex semantics"}
	e := sharedE2(p)
	if _, ok := e.stateTypes["app.IPRequestLimiter"]; !ok {
		r.Broken("type app.IPRequestLimiter is not reachable from the server state")
		return
	}
	r.Rule("E2-RACE", "access to a limiter field written while serving: mutex held (exclusive for writes), concurrent writer holds it too", 4)
	e.ruleRace(r, "E2-RACE", func(tid string) bool { return tid == "app.IPRequestLimiter" })
	var methods []*ssa.Function
	for _, fn := range p.allRepoFuncs() {
		if fn.Signature.Recv() != nil && strings.Contains(fn.Signature.Recv().Type().String(), "IPRequestLimiter") {
			methods = append(methods, fn)
		}
	}
	r.Rule("E2-LOCKPAIR", "every Lock/RLock is released on every exit (explicitly or deferred)", 2)
	e.ruleLockPairing(r, "E2-LOCKPAIR", methods)
	r.Rule("E2-ATOMIC", "count/compare/reset of the limiter happen in one critical section", 1)
	inc := p.mustFunc(r, pkgApp, "(*IPRequestLimiter).Inc")
	if inc != nil {
		e.ruleAtomicSection(r, "E2-ATOMIC", inc, "app.IPRequestLimiter")
		intervalRule(p, r, inc)
		limiterSurfaceRule(p, r, inc)
		noReopenRule(p, r, inc)
	}
}

// intervalRule: the interval restarts at the instant of the request that finds it elapsed, and only then:
// every store to ResetTime made while serving depends on the request's time, and the counters are replaced
// only under a test that depends on the request's time, the reset time and the interval length.
func intervalRule(p *Program, r *Reporter, inc *ssa.Function) {
	r.Rule("E4-RESTART", "a new interval starts at the request's time, and the counters restart only under the interval-elapsed test", 2)
	var nowPrm *ssa.Parameter
	for _, prm := range inc.Params {
		if strings.HasSuffix(prm.Type().String(), "time.Time") {
			nowPrm = prm
		}
	}
	if nowPrm == nil {
		r.Broken("Inc has no time parameter")
		return
	}
	nReset, nCounters := 0, 0
	for _, fn := range cluster(inc) {
		for _, b := range fn.Blocks {
			for _, in := range b.Instrs {
				st, ok := in.(*ssa.Store)
				if !ok {
					continue
				}
				f, ok := fieldOfAddr(st.Addr)
				if !ok {
					continue
				}
				switch f {
				case "app.IPRequestLimiter.ResetTime":
					nReset++
					r.Decide(localDependsOnParam(p, st.Val, nowPrm), "E4-RESTART", shortFn(fn), "store:ResetTime", p.pos(st.Pos()), "the new interval starts at the request's time",
						"the start of the new interval does not depend on the time of the request that restarts it: after a quiet period the reset time stays in the past and every request restarts the counters", nil)
				case "app.IPRequestLimiter.Counters":
					nCounters++
					okDep := false
					for _, cd := range effectiveCDeps(b, true) {
						if localDependsOnParam(p, cd.V, nowPrm) && valueDependsOnField(p, cd.V, "app.IPRequestLimiter.ResetTime") && valueDependsOnField(p, cd.V, "app.IPRequestLimiter.Interval") {
							okDep = true
						}
					}
					r.Decide(okDep, "E4-RESTART", shortFn(fn), "store:Counters", p.pos(st.Pos()), "counters are replaced only under a test of request time, reset time and interval",
						"the counters are replaced on a path that is not decided by a comparison of the request time with reset time + interval", nil)
				}
			}
		}
	}
	if nReset == 0 || nCounters == 0 {
		r.Broken("Inc: no store to ResetTime (%d) or Counters (%d) found", nReset, nCounters)
	}
}

// ruleAtomicSection: entry method m (with the same-type methods it calls) acquires
// the type's mutex at exactly one site, and that site dominates all accesses to
// guarded fields in m.
func (e *e2) ruleAtomicSection(r *Reporter, rule string, m *ssa.Function, tid string) {
	mutexes := e.mutexOf[tid]
	if len(mutexes) == 0 {
		r.Violate(rule, shortFn(m), "atomic-section", e.p.pos(m.Pos()), "type "+tid+" has no mutex", nil)
		return
	}
	// methods of the same type reachable from m (on this goroutine)
	seen := map[*ssa.Function]bool{m: true}
	q := []*ssa.Function{m}
	var lockSites []string
	for len(q) > 0 {
		fn := q[0]
		q = q[1:]
		for _, b := range fn.Blocks {
			for _, in := range b.Instrs {
				c, ok := in.(*ssa.Call)
				if !ok {
					continue
				}
				if id, op, ok := mutexIDOfCall(c); ok && (op == "Lock" || op == "RLock") {
					for _, mu := range mutexes {
						if id == mu {
							lockSites = append(lockSites, shortFn(fn)+" at "+e.p.pos(c.Pos()))
						}
					}
				}
				callee := c.Call.StaticCallee()
				if callee != nil && e.p.isRepoFunc(callee) && callee.Signature.Recv() != nil && !seen[callee] {
					if n := namedStructOf(callee.Signature.Recv().Type()); n != nil && typeID(n) == tid {
						seen[callee] = true
						q = append(q, callee)
					}
				}
			}
		}
	}
	nAcc := 0
	for _, a := range e.accesses {
		if seen[a.fn] && strings.HasPrefix(a.field, tid+".") {
			nAcc++
		}
	}
	ok := len(lockSites) == 1
	r.Decide(ok, rule, shortFn(m), "atomic-section:"+tid, e.p.pos(m.Pos()),
		fmt.Sprintf("one acquisition site (%s) covers all %d guarded accesses of %s and the methods it calls", strings.Join(lockSites, "; "), nAcc, shortFn(m)),
		fmt.Sprintf("%s and the limiter methods it calls acquire the mutex at %d sites (%s): check, reset and increment are not one atomic step", shortFn(m), len(lockSites), strings.Join(lockSites, "; ")), nil)
}
