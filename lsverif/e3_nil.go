package main

// E3 class D: nil dereference.
//   D1: dereference of the pointer result of a repository function that can
//       return nil, without a dominating nil test (or error test, when the
//       function returns nil only together with a non-nil error).
//   D2: contradiction rule: a pointer-typed field of a repository struct (or a
//       parameter fed from one) that is tested against nil somewhere is
//       dereferenced elsewhere without a dominating non-nil test, unless a
//       field non-nil fact holds.

import (
	"fmt"
	"os"
	"go/token"
	"go/types"
	"sort"
	"strings"

	"golang.org/x/tools/go/ssa"
)

type nilAnalysis struct {
	e            *e3
	nilable      map[string]string // field -> where it is nil-checked / stored nil
	nonNilFields map[string]string // field -> why it is never nil when observed by handlers
	mayNilRet    map[*ssa.Function]map[int]string
	paramMemo    map[*ssa.Parameter]string
}

// nonNilFieldSpec: pointer fields that handlers may dereference without a test.
type nonNilFieldSpec struct {
	field, ctor, reason string
}

var nonNilFieldTable = []nonNilFieldSpec{
	{"app.ResponseConfig.TimeShiftBufferDepthS", "NewResponseConfig", "set by the constructor; later stores are accumulated-error parser results, and a config is handed out only if the accumulated error is nil"},
	{"app.ResponseConfig.StartNr", "NewResponseConfig", "set by the constructor; later stores are accumulated-error parser results"},
}

func isPtrToNonIface(t types.Type) bool {
	_, ok := t.Underlying().(*types.Pointer)
	return ok
}

func newNilAnalysis(e *e3) *nilAnalysis {
	na := &nilAnalysis{e: e, nilable: map[string]string{}, nonNilFields: map[string]string{}, mayNilRet: map[*ssa.Function]map[int]string{}, paramMemo: map[*ssa.Parameter]string{}}
	p := e.p
	// 0. optional fields of library structs: the repository itself tests the field against nil somewhere AND
	//    creates values of the struct without setting it (so nil instances are produced by repository code,
	//    not only by an input document whose shape is validated at start-up)
	libTested := map[string]string{}
	libPartial := map[string]string{}
	for _, fn := range p.allRepoFuncs() {
		for _, b := range fn.Blocks {
			for _, in := range b.Instrs {
				switch x := in.(type) {
				case *ssa.BinOp:
					if x.Op != token.EQL && x.Op != token.NEQ {
						continue
					}
					var v ssa.Value
					if isNilConst(x.Y) {
						v = x.X
					} else if isNilConst(x.X) {
						v = x.Y
					}
					if v == nil || !isPtrToNonIface(v.Type()) {
						continue
					}
					if f, ok := loadedField(v); ok && !isRepoFieldName(f) {
						if _, dup := libTested[f]; !dup {
							libTested[f] = "tested against nil at " + p.pos(x.Pos())
						}
					}
				case *ssa.Alloc:
					pt, ok := x.Type().Underlying().(*types.Pointer)
					if !ok {
						continue
					}
					named, ok := pt.Elem().(*types.Named)
					if !ok || named.Obj().Pkg() == nil || strings.HasPrefix(named.Obj().Pkg().Path(), modPath) {
						continue
					}
					st, ok := named.Underlying().(*types.Struct)
					if !ok || x.Referrers() == nil {
						continue
					}
					stored := map[int]bool{}
					whole := false
					for _, ref := range *x.Referrers() {
						switch r := ref.(type) {
						case *ssa.FieldAddr:
							if r.Referrers() != nil {
								for _, rr := range *r.Referrers() {
									if s, ok := rr.(*ssa.Store); ok && s.Addr == r {
										stored[r.Field] = true
									}
								}
							}
						case *ssa.Store:
							if r.Addr == x {
								whole = true // a complete value is copied in
							}
						}
					}
					if whole {
						continue
					}
					for i := 0; i < st.NumFields(); i++ {
						if !stored[i] && isPtrToNonIface(st.Field(i).Type()) {
							f := structFieldOf(x.Type(), i)
							if _, dup := libPartial[f]; !dup {
								libPartial[f] = "a " + named.Obj().Name() + " is created without it at " + p.pos(x.Pos())
							}
						}
					}
				}
			}
		}
	}
	for f, t := range libTested {
		if c, ok := libPartial[f]; ok {
			na.nilable[f] = t + "; " + c
		}
	}
	// 1. fields compared with nil, or stored nil, anywhere in the repository
	for _, fn := range p.allRepoFuncs() {
		for _, b := range fn.Blocks {
			for _, in := range b.Instrs {
				switch x := in.(type) {
				case *ssa.BinOp:
					if x.Op != token.EQL && x.Op != token.NEQ {
						continue
					}
					var v ssa.Value
					if isNilConst(x.Y) {
						v = x.X
					} else if isNilConst(x.X) {
						v = x.Y
					}
					if v == nil || !isPtrToNonIface(v.Type()) {
						continue
					}
					if f, ok := loadedField(v); ok && isRepoFieldName(f) {
						if _, dup := na.nilable[f]; !dup {
							na.nilable[f] = "tested against nil at " + p.pos(x.Pos())
						}
					}
					// a parameter tested against nil: the fields it is fed from may be nil
					if prm, ok := v.(*ssa.Parameter); ok {
						na.markParamSources(prm, "a parameter fed from it is tested against nil at "+p.pos(x.Pos()), 0)
					}
				case *ssa.Store:
					if f, ok := fieldOfAddr(x.Addr); ok && isRepoFieldName(f) && isPtrToNonIface(x.Val.Type()) && isNilConst(x.Val) {
						if _, dup := na.nilable[f]; !dup {
							na.nilable[f] = "assigned nil at " + p.pos(x.Pos())
						}
					}
				}
			}
		}
	}
	// 2. functions that may return nil pointers
	for _, fn := range p.allRepoFuncs() {
		res := fn.Signature.Results()
		for i := 0; i < res.Len(); i++ {
			if !isPtrToNonIface(res.At(i).Type()) {
				continue
			}
			for _, b := range fn.Blocks {
				ret, ok := b.Instrs[len(b.Instrs)-1].(*ssa.Return)
				if !ok || i >= len(ret.Results) {
					continue
				}
				if isNilConst(ret.Results[i]) {
					// nil together with a non-nil error / a false ok-flag on this return? then callers that test it are fine
					withErr := factsOf(fn).errOnly[b]
					for j, other := range ret.Results {
						if j == i {
							continue
						}
						if c, ok := other.(*ssa.Const); ok && c.Value != nil && c.Value.String() == "false" {
							withErr = true
						}
					}
					if na.mayNilRet[fn] == nil {
						na.mayNilRet[fn] = map[int]string{}
					}
					kind := "plain"
					if withErr {
						kind = "witherr"
					}
					if prev, ok := na.mayNilRet[fn][i]; !ok || prev == "witherr" {
						na.mayNilRet[fn][i] = kind
					}
				}
			}
		}
	}
	// 3. non-nil facts
	for _, spec := range nonNilFieldTable {
		if ok, why := na.verifyNonNilField(spec); ok {
			na.nonNilFields[spec.field] = why
			fmt.Println("field fact:", spec.field, "non-nil:", why)
		} else {
			fmt.Println("field fact NOT established:", spec.field, "non-nil:", why)
		}
	}
	return na
}

func (na *nilAnalysis) markParamSources(prm *ssa.Parameter, why string, depth int) {
	if depth > 2 {
		return
	}
	fn := prm.Parent()
	idx := -1
	for i, q := range fn.Params {
		if q == prm {
			idx = i
		}
	}
	for _, s := range na.e.p.callersOf(fn) {
		if !na.e.p.isRepoFunc(s.Parent()) {
			continue
		}
		cc := s.Common()
		args := cc.Args
		if cc.IsInvoke() {
			args = append([]ssa.Value{cc.Value}, args...)
		}
		if idx < 0 || idx >= len(args) {
			continue
		}
		a := args[idx]
		if f, ok := loadedField(a); ok && isRepoFieldName(f) {
			if _, dup := na.nilable[f]; !dup {
				na.nilable[f] = why
			}
		}
		if p2, ok := a.(*ssa.Parameter); ok {
			na.markParamSources(p2, why, depth+1)
		}
	}
}

func isRepoFieldName(f string) bool {
	return strings.HasPrefix(f, "app.") || strings.HasPrefix(f, "recv.") || strings.HasPrefix(f, "drm.") ||
		strings.HasPrefix(f, "patch.") || strings.HasPrefix(f, "chunkparser.") || strings.HasPrefix(f, "scte35.") ||
		strings.HasPrefix(f, "logging.") || strings.HasPrefix(f, "cmaf.") || strings.HasPrefix(f, "internal.")
}

// verifyNonNilField: the constructor stores a non-nil value, and every other
// store to the field (repository-wide) stores the result of an
// accumulated-error parser (nil only when the accumulated error is set).
func (na *nilAnalysis) verifyNonNilField(spec nonNilFieldSpec) (bool, string) {
	p := na.e.p
	ctor := p.lookupFunc(pkgApp, spec.ctor)
	if ctor == nil {
		return false, "constructor " + spec.ctor + " not found"
	}
	if ok, why := verifyAccErrProtocol(p); !ok {
		return false, why
	}
	inCtor := 0
	for _, st := range fieldStores(p, spec.field) {
		if st.Parent() == ctor {
			inCtor++
			if isNilConst(st.Val) {
				return false, "constructor stores nil"
			}
			if c, ok := st.Val.(*ssa.Call); !ok || c.Call.StaticCallee() == nil || !strings.HasPrefix(c.Call.StaticCallee().Name(), "Ptr") {
				return false, "constructor stores a value that is not Ptr(...)"
			}
			continue
		}
		c, ok := st.Val.(*ssa.Call)
		if !ok || c.Call.StaticCallee() == nil {
			return false, "store at " + p.pos(st.Pos()) + " is not a parser result"
		}
		callee := c.Call.StaticCallee()
		if strings.HasPrefix(callee.Name(), "Ptr") {
			continue
		}
		if !na.accErrNilOnlyWithError(callee) {
			return false, "store at " + p.pos(st.Pos()) + ": " + shortFn(callee) + " may return nil without setting the accumulated error"
		}
		if st.Parent().Name() != "processURLCfg" {
			return false, "parser result stored outside processURLCfg at " + p.pos(st.Pos())
		}
	}
	if inCtor == 0 {
		return false, "constructor does not set the field"
	}
	// all configs handed to handlers come from the constructor
	return true, "constructor sets it; all other stores are accumulated-error parser results in processURLCfg"
}

// accErrNilOnlyWithError: every `return nil` of a strConvAccErr method happens
// with the accumulated error set (stored in the same block, or tested non-nil).
func (na *nilAnalysis) accErrNilOnlyWithError(fn *ssa.Function) bool {
	if fn.Signature.Recv() == nil || !strings.Contains(fn.Signature.Recv().Type().String(), "strConvAccErr") {
		return false
	}
	f := factsOf(fn)
	for _, b := range fn.Blocks {
		ret, ok := b.Instrs[len(b.Instrs)-1].(*ssa.Return)
		if !ok || len(ret.Results) != 1 || !isNilConst(ret.Results[0]) {
			continue
		}
		okRet := false
		for _, in := range b.Instrs {
			if st, ok := in.(*ssa.Store); ok {
				if fld, ok := fieldOfAddr(st.Addr); ok && fld == "app.strConvAccErr.err" && !isNilConst(st.Val) {
					okRet = true
				}
			}
		}
		for _, c := range f.dominatingConds(b) {
			if bo, ok := c.V.(*ssa.BinOp); ok {
				if fld, ok := loadedField(bo.X); ok && fld == "app.strConvAccErr.err" && isNilConst(bo.Y) {
					if (bo.Op == token.NEQ && c.Pos) || (bo.Op == token.EQL && !c.Pos) {
						okRet = true
					}
				}
			}
		}
		if !okRet {
			return false
		}
	}
	return true
}

// origin classifies why pointer value p may be nil: "" if no reason is known.
func (na *nilAnalysis) origin(p ssa.Value, depth int) string {
	if depth > 4 {
		return ""
	}
	switch x := p.(type) {
	case *ssa.UnOp:
		if x.Op == token.MUL {
			if f, ok := loadedField(x); ok {
				if _, nn := na.nonNilFields[f]; nn {
					return ""
				}
				if why, ok := na.nilable[f]; ok {
					return "field " + f + " (" + why + ")"
				}
			}
		}
	case *ssa.Parameter:
		if w, ok := na.paramMemo[x]; ok {
			return w
		}
		na.paramMemo[x] = ""
		fn := x.Parent()
		idx := -1
		for i, q := range fn.Params {
			if q == x {
				idx = i
			}
		}
		why := ""
		for _, s := range na.e.p.callersOf(fn) {
			if !na.e.p.isRepoFunc(s.Parent()) {
				continue
			}
			cc := s.Common()
			args := cc.Args
			if cc.IsInvoke() {
				args = append([]ssa.Value{cc.Value}, args...)
			}
			if idx < 0 || idx >= len(args) {
				continue
			}
			a := args[idx]
			if isNilConst(a) {
				why = "nil passed at " + na.e.p.pos(s.Pos())
				break
			}
			if w := na.origin(a, depth+1); w != "" {
				// the caller may have tested it before the call
				if ok, _ := na.provedNonNil(a, s.Block(), s); !ok {
					why = w + " passed at " + na.e.p.pos(s.Pos())
					break
				}
			}
		}
		na.paramMemo[x] = why
		return why
	case *ssa.Extract:
		if c, ok := x.Tuple.(*ssa.Call); ok {
			if callee := c.Call.StaticCallee(); callee != nil {
				if k, ok := na.mayNilRet[callee][x.Index]; ok {
					return "result of " + shortFn(callee) + " (returns nil, " + k + ")"
				}
			}
		}
	case *ssa.Call:
		if callee := x.Call.StaticCallee(); callee != nil {
			if k, ok := na.mayNilRet[callee][0]; ok {
				return "result of " + shortFn(callee) + " (returns nil, " + k + ")"
			}
		}
	case *ssa.Phi:
		for _, ed := range x.Edges {
			if w := na.origin(ed, depth+1); w != "" {
				return w
			}
		}
	}
	return ""
}

// provedNonNil: on every feasible path to `at` (instruction `use` in block at),
// p (or a key-equal value) was tested non-nil and not reassigned since.
func (na *nilAnalysis) provedNonNil(p ssa.Value, at *ssa.BasicBlock, use ssa.Instruction) (bool, string) {
	f := factsOf(at.Parent())
	key := exprKey(p)
	fld, isFld := loadedField(p)
	n := 0
	why := ""
	for _, set := range f.condSets(at) {
		if !na.e.rg.feasible(set, 0) {
			continue
		}
		n++
		set = append(append([]cond{}, set...), na.impliedConds(f, set)...)
		ok := false
		for _, c := range set {
			if na.condImpliesNonNil(c, p, key) {
				// a store to the same field between the test and the use invalidates a key-based match
				if isFld && c.V != nil && na.storeBetween(f, fld, c.At, at, use, p) {
					continue
				}
				ok = true
				why = "tested non-nil at " + na.e.p.pos(c.V.Pos())
				break
			}
		}
		// D1 with error convention: p = extract #i of call; sibling error extract tested nil
		if !ok {
			if ex, isEx := p.(*ssa.Extract); isEx {
				if call, isCall := ex.Tuple.(*ssa.Call); isCall {
					if callee := call.Call.StaticCallee(); callee != nil && na.mayNilRet[callee][ex.Index] == "witherr" {
						for _, c := range set {
							if bo, okb := c.V.(*ssa.BinOp); okb {
								if e2, ok2 := bo.X.(*ssa.Extract); ok2 && e2.Tuple == ex.Tuple && (isErrorType(e2.Type()) || isErrPointerResult(e2)) && isNilConst(bo.Y) {
									if (bo.Op == token.NEQ && !c.Pos) || (bo.Op == token.EQL && c.Pos) {
										ok = true
										why = "error of the same call tested nil at " + na.e.p.pos(bo.Pos())
									}
								}
							}
							// ok-flag of the same call tested true
							if e2, ok2 := c.V.(*ssa.Extract); ok2 && e2.Tuple == ex.Tuple && c.Pos {
								ok = true
								why = "ok flag of the same call tested at " + na.e.p.pos(e2.Pos())
							}
						}
					}
				}
			}
		}
		if !ok {
			return false, "no non-nil test on some path"
		}
	}
	if n == 0 {
		return true, "unreachable"
	}
	return true, why
}

// storeBetween: some store to the field can execute after the test in block
// `from` and before reaching `to`, on a path that does not re-evaluate the test.
func (na *nilAnalysis) storeBetween(f *funcFacts, fld string, from, to *ssa.BasicBlock, use ssa.Instruction, p ssa.Value) bool {
	// the object whose field was tested (when it is a local variable)
	var testedObj ssa.Value
	if u, ok := p.(*ssa.UnOp); ok {
		if fa, ok := u.X.(*ssa.FieldAddr); ok {
			testedObj = fa.X
		}
	}
	reach := func(a, b *ssa.BasicBlock) bool { // a ->* b avoiding `from`
		if a == b {
			return true
		}
		seen := map[*ssa.BasicBlock]bool{a: true, from: true}
		q := []*ssa.BasicBlock{a}
		for len(q) > 0 {
			x := q[0]
			q = q[1:]
			for _, s := range x.Succs {
				if s == b {
					return true
				}
				if !seen[s] {
					seen[s] = true
					q = append(q, s)
				}
			}
		}
		return false
	}
	for _, b := range f.fn.Blocks {
		if b == from {
			continue // stores in the test block precede the test (the If terminates the block)
		}
		for _, in := range b.Instrs {
			st, ok := in.(*ssa.Store)
			if !ok {
				continue
			}
			g, ok := fieldOfAddr(st.Addr)
			if !ok || g != fld {
				continue
			}
			// a store into a local variable of this function that is not the tested object cannot change the tested field
			if fa, ok := st.Addr.(*ssa.FieldAddr); ok {
				if al, isAlloc := fa.X.(*ssa.Alloc); isAlloc && testedObj != ssa.Value(al) {
					if _, testedIsAlloc := testedObj.(*ssa.Alloc); testedIsAlloc || !al.Heap || !escapesBeforeUse(al, st) {
						continue
					}
				}
			}
			// in the block of the use only the stores in front of the use matter (later ones are followed by the test again)
			if b == to && use != nil && instrIndex(st) > instrIndex(use) {
				continue
			}
			for _, s := range from.Succs {
				if s != from && reach(s, b) && reach(b, to) {
					return true
				}
			}
		}
	}
	return false
}

// condImpliesNonNil: c states that p is non-nil.
func (na *nilAnalysis) condImpliesNonNil(c cond, p ssa.Value, key string) bool {
	if c.V == nil {
		return false
	}
	switch x := c.V.(type) {
	case *ssa.BinOp:
		var v ssa.Value
		if isNilConst(x.Y) {
			v = x.X
		} else if isNilConst(x.X) {
			v = x.Y
		} else {
			return false
		}
		if !(v == p || (key != "" && key[0] != '@' && exprKey(v) == key)) {
			return false
		}
		return (x.Op == token.NEQ && c.Pos) || (x.Op == token.EQL && !c.Pos)
	case *ssa.Call:
		// bool function that returns a constant when its pointer argument is nil:
		// the opposite result implies the argument is non-nil
		callee := x.Call.StaticCallee()
		if callee == nil || !na.e.p.isRepoFunc(callee) {
			return false
		}
		for i, a := range x.Call.Args {
			if !(a == p || (key != "" && key[0] != '@' && exprKey(a) == key)) {
				continue
			}
			if k, ok := nilArgReturns(callee, i); ok && k != c.Pos {
				return true
			}
		}
	case *ssa.UnOp:
		if x.Op == token.NOT {
			return na.condImpliesNonNil(cond{V: x.X, Pos: !c.Pos, At: c.At}, p, key)
		}
	}
	return false
}

// nilArgReturns: callee starts with `if param == nil { return K }` (K bool const).
func nilArgReturns(fn *ssa.Function, idx int) (bool, bool) {
	if idx >= len(fn.Params) || len(fn.Blocks) == 0 {
		return false, false
	}
	b0 := fn.Blocks[0]
	ifi, ok := b0.Instrs[len(b0.Instrs)-1].(*ssa.If)
	if !ok {
		return false, false
	}
	bo, ok := ifi.Cond.(*ssa.BinOp)
	if !ok || bo.X != fn.Params[idx] || !isNilConst(bo.Y) {
		return false, false
	}
	var nilSucc *ssa.BasicBlock
	switch bo.Op {
	case token.EQL:
		nilSucc = b0.Succs[0]
	case token.NEQ:
		nilSucc = b0.Succs[1]
	default:
		return false, false
	}
	ret, ok := nilSucc.Instrs[len(nilSucc.Instrs)-1].(*ssa.Return)
	if !ok || len(ret.Results) != 1 {
		return false, false
	}
	c, ok := ret.Results[0].(*ssa.Const)
	if !ok || c.Value == nil {
		return false, false
	}
	return c.Value.String() == "true", true
}

// impliedConds: a bool flag that is a phi of constants implies the conditions
// that dominate every predecessor assigning the matching constant.
func (na *nilAnalysis) impliedConds(f *funcFacts, set []cond) []cond {
	var out []cond
	for _, c := range set {
		ph, ok := c.V.(*ssa.Phi)
		if !ok {
			continue
		}
		var common map[string]cond
		for i, ed := range ph.Edges {
			cst, ok := ed.(*ssa.Const)
			if !ok {
				// non-constant edge (nested phi / computed): cannot conclude anything
				common = map[string]cond{}
				break
			}
			if (cst.Value.String() == "true") != c.Pos {
				continue
			}
			pred := ph.Block().Preds[i]
			here := map[string]cond{}
			for _, d := range f.dominatingConds(pred) {
				here[exprKey(d.V)+fmt.Sprint(d.Pos)] = d
			}
			if ec, ok := edgeCond(pred, ph.Block()); ok {
				here[exprKey(ec.V)+fmt.Sprint(ec.Pos)] = ec
			}
			if common == nil {
				common = here
			} else {
				for k := range common {
					if _, ok := here[k]; !ok {
						delete(common, k)
					}
				}
			}
		}
		var keys []string
		for k := range common {
			keys = append(keys, k)
		}
		sort.Strings(keys)
		for _, k := range keys {
			out = append(out, common[k])
		}
	}
	return out
}

func (e *e3) classD(rule string, fns []*ssa.Function) {
	na := newNilAnalysis(e)
	for _, fn := range fns {
		seen := map[string]bool{}
		for _, b := range fn.Blocks {
			for _, in := range b.Instrs {
				var p ssa.Value
				switch x := in.(type) {
				case *ssa.UnOp:
					if x.Op == token.MUL {
						p = x.X
					}
				case *ssa.Store:
					p = x.Addr
				case *ssa.FieldAddr:
					p = x.X
				case *ssa.IndexAddr:
					if _, ok := x.X.Type().Underlying().(*types.Pointer); ok {
						p = x.X
					}
				}
				if p == nil || !isPtrToNonIface(p.Type()) {
					continue
				}
				switch p.(type) {
				case *ssa.Alloc, *ssa.FieldAddr, *ssa.IndexAddr, *ssa.Global, *ssa.FreeVar, *ssa.MakeInterface:
					continue // address computations are never nil
				}
				why := na.origin(p, 0)
				if why == "" {
					continue
				}
				role := roleKey(p)
				if pr, ok := p.(*ssa.Parameter); ok {
					role = "param(" + pr.Name() + ")"
				}
				construct := "deref:" + role
				// one obligation per pointer value and block is enough
				k := fmt.Sprintf("%s@%d", exprKey(p), b.Index)
				if seen[k] {
					continue
				}
				seen[k] = true
				ok, how := na.provedNonNil(p, b, in)
				if os.Getenv("LSVERIF_DEBUG") != "" && strings.Contains(fn.String(), os.Getenv("LSVERIF_DEBUG")) {
					fmt.Printf("DEBUG classD %s block %d instr %s p=%s ok=%v how=%s sets=%d\n", fn.Name(), b.Index, in.String(), p.Name(), ok, how, len(factsOf(fn).condSets(b)))
					for _, set := range factsOf(fn).condSets(b) {
						for _, c := range set {
							fmt.Printf("   cond %s pos=%v at b%d\n", c.V.String(), c.Pos, c.At.Index)
						}
						fmt.Println("   -- feasible:", na.e.rg.feasible(set, 0))
					}
				}
				sub := "2"
				if strings.HasPrefix(why, "result of") {
					sub = "1"
				}
				if !ok {
					if reason, isEx := reviewedException(rule+sub, shortFn(fn), construct); isEx {
						e.r.Exception(rule+sub, shortFn(fn), construct, e.p.pos(instrPos(in)), reason)
						continue
					}
				}
				e.r.Decide(ok, rule+sub, shortFn(fn), construct, e.p.pos(instrPos(in)), how,
					"pointer that may be nil is dereferenced without a dominating non-nil test: "+why, e.p.callPath(fn))
			}
		}
	}
}

// escapesBeforeUse: conservative: a heap-allocated local counts as possibly aliased as soon as its address
// is stored, passed to a call or returned anywhere in the function.
func escapesBeforeUse(al *ssa.Alloc, _ ssa.Instruction) bool {
	if al.Referrers() == nil {
		return false
	}
	for _, ref := range *al.Referrers() {
		switch r := ref.(type) {
		case *ssa.FieldAddr, *ssa.IndexAddr:
		case *ssa.UnOp:
		case *ssa.Store:
			if r.Val == ssa.Value(al) {
				return true
			}
		default:
			return true
		}
	}
	return false
}
