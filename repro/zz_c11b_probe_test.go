package app

import (
	"context"
	"net/http/httptest"
	"strings"
	"testing"

	"github.com/Dash-Industry-Forum/livesim2/pkg/logging"
)

// A patch request without publishTime must get exactly one answer (400 with its message).
func TestProbeC11PatchWithoutPublishTime(t *testing.T) {
	cfg := ServerConfig{VodRoot: "testdata/assets", TimeoutS: 0, LogFormat: logging.LogDiscard}
	_ = logging.InitSlog(cfg.LogLevel, cfg.LogFormat)
	s, err := SetupServer(context.Background(), &cfg)
	if err != nil {
		t.Fatal(err)
	}
	w := httptest.NewRecorder()
	s.patchHandlerFunc(w, httptest.NewRequest("GET", "/patch/livesim2/patch_60/testpic_2s/Manifest.mpp?nowMS=100000", nil))
	body := w.Body.String()
	t.Logf("status %d body %q", w.Code, body)
	if w.Code != 400 || strings.Count(body, "\n") != 1 {
		t.Fatalf("status %d, body %q: expected a single 400 answer", w.Code, body)
	}
}
