package main

// E5: error discipline rules.

import (
	"fmt"
	"go/token"
	"go/types"
	"strings"

	"golang.org/x/tools/go/ssa"
)

// errorValuesOfCall returns the error-typed values produced by a call
// (the call itself, or the Extracts of its tuple result).
func errorValuesOfCall(c *ssa.Call) []ssa.Value {
	var out []ssa.Value
	if isErrorType(c.Type()) {
		out = append(out, c)
		return out
	}
	if tup, ok := c.Type().(*types.Tuple); ok {
		for i := 0; i < tup.Len(); i++ {
			if !isErrorType(tup.At(i).Type()) {
				continue
			}
			found := false
			for _, ref := range *c.Referrers() {
				if ex, ok := ref.(*ssa.Extract); ok && ex.Index == i {
					out = append(out, ex)
					found = true
				}
			}
			if !found {
				out = append(out, nil) // error component never extracted
			}
		}
	}
	return out
}

func isGlobalLoad(v ssa.Value, name string) bool {
	u, ok := v.(*ssa.UnOp)
	if !ok || u.Op != token.MUL {
		return false
	}
	g, ok := u.X.(*ssa.Global)
	return ok && g.String() == name
}

// nilTest: is `c` a comparison of e with nil? returns (isTest, trueMeansNonNil).
func nilTest(c ssa.Value, e ssa.Value) (bool, bool) {
	bo, ok := c.(*ssa.BinOp)
	if !ok || (bo.Op != token.NEQ && bo.Op != token.EQL) {
		return false, false
	}
	if (bo.X == e && isNilConst(bo.Y)) || (bo.Y == e && isNilConst(bo.X)) {
		return true, bo.Op == token.NEQ
	}
	return false, false
}

// eofTest: comparison of e with io.EOF. returns (isTest, trueMeansEOF).
func eofTest(c ssa.Value, e ssa.Value) (bool, bool) {
	bo, ok := c.(*ssa.BinOp)
	if !ok || (bo.Op != token.NEQ && bo.Op != token.EQL) {
		return false, false
	}
	if (bo.X == e && isGlobalLoad(bo.Y, "io.EOF")) || (bo.Y == e && isGlobalLoad(bo.X, "io.EOF")) {
		return true, bo.Op == token.EQL
	}
	return false, false
}

// errorReturnedWhenNonNil decides whether error value e is returned on every
// path on which it is non-nil, except paths on which it equals io.EOF.
// Path enumeration from the definition of e: at a nil test only the non-nil
// side carries the obligation, at an io.EOF test only the non-EOF side; every
// other path must reach a return that returns e itself (phis are resolved by
// the predecessor taken) or a panic. Re-entering a block already on the path
// (a loop iteration) without having returned e drops the error.
// strictErrorIdentity: set while a rule needs the very error (or a %w wrap of it) to be returned.
var strictErrorIdentity bool

func errorReturnedWhenNonNil(e ssa.Value) (bool, string) { return errorReturnedWhenNonNilF(e, nil) }

// errorReturnedWhenNonNilF: flag (optional) is a bool known to be true whenever e is non-nil; its false side is exempt.
func errorReturnedWhenNonNilF(e ssa.Value, flag ssa.Value) (bool, string) {
	def, ok := e.(ssa.Instruction)
	if !ok {
		return false, "error value is not defined by an instruction"
	}
	if e.Referrers() == nil || len(*e.Referrers()) == 0 {
		return false, "error value is never used"
	}
	start := def.Block()
	paths := 0
	var path []*ssa.BasicBlock
	onPath := map[*ssa.BasicBlock]bool{}
	// resolves v along the current path: does it denote e?
	var denotes func(v ssa.Value, upto int) bool
	denotes = func(v ssa.Value, upto int) bool {
		if v == e {
			return true
		}
		switch x := v.(type) {
		case *ssa.Phi:
			// find the phi's block on the path and the predecessor before it
			for i := upto; i >= 1; i-- {
				if path[i] == x.Block() {
					pred := path[i-1]
					for k, pb := range x.Block().Preds {
						if pb == pred {
							return denotes(x.Edges[k], i-1)
						}
					}
				}
			}
		case *ssa.ChangeInterface:
			return denotes(x.X, upto)
		case *ssa.UnOp:
			// result spilled to a local because of defers: the last store on the path
			al, ok := x.X.(*ssa.Alloc)
			if !ok || x.Op != token.MUL {
				return false
			}
			for i := upto; i >= 0; i-- {
				instrs := path[i].Instrs
				start := len(instrs) - 1
				if path[i] == x.Block() && i == upto {
					start = instrIndex(x) - 1
				}
				for k := start; k >= 0; k-- {
					if st, ok := instrs[k].(*ssa.Store); ok && st.Addr == ssa.Value(al) {
						return denotes(st.Val, i)
					}
				}
			}
		case *ssa.Call:
			// fmt.Errorf("...%w", e): wrapping returns the error
			if callee := x.Call.StaticCallee(); callee != nil && callee.String() == "fmt.Errorf" {
				return wrapsValueP(x, func(v ssa.Value) bool { return denotes(v, upto) })
			}
		}
		return false
	}
	var fail string
	var walk func(b *ssa.BasicBlock, fromIdx int)
	walk = func(b *ssa.BasicBlock, fromIdx int) {
		if fail != "" || paths > 4000 {
			return
		}
		if onPath[b] {
			fail = fmt.Sprintf("a path on which the error is non-nil re-enters block %d (next loop iteration) without returning it", b.Index)
			return
		}
		onPath[b] = true
		path = append(path, b)
		defer func() { delete(onPath, b); path = path[:len(path)-1] }()
		last := b.Instrs[len(b.Instrs)-1]
		switch x := last.(type) {
		case *ssa.Return:
			paths++
			for _, r := range x.Results {
				if denotes(r, len(path)-1) {
					return
				}
			}
			// the failure is reported under another name: a sentinel or a freshly made error is returned instead
			// (not accepted where the identity of the error matters: sentinel propagation)
			for _, r := range x.Results {
				if strictErrorIdentity {
					break
				}
				if (isErrorType(r.Type()) || isErrPointerResult(r)) && !isNilConst(r) && definitelyNonNilError(r, b) {
					return
				}
			}
			fail = fmt.Sprintf("return in block %d does not return the error", b.Index)
			return
		case *ssa.Panic:
			paths++
			return
		case *ssa.If:
			cv := x.Cond
			if flag != nil {
				if cv == flag {
					walk(b.Succs[0], 0)
					return
				}
				if u, ok := cv.(*ssa.UnOp); ok && u.Op == token.NOT && u.X == flag {
					walk(b.Succs[1], 0)
					return
				}
			}
			if is, nonNilOnTrue := nilTestD(cv, e, denotes, len(path)-1); is {
				if nonNilOnTrue {
					walk(b.Succs[0], 0)
				} else {
					walk(b.Succs[1], 0)
				}
				return
			}
			if is, eofOnTrue := eofTestD(cv, e, denotes, len(path)-1); is {
				if eofOnTrue {
					walk(b.Succs[1], 0)
				} else {
					walk(b.Succs[0], 0)
				}
				return
			}
		}
		if len(b.Succs) == 0 {
			paths++
			fail = fmt.Sprintf("block %d ends without returning the error", b.Index)
			return
		}
		for _, s := range b.Succs {
			walk(s, 0)
		}
	}
	walk(start, 0)
	if fail != "" {
		return false, fail
	}
	if paths > 4000 {
		return false, "too many paths to decide"
	}
	return true, fmt.Sprintf("returned on all %d paths on which it may be non-nil (io.EOF side exempt)", paths)
}

func nilTestD(c ssa.Value, e ssa.Value, denotes func(ssa.Value, int) bool, upto int) (bool, bool) {
	bo, ok := c.(*ssa.BinOp)
	if !ok || (bo.Op != token.NEQ && bo.Op != token.EQL) {
		return false, false
	}
	if (denotes(bo.X, upto) && isNilConst(bo.Y)) || (denotes(bo.Y, upto) && isNilConst(bo.X)) {
		return true, bo.Op == token.NEQ
	}
	return false, false
}

func eofTestD(c ssa.Value, e ssa.Value, denotes func(ssa.Value, int) bool, upto int) (bool, bool) {
	bo, ok := c.(*ssa.BinOp)
	if !ok || (bo.Op != token.NEQ && bo.Op != token.EQL) {
		return false, false
	}
	if (denotes(bo.X, upto) && isGlobalLoad(bo.Y, "io.EOF")) || (denotes(bo.Y, upto) && isGlobalLoad(bo.X, "io.EOF")) {
		return true, bo.Op == token.EQL
	}
	return false, false
}

// wrapsValue: fmt.Errorf call whose format wraps (%w) the given value.
func wrapsValue(c *ssa.Call, e ssa.Value) bool {
	return wrapsValueP(c, func(v ssa.Value) bool { return v == e })
}

func wrapsValueP(c *ssa.Call, is func(ssa.Value) bool) bool {
	if len(c.Call.Args) < 2 {
		return false
	}
	format, ok := constString(c.Call.Args[0])
	if !ok || !strings.Contains(format, "%w") {
		return false
	}
	// variadic slice: find stores of e (boxed) into the backing array
	sl, ok := c.Call.Args[1].(*ssa.Slice)
	if !ok {
		return false
	}
	arr, ok := sl.X.(*ssa.Alloc)
	if !ok || arr.Referrers() == nil {
		return false
	}
	for _, ref := range *arr.Referrers() {
		ia, ok := ref.(*ssa.IndexAddr)
		if !ok || ia.Referrers() == nil {
			continue
		}
		for _, r2 := range *ia.Referrers() {
			if st, ok := r2.(*ssa.Store); ok {
				v := st.Val
				if ci, ok := v.(*ssa.ChangeInterface); ok {
					v = ci.X
				}
				if mi, ok := v.(*ssa.MakeInterface); ok {
					v = mi.X
				}
				if is(v) {
					return true
				}
			}
		}
	}
	return false
}

// ruleErrorsReturned applies the rule to every error-producing call in fns that
// satisfies filter (nil = all calls).
func ruleErrorsReturned(p *Program, r *Reporter, rule string, fns []*ssa.Function, filter func(c *ssa.Call) (string, bool)) {
	for _, fn := range fns {
		for _, b := range fn.Blocks {
			for _, in := range b.Instrs {
				c, ok := in.(*ssa.Call)
				if !ok {
					continue
				}
				evs := errorValuesOfCall(c)
				if len(evs) == 0 {
					continue
				}
				name := calleeName(c)
				if filter != nil {
					n, ok := filter(c)
					if !ok {
						continue
					}
					name = n
				}
				for _, e := range evs {
					construct := "err<-" + name
					if e == nil {
						r.Violate(rule, shortFn(fn), construct, p.pos(instrPos(c)), "error result of "+name+" is discarded", nil)
						continue
					}
					ok, why := errorReturnedWhenNonNil(e)
					r.Decide(ok, rule, shortFn(fn), construct, p.pos(instrPos(c)), why, "error from "+name+" can be dropped: "+why, nil)
				}
			}
		}
	}
}

func calleeName(c ssa.CallInstruction) string {
	cc := c.Common()
	if cc.IsInvoke() {
		return "(" + types.TypeString(cc.Value.Type(), shortQual) + ")." + cc.Method.Name()
	}
	if f := cc.StaticCallee(); f != nil {
		return shortFn(f)
	}
	if b, ok := cc.Value.(*ssa.Builtin); ok {
		return b.Name()
	}
	// dynamic call through a func value: describe the access path
	k := exprKey(cc.Value)
	return "dyn:" + strings.TrimPrefix(k, "*")
}

func shortQual(p *types.Package) string { return shortPkg(p.Path()) }
