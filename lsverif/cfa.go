package main

// E1: intra-procedural control-flow facts on go/ssa functions:
// post-dominators, control dependence (optionally modulo error exits),
// dominating branch conditions, reachability between instructions.

import (
	"go/constant"
	"go/token"
	"go/types"

	"golang.org/x/tools/go/ssa"
)

// cond is a branch condition with polarity that holds at some program point.
type cond struct {
	V   ssa.Value
	Pos bool // true: V holds; false: !V holds
	At  *ssa.BasicBlock
}

type funcFacts struct {
	fn        *ssa.Function
	errOnly   map[*ssa.BasicBlock]bool // blocks from which only error returns / panics are reachable
	ipdom     map[*ssa.BasicBlock]*ssa.BasicBlock
	ipdomErr  map[*ssa.BasicBlock]*ssa.BasicBlock // with error-only blocks pruned
	cdeps     map[*ssa.BasicBlock][]cond
	cdepsErr  map[*ssa.BasicBlock][]cond
	domConds  map[*ssa.BasicBlock][]cond
	reachMemo map[[2]*ssa.BasicBlock]bool
	csMemo    map[*ssa.BasicBlock][]condSetP
}

var factsCache = map[*ssa.Function]*funcFacts{}

func factsOf(fn *ssa.Function) *funcFacts {
	if f, ok := factsCache[fn]; ok {
		return f
	}
	f := &funcFacts{fn: fn, domConds: map[*ssa.BasicBlock][]cond{}, reachMemo: map[[2]*ssa.BasicBlock]bool{}}
	factsCache[fn] = f
	f.computeErrOnly()
	f.ipdom = f.postDominators(nil)
	f.ipdomErr = f.postDominators(f.errOnly)
	f.cdeps = f.controlDeps(f.ipdom, nil)
	f.cdepsErr = f.controlDeps(f.ipdomErr, f.errOnly)
	return f
}

func isNilConst(v ssa.Value) bool {
	c, ok := v.(*ssa.Const)
	return ok && c.Value == nil && c.IsNil()
}

var errorType = types.Universe.Lookup("error").Type()

func isErrorType(t types.Type) bool {
	return types.Identical(t, errorType)
}

// isErrorExit reports whether a block ends in a return whose error result is
// syntactically non-nil, or in a panic.
func isErrorExit(b *ssa.BasicBlock) bool {
	if len(b.Instrs) == 0 {
		return false
	}
	switch x := b.Instrs[len(b.Instrs)-1].(type) {
	case *ssa.Panic:
		return true
	case *ssa.Return:
		for _, r := range x.Results {
			if isErrorType(r.Type()) || isErrPointerResult(r) {
				if !isNilConst(r) && !mayBeNilValue(r) {
					return true
				}
			}
		}
	}
	return false
}

// isErrPointerResult: *errorWithHttpType style error results.
func isErrPointerResult(v ssa.Value) bool {
	pt, ok := v.Type().(*types.Pointer)
	if !ok {
		return false
	}
	n, ok := pt.Elem().(*types.Named)
	if !ok {
		return false
	}
	ms := types.NewMethodSet(pt)
	_ = n
	for i := 0; i < ms.Len(); i++ {
		if ms.At(i).Obj().Name() == "Error" {
			return true
		}
	}
	return false
}

// mayBeNilValue: conservative: a value that is not a nil constant may still be
// nil at run time (an `err` variable). We treat results produced by calls,
// allocations and MakeInterface as non-nil, loads/phis/params as maybe-nil
// unless dominated by a non-nil test (handled by the callers that need it).
func mayBeNilValue(v ssa.Value) bool {
	switch x := v.(type) {
	case *ssa.MakeInterface, *ssa.Alloc:
		return false
	case *ssa.Call:
		// fmt.Errorf, errors.New, constructors: non-nil by convention for error values
		if callee := x.Call.StaticCallee(); callee != nil {
			n := callee.String()
			if n == "fmt.Errorf" || n == "errors.New" {
				return false
			}
			if neverReturnsNil(callee, 0) {
				return false
			}
		}
		return true
	case *ssa.Phi:
		for _, e := range x.Edges {
			if isNilConst(e) || mayBeNilValue(e) {
				return true
			}
		}
		return false
	case *ssa.UnOp:
		// package-level sentinel error (var errX = errors.New(...)) stored once, in init
		if g, ok := x.X.(*ssa.Global); ok && x.Op == token.MUL && sentinelGlobal(g) {
			return false
		}
		return true
	case *ssa.Extract, *ssa.Parameter, *ssa.FreeVar:
		// an error value tested with `err != nil` before the return: check the
		// dominating conditions of the defining use in isErrorExitAt
		return true
	}
	return true
}

func (f *funcFacts) computeErrOnly() {
	// a block is error-only if every path from it ends in an error exit.
	// "return X, err" where err is dominated by `err != nil` counts as error exit.
	fn := f.fn
	exitKind := map[*ssa.BasicBlock]int{} // 0 none, 1 error exit, 2 normal exit
	for _, b := range fn.Blocks {
		if len(b.Instrs) == 0 {
			continue
		}
		switch x := b.Instrs[len(b.Instrs)-1].(type) {
		case *ssa.Panic:
			exitKind[b] = 1
		case *ssa.Return:
			exitKind[b] = 2
			for _, r := range x.Results {
				if !(isErrorType(r.Type()) || isErrPointerResult(r)) {
					continue
				}
				if isNilConst(r) {
					continue
				}
				if !mayBeNilValue(r) || f.provedNonNil(r, b) {
					exitKind[b] = 1
				}
			}
		}
	}
	// greatest fixpoint: errOnly(b) = exit? kind==1 : all succs errOnly
	eo := map[*ssa.BasicBlock]bool{}
	for _, b := range fn.Blocks {
		eo[b] = true
	}
	changed := true
	for changed {
		changed = false
		for _, b := range fn.Blocks {
			if !eo[b] {
				continue
			}
			v := true
			if k := exitKind[b]; k != 0 {
				v = k == 1
			} else if len(b.Succs) == 0 {
				v = false
			} else {
				for _, s := range b.Succs {
					if !eo[s] {
						v = false
					}
				}
			}
			if !v {
				eo[b] = false
				changed = true
			}
		}
	}
	f.errOnly = eo
}

// provedNonNil: v (an error-typed value) is dominated at block b by a test v != nil.
func (f *funcFacts) provedNonNil(v ssa.Value, b *ssa.BasicBlock) bool {
	for _, c := range f.dominatingConds(b) {
		bo, ok := c.V.(*ssa.BinOp)
		if !ok {
			continue
		}
		var other ssa.Value
		if sameValue(bo.X, v) {
			other = bo.Y
		} else if sameValue(bo.Y, v) {
			other = bo.X
		} else {
			continue
		}
		if !isNilConst(other) {
			continue
		}
		if (bo.Op == token.NEQ && c.Pos) || (bo.Op == token.EQL && !c.Pos) {
			return true
		}
	}
	return false
}

func sameValue(a, b ssa.Value) bool {
	if a == b {
		return true
	}
	// a parameter of a helper and the argument bound to it in the other value's function
	if pa, ok := a.(*ssa.Parameter); ok {
		if in, ok := b.(ssa.Instruction); ok && in.Parent() != pa.Parent() {
			if arg := boundArgument(pa, in.Parent()); arg != nil && arg != a {
				return sameValue(arg, b)
			}
		}
	}
	if pb, ok := b.(*ssa.Parameter); ok {
		if in, ok := a.(ssa.Instruction); ok && in.Parent() != pb.Parent() {
			if arg := boundArgument(pb, in.Parent()); arg != nil && arg != b {
				return sameValue(a, arg)
			}
		}
	}
	// a result of a helper call and the value the helper returns at that position on every successful return
	if resultBinding(a, b) || resultBinding(b, a) {
		return true
	}
	ka, kb := exprKey(a), exprKey(b)
	return ka != "" && ka == kb
}

// resultBinding: outer is result #i of a static call to helper h, inner is a value of h that h returns as
// result #i on each of its non-error returns.
func resultBinding(outer, inner ssa.Value) bool {
	var call *ssa.Call
	idx := 0
	switch x := outer.(type) {
	case *ssa.Call:
		call = x
	case *ssa.Extract:
		c, ok := x.Tuple.(*ssa.Call)
		if !ok {
			return false
		}
		call, idx = c, x.Index
	default:
		return false
	}
	h := call.Call.StaticCallee()
	if h == nil || len(h.Blocks) == 0 {
		return false
	}
	in, ok := inner.(ssa.Instruction)
	if !ok || in.Parent() != h {
		return false
	}
	n := 0
	for _, b := range h.Blocks {
		ret, ok := b.Instrs[len(b.Instrs)-1].(*ssa.Return)
		if !ok || idx >= len(ret.Results) {
			continue
		}
		if isErrorExit(b) {
			continue
		}
		n++
		if ret.Results[idx] != inner {
			return false
		}
	}
	return n > 0
}

// postDominators computes immediate post-dominators with a virtual exit.
// Blocks in `pruned` are treated as absent (edges into them ignored).
func (f *funcFacts) postDominators(pruned map[*ssa.BasicBlock]bool) map[*ssa.BasicBlock]*ssa.BasicBlock {
	fn := f.fn
	n := len(fn.Blocks)
	// pdom sets as bitsets over block indices; index n = virtual exit
	type set []uint64
	words := (n + 1 + 63) / 64
	full := func() set {
		s := make(set, words)
		for i := range s {
			s[i] = ^uint64(0)
		}
		return s
	}
	has := func(s set, i int) bool { return s[i/64]&(1<<(uint(i)%64)) != 0 }
	pd := make([]set, n+1)
	for i := 0; i <= n; i++ {
		pd[i] = full()
	}
	exit := make(set, words)
	exit[n/64] |= 1 << (uint(n) % 64)
	pd[n] = exit
	succs := func(b *ssa.BasicBlock) []int {
		var out []int
		for _, s := range b.Succs {
			if pruned != nil && pruned[s] {
				continue
			}
			out = append(out, s.Index)
		}
		if len(out) == 0 {
			out = append(out, n) // exits (and blocks whose succs are all pruned) go to virtual exit
		}
		return out
	}
	changed := true
	for changed {
		changed = false
		for i := n - 1; i >= 0; i-- {
			b := fn.Blocks[i]
			if pruned != nil && pruned[b] {
				continue
			}
			nw := full()
			for _, s := range succs(b) {
				for w := range nw {
					nw[w] &= pd[s][w]
				}
			}
			nw[i/64] |= 1 << (uint(i) % 64)
			same := true
			for w := range nw {
				if nw[w] != pd[i][w] {
					same = false
				}
			}
			if !same {
				pd[i] = nw
				changed = true
			}
		}
	}
	// immediate post-dominator: the strict post-dominator that is post-dominated by all other strict pdoms
	ip := map[*ssa.BasicBlock]*ssa.BasicBlock{}
	for i := 0; i < n; i++ {
		b := fn.Blocks[i]
		if pruned != nil && pruned[b] {
			continue
		}
		var best = -1
		for j := 0; j < n; j++ {
			if j == i || !has(pd[i], j) {
				continue
			}
			// j strictly postdominates i; choose j whose pdom set is largest (closest)
			if best == -1 || has(pd[j], best) {
				best = j
			}
		}
		if best >= 0 {
			ip[b] = fn.Blocks[best]
		} else {
			ip[b] = nil // virtual exit
		}
	}
	return ip
}

// controlDeps: block X is control dependent on edge (A -> S) if X post-dominates S
// (or X == S) and X does not strictly post-dominate A.
func (f *funcFacts) controlDeps(ipdom map[*ssa.BasicBlock]*ssa.BasicBlock, pruned map[*ssa.BasicBlock]bool) map[*ssa.BasicBlock][]cond {
	out := map[*ssa.BasicBlock][]cond{}
	for _, a := range f.fn.Blocks {
		if pruned != nil && pruned[a] {
			continue
		}
		ifi, ok := a.Instrs[len(a.Instrs)-1].(*ssa.If)
		if !ok {
			continue
		}
		live := 0
		for _, s := range a.Succs {
			if pruned == nil || !pruned[s] {
				live++
			}
		}
		if live < 2 {
			continue // the branch is not a decision modulo error exits
		}
		stop := ipdom[a]
		for si, s := range a.Succs {
			if pruned != nil && pruned[s] {
				continue
			}
			for x := s; x != nil && x != stop; x = ipdom[x] {
				out[x] = append(out[x], cond{V: ifi.Cond, Pos: si == 0, At: a})
				if x == a {
					break
				}
			}
		}
	}
	return out
}

// transitiveCDeps returns all conditions a block is (transitively) control dependent on.
func (f *funcFacts) transitiveCDeps(b *ssa.BasicBlock, moduloErr bool) []cond {
	cd := f.cdeps
	if moduloErr {
		cd = f.cdepsErr
	}
	seen := map[*ssa.BasicBlock]bool{}
	var out []cond
	var walk func(x *ssa.BasicBlock)
	walk = func(x *ssa.BasicBlock) {
		if seen[x] {
			return
		}
		seen[x] = true
		for _, c := range cd[x] {
			out = append(out, c)
			walk(c.At)
		}
	}
	walk(b)
	return out
}

// dominatingConds returns the branch conditions known to hold on entry to b
// because a dominating If's edge dominates b.
func (f *funcFacts) baseDominatingConds(b *ssa.BasicBlock) []cond {
	if c, ok := f.domConds[b]; ok {
		return c
	}
	var out []cond
	for d := b; d != nil; d = d.Idom() {
		id := d.Idom()
		if id == nil {
			break
		}
		// d is dominated by id; find whether d is reached only through one edge of an If in a dominator
		_ = id
	}
	// walk every dominator D ending in If; edge D->S dominates b if S dominates b and S's only pred is D
	for d := b.Idom(); d != nil; d = d.Idom() {
		ifi, ok := d.Instrs[len(d.Instrs)-1].(*ssa.If)
		if !ok {
			continue
		}
		for si, s := range d.Succs {
			if len(s.Preds) == 1 && s.Dominates(b) {
				out = append(out, cond{V: ifi.Cond, Pos: si == 0, At: d})
			}
		}
	}
	f.domConds[b] = out
	return out
}

// condsAt returns the dominating conditions at an instruction.
func condsAt(in ssa.Instruction) []cond {
	return factsOf(in.Parent()).dominatingConds(in.Block())
}

// blockReaches reports whether there is a CFG path from a to b (a != b requires ≥1 edge; a==b true).
func (f *funcFacts) blockReaches(a, b *ssa.BasicBlock) bool {
	if a == b {
		return true
	}
	k := [2]*ssa.BasicBlock{a, b}
	if v, ok := f.reachMemo[k]; ok {
		return v
	}
	seen := map[*ssa.BasicBlock]bool{a: true}
	q := []*ssa.BasicBlock{a}
	found := false
	for len(q) > 0 && !found {
		x := q[0]
		q = q[1:]
		for _, s := range x.Succs {
			if s == b {
				found = true
				break
			}
			if !seen[s] {
				seen[s] = true
				q = append(q, s)
			}
		}
	}
	f.reachMemo[k] = found
	return found
}

func instrIndex(in ssa.Instruction) int {
	for i, x := range in.Block().Instrs {
		if x == in {
			return i
		}
	}
	return -1
}

// instrDominates: a executes before b on every path to b.
func instrDominates(a, b ssa.Instruction) bool {
	if a.Parent() != b.Parent() {
		return false
	}
	if a.Block() == b.Block() {
		return instrIndex(a) < instrIndex(b)
	}
	return a.Block().Dominates(b.Block())
}

// constInt returns the integer value of a constant.
func constInt(v ssa.Value) (int64, bool) {
	c, ok := v.(*ssa.Const)
	if !ok || c.Value == nil {
		return 0, false
	}
	if c.Value.Kind() == constant.Int {
		i, ok := constant.Int64Val(c.Value)
		return i, ok
	}
	if c.Value.Kind() == constant.Float {
		fl, _ := constant.Float64Val(c.Value)
		if fl == float64(int64(fl)) {
			return int64(fl), true
		}
	}
	return 0, false
}

func constString(v ssa.Value) (string, bool) {
	c, ok := v.(*ssa.Const)
	if !ok || c.Value == nil || c.Value.Kind() != constant.String {
		return "", false
	}
	return constant.StringVal(c.Value), true
}

// ---------------------------------------------------------------- path-sensitive condition sets

// edgeCond returns the branch condition that holds on the CFG edge p -> b.
func edgeCond(p, b *ssa.BasicBlock) (cond, bool) {
	ifi, ok := p.Instrs[len(p.Instrs)-1].(*ssa.If)
	if !ok {
		return cond{}, false
	}
	if p.Succs[0] == b && p.Succs[1] == b {
		return cond{}, false
	}
	if p.Succs[0] == b {
		return cond{V: ifi.Cond, Pos: true, At: p}, true
	}
	if p.Succs[1] == b {
		return cond{V: ifi.Cond, Pos: false, At: p}, true
	}
	return cond{}, false
}

const maxCondSets = 24

// condSetP is a condition set together with the predecessor through which the block was entered.
type condSetP struct {
	conds []cond
	pred  *ssa.BasicBlock
}

type regionPath struct {
	conds  []cond
	blocks []*ssa.BasicBlock // d ... b
}

// condSets returns alternative sets of conditions such that on every execution
// reaching b at least one set holds entirely (path-sensitive refinement of
// dominatingConds, bounded; falls back to the dominating conditions).
func (f *funcFacts) baseCondSets(b *ssa.BasicBlock) [][]cond {
	var out [][]cond
	for _, s := range f.condSetsP(b) {
		out = append(out, s.conds)
	}
	return out
}

func (f *funcFacts) condSetsP(b *ssa.BasicBlock) []condSetP {
	if f.csMemo == nil {
		f.csMemo = map[*ssa.BasicBlock][]condSetP{}
	}
	if r, ok := f.csMemo[b]; ok {
		return r
	}
	fallback := []condSetP{{conds: f.baseDominatingConds(b)}}
	f.csMemo[b] = fallback // cycle guard
	d := b.Idom()
	if d == nil {
		r := []condSetP{{}}
		f.csMemo[b] = r
		return r
	}
	upper := f.condSetsP(d)
	paths := f.regionPaths(d, b)
	if paths == nil {
		return fallback
	}
	if len(upper)*len(paths) > maxCondSets {
		upper = []condSetP{{conds: f.baseDominatingConds(d)}}
	}
	if len(upper)*len(paths) > maxCondSets {
		return fallback
	}
	var out []condSetP
	for _, u := range upper {
	nextPath:
		for _, pth := range paths {
			s := make([]cond, 0, len(u.conds)+len(pth.conds))
			s = append(s, u.conds...)
			for _, c := range pth.conds {
				// resolve a phi condition by the predecessor taken on this path
				if ph, ok := c.V.(*ssa.Phi); ok {
					var pred *ssa.BasicBlock
					if ph.Block() == d {
						pred = u.pred
					} else {
						for i, blk := range pth.blocks {
							if blk == ph.Block() && i > 0 {
								pred = pth.blocks[i-1]
							}
						}
					}
					if pred != nil {
						for i, pb := range ph.Block().Preds {
							if pb != pred {
								continue
							}
							ev := ph.Edges[i]
							if cst, ok := ev.(*ssa.Const); ok && cst.Value != nil && cst.Value.Kind() == constant.Bool {
								if constant.BoolVal(cst.Value) != c.Pos {
									continue nextPath // this path contradicts the branch taken
								}
								c = cond{} // trivially true
							} else {
								c = cond{V: ev, Pos: c.Pos, At: c.At}
							}
							break
						}
					}
				}
				if c.V != nil {
					s = append(s, c)
				}
			}
			var pred *ssa.BasicBlock
			if n := len(pth.blocks); n >= 2 {
				pred = pth.blocks[n-2]
			}
			out = append(out, condSetP{conds: s, pred: pred})
		}
	}
	if len(out) == 0 {
		return fallback
	}
	f.csMemo[b] = out
	return out
}

// regionPaths enumerates the acyclic paths from d (idom of b) to b and returns
// the edge conditions along each; nil if there are too many.
func (f *funcFacts) regionPaths(d, b *ssa.BasicBlock) []regionPath {
	var out []regionPath
	tooMany := false
	var cur []cond
	var seq []*ssa.BasicBlock
	onPath := map[*ssa.BasicBlock]bool{}
	var walk func(x *ssa.BasicBlock)
	walk = func(x *ssa.BasicBlock) {
		if tooMany {
			return
		}
		seq = append(seq, x)
		defer func() { seq = seq[:len(seq)-1] }()
		if x == b {
			cp := make([]cond, len(cur))
			copy(cp, cur)
			sq := make([]*ssa.BasicBlock, len(seq))
			copy(sq, seq)
			out = append(out, regionPath{conds: cp, blocks: sq})
			if len(out) > maxCondSets {
				tooMany = true
			}
			return
		}
		if onPath[x] {
			return
		}
		onPath[x] = true
		for _, s := range x.Succs {
			if s != b && (!d.Dominates(s) || s == d) {
				continue // leaves the region or is a back edge to d
			}
			if s != b && !f.blockReaches(s, b) {
				continue
			}
			if s.Dominates(x) && s != b {
				continue // back edge
			}
			if s == b && b.Dominates(x) && x != d {
				continue // back edge into b (b is a loop header inside the region)
			}
			ec, ok := edgeCond(x, s)
			if ok {
				cur = append(cur, ec)
			}
			walk(s)
			if ok {
				cur = cur[:len(cur)-1]
			}
		}
		delete(onPath, x)
	}
	walk(d)
	if tooMany || len(out) == 0 {
		return nil
	}
	return out
}

var neverNilMemo = map[*ssa.Function]int{}

// neverReturnsNil: every return of fn yields a freshly allocated / boxed value.
func neverReturnsNil(fn *ssa.Function, depth int) bool {
	if v, ok := neverNilMemo[fn]; ok {
		return v == 1
	}
	neverNilMemo[fn] = 2
	if len(fn.Blocks) == 0 || depth > 3 || fn.Signature.Results().Len() != 1 {
		return false
	}
	ok := true
	n := 0
	for _, b := range fn.Blocks {
		ret, isRet := b.Instrs[len(b.Instrs)-1].(*ssa.Return)
		if !isRet {
			continue
		}
		n++
		switch r := ret.Results[0].(type) {
		case *ssa.Alloc, *ssa.MakeInterface:
		case *ssa.Call:
			c := r.Call.StaticCallee()
			if c == nil || !(c.String() == "fmt.Errorf" || c.String() == "errors.New" || neverReturnsNil(c, depth+1)) {
				ok = false
			}
		default:
			ok = false
		}
	}
	if n == 0 {
		ok = false
	}
	if ok {
		neverNilMemo[fn] = 1
	}
	return ok
}

var sentinelMemo = map[*ssa.Global]int{}

// sentinelGlobal: a package-level variable assigned exactly once, in the
// package initialiser, with a non-nil value.
func sentinelGlobal(g *ssa.Global) bool {
	if v, ok := sentinelMemo[g]; ok {
		return v == 1
	}
	sentinelMemo[g] = 2
	if g.Pkg == nil {
		return false
	}
	n, good := 0, true
	for _, m := range g.Pkg.Members {
		fn, ok := m.(*ssa.Function)
		if !ok {
			continue
		}
		fns := append([]*ssa.Function{fn}, fn.AnonFuncs...)
		for _, f := range fns {
			for _, b := range f.Blocks {
				for _, in := range b.Instrs {
					if st, ok := in.(*ssa.Store); ok && st.Addr == g {
						n++
						if f.Name() != "init" || isNilConst(st.Val) || mayBeNilValue(st.Val) {
							good = false
						}
					}
				}
			}
		}
	}
	// methods of types in the package may store too
	if n == 1 && good {
		sentinelMemo[g] = 1
		return true
	}
	return false
}

// dominatingConds: the branch conditions known to hold on entry to b, plus what the success / true
// result of a repository helper implies (one level, see summaries.go).
func (f *funcFacts) dominatingConds(b *ssa.BasicBlock) []cond {
	base := f.baseDominatingConds(b)
	var out []cond
	for _, c := range base {
		if call, idx, errForm, ok := calleeOfCondition(c); ok {
			out = append(out, summaryDominating(call, idx, errForm)...)
		}
	}
	if len(out) == 0 {
		return base
	}
	return append(append([]cond{}, base...), out...)
}

// condSets: alternative condition sets for b, each extended by the alternatives of the helper summaries it contains.
func (f *funcFacts) condSets(b *ssa.BasicBlock) [][]cond {
	base := f.baseCondSets(b)
	var out [][]cond
	for _, set := range base {
		alts := [][]cond{set}
		for _, c := range set {
			call, idx, errForm, ok := calleeOfCondition(c)
			if !ok {
				continue
			}
			ss := summarySets(call, idx, errForm)
			if len(ss) == 0 {
				continue
			}
			if len(alts)*len(ss) > maxCondSets {
				// too many alternatives: keep the conditions common to all of them
				dom := summaryDominating(call, idx, errForm)
				for i := range alts {
					alts[i] = append(append([]cond{}, alts[i]...), dom...)
				}
				continue
			}
			var next [][]cond
			for _, a := range alts {
				for _, s2 := range ss {
					next = append(next, append(append([]cond{}, a...), s2...))
				}
			}
			alts = next
		}
		out = append(out, alts...)
	}
	return out
}
