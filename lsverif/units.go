package main

// E7: units of time quantities. livesim2 computes with seconds, milliseconds, nanoseconds (time.Duration)
// and media ticks of a timescale, all held in plain ints and floats; the repository's naming convention
// (suffix S / MS, "...Timescale") and a short table of tick-valued fields say which is which. The analysis
// infers a unit for every numeric SSA value from those sources through conversions, multiplication and
// division (also by powers of ten) and reports the places where two values of *known, different* units are
// added, subtracted, compared, merged, stored into a field or passed to a parameter of another known unit.
// A value whose unit is not known never causes a report.

import (
	"fmt"
	"go/constant"
	"go/token"
	"go/types"
	"math"
	"sort"
	"strings"
	"unicode"

	"golang.org/x/tools/go/ssa"
)

// unit: time^t * rate^r * 10^k relative to seconds (rate = ticks per second).
type unit struct {
	known   bool
	t, r, k int
}

var (
	uSeconds = unit{true, 1, 0, 0}
	uMillis  = unit{true, 1, 0, 3}
	uNanos   = unit{true, 1, 0, 9}
	uRate    = unit{true, 0, 1, 0}
	uTicks   = unit{true, 1, 1, 0}
)

func (u unit) String() string {
	if !u.known {
		return "?"
	}
	switch u {
	case uSeconds:
		return "s"
	case uMillis:
		return "ms"
	case unit{true, 1, 0, 6}:
		return "us"
	case uNanos:
		return "ns"
	case uRate:
		return "ticks/s"
	case uTicks:
		return "ticks"
	case unit{true, 0, 0, 0}:
		return "number"
	}
	return fmt.Sprintf("s^%d*(ticks/s)^%d*10^%d", u.t, u.r, u.k)
}

func (u unit) mul(v unit) unit {
	if !u.known || !v.known {
		return unit{}
	}
	return unit{true, u.t + v.t, u.r + v.r, u.k + v.k}
}

func (u unit) div(v unit) unit {
	if !u.known || !v.known {
		return unit{}
	}
	return unit{true, u.t - v.t, u.r - v.r, u.k - v.k}
}

// tickFields: fields that hold media time in ticks of the representation's timescale (confirmed by reading).
var tickFields = map[string]bool{
	"app.Segment.StartTime": true, "app.Segment.EndTime": true,
	"app.segMeta.origTime": true, "app.segMeta.newTime": true, "app.segMeta.origDur": true, "app.segMeta.newDur": true,
	"app.lastSegInfo.startTime": true, "app.lastSegInfo.dur": true,
	"app.chunk.dur": true,
	"app.audioRecipe.startTime": true, "app.audioRecipe.endTime": true,
	"app.audioRecipe.audioInStart": true, "app.audioRecipe.audioInEnd": true, "app.audioRecipe.audioInEndAfterWrap": true,
	"app.RepData.DefaultSampleDuration": true, "app.RepData.ConstantSampleDuration": true,
	"mpd.S.T": true, "mpd.S.D": true,
}

func isNumeric(t types.Type) bool {
	if p, ok := t.Underlying().(*types.Pointer); ok {
		t = p.Elem()
	}
	b, ok := t.Underlying().(*types.Basic)
	return ok && b.Info()&(types.IsInteger|types.IsFloat) != 0
}

// unitOfName: the repository's suffix convention.
func unitOfName(name string) unit {
	n := name
	low := strings.ToLower(n)
	if strings.HasSuffix(low, "timescale") {
		return uRate
	}
	if len(n) >= 3 && (strings.HasSuffix(n, "MS") || strings.HasSuffix(n, "Ms")) {
		c := rune(n[len(n)-3])
		if unicode.IsLower(c) || unicode.IsDigit(c) {
			return uMillis
		}
	}
	if len(n) >= 2 && strings.HasSuffix(n, "S") {
		c := rune(n[len(n)-2])
		if unicode.IsLower(c) || unicode.IsDigit(c) {
			return uSeconds
		}
	}
	return unit{}
}

type unitConflict struct {
	fn   *ssa.Function
	pos  token.Pos
	what string
	a, b unit
	key  string
}

type unitAnalysis struct {
	p     *Program
	memo  map[ssa.Value]unit
	busy  map[ssa.Value]bool
	fmemo map[string]unit
	fbusy map[string]bool
}

func newUnitAnalysis(p *Program) *unitAnalysis {
	return &unitAnalysis{p: p, memo: map[ssa.Value]unit{}, busy: map[ssa.Value]bool{}, fmemo: map[string]unit{}, fbusy: map[string]bool{}}
}

func pow10Of(c *ssa.Const) (int, bool) {
	if c.Value == nil {
		return 0, false
	}
	switch c.Value.Kind() {
	case constant.Int, constant.Float:
	default:
		return 0, false
	}
	f, _ := constant.Float64Val(constant.ToFloat(c.Value))
	if f <= 0 {
		return 0, false
	}
	l := math.Log10(f)
	k := math.Round(l)
	// only the factors between s, ms, us and ns count as pure scale; 10 or 100 are as likely "10 seconds"
	if math.Abs(l-k) > 1e-9 || k < -9 || k > 9 || int(k)%3 != 0 || k == 0 {
		return 0, false
	}
	return int(k), true
}

func (ua *unitAnalysis) fieldUnit(f string, t types.Type) unit {
	f = strings.TrimSuffix(f, "*")
	if !isNumeric(t) {
		return unit{}
	}
	if tickFields[f] {
		return uTicks
	}
	if i := strings.LastIndex(f, "."); i >= 0 {
		return unitOfName(f[i+1:])
	}
	return unit{}
}

// resultUnit: unit of result #idx of a function: from its body if it has one, else from its name.
func (ua *unitAnalysis) resultUnit(fn *ssa.Function, idx int) unit {
	if fn == nil {
		return unit{}
	}
	key := fmt.Sprintf("%p/%d", fn, idx)
	if u, ok := ua.fmemo[key]; ok {
		return u
	}
	if ua.fbusy[key] {
		return unit{}
	}
	ua.fbusy[key] = true
	defer delete(ua.fbusy, key)
	res := unit{}
	full := fn.String()
	switch full {
	case "(time.Time).UnixMilli":
		res = uMillis
	case "(time.Time).UnixNano", "(time.Duration).Nanoseconds":
		res = uNanos
	case "(time.Time).Unix", "(time.Duration).Seconds":
		res = uSeconds
	case "(time.Duration).Milliseconds":
		res = uMillis
	case "(time.Time).Sub", "time.Since", "time.Until":
		res = uNanos
	}
	if !res.known && ua.p.isRepoFunc(fn) && len(fn.Blocks) > 0 && idx < fn.Signature.Results().Len() && isNumeric(fn.Signature.Results().At(idx).Type()) {
		first := true
		for _, b := range fn.Blocks {
			ret, ok := b.Instrs[len(b.Instrs)-1].(*ssa.Return)
			if !ok || idx >= len(ret.Results) {
				continue
			}
			u := ua.unitOf(ret.Results[idx])
			if !u.known {
				continue
			}
			if first {
				res, first = u, false
			} else if res != u {
				res = unit{}
				break
			}
		}
		if !res.known && idx == 0 && fn.Parent() == nil {
			res = unitOfName(fn.Name())
		}
	}
	ua.fmemo[key] = res
	return res
}

func (ua *unitAnalysis) unitOf(v ssa.Value) unit {
	if v == nil {
		return unit{}
	}
	if u, ok := ua.memo[v]; ok {
		return u
	}
	if ua.busy[v] {
		return unit{}
	}
	ua.busy[v] = true
	u := ua.compute(v)
	delete(ua.busy, v)
	ua.memo[v] = u
	return u
}

func (ua *unitAnalysis) compute(v ssa.Value) unit {
	switch x := v.(type) {
	case *ssa.Const:
		return unit{}
	case *ssa.Parameter:
		if isNumeric(x.Type()) {
			if u := unitOfName(x.Name()); u.known {
				return u
			}
			// an unnamed-unit parameter of a repository function: the unit all its static call sites agree on
			fn := x.Parent()
			idx := -1
			for i, q := range fn.Params {
				if q == x {
					idx = i
				}
			}
			if idx < 0 || fn.Parent() != nil {
				return unit{}
			}
			res, first := unit{}, true
			for _, site := range ua.p.callersOf(fn) {
				cc := site.Common()
				if cc.StaticCallee() != fn || idx >= len(cc.Args) || !ua.p.isRepoFunc(site.Parent()) {
					return unit{}
				}
				u := ua.unitOf(cc.Args[idx])
				if !u.known {
					return unit{}
				}
				if first {
					res, first = u, false
				} else if res != u {
					return unit{}
				}
			}
			return res
		}
	case *ssa.Field:
		return ua.fieldUnit(structFieldOf(x.X.Type(), x.Field), x.Type())
	case *ssa.UnOp:
		switch x.Op {
		case token.SUB:
			return ua.unitOf(x.X)
		case token.MUL:
			if f, ok := loadedField(x); ok {
				return ua.fieldUnit(f, x.Type())
			}
			if al, ok := x.X.(*ssa.Alloc); ok && al.Referrers() != nil {
				res, first := unit{}, true
				for _, ref := range *al.Referrers() {
					st, ok := ref.(*ssa.Store)
					if !ok || st.Addr != ssa.Value(al) {
						continue
					}
					u := ua.unitOf(st.Val)
					if !u.known {
						continue
					}
					if first {
						res, first = u, false
					} else if res != u {
						return unit{}
					}
				}
				return res
			}
			// *p where p is a pointer-typed field (optional setting): the field's unit
			if inner, ok := x.X.(*ssa.UnOp); ok && inner.Op == token.MUL {
				if f, ok := loadedField(inner); ok {
					return ua.fieldUnit(f, x.Type())
				}
			}
			// result of Ptr(x) style helpers is not followed
		}
	case *ssa.Convert:
		if isNumeric(x.Type()) && isNumeric(x.X.Type()) {
			return ua.unitOf(x.X)
		}
	case *ssa.ChangeType:
		return ua.unitOf(x.X)
	case *ssa.Phi:
		res, first := unit{}, true
		for _, e := range x.Edges {
			u := ua.unitOf(e)
			if !u.known {
				continue
			}
			if first {
				res, first = u, false
			} else if res != u {
				return unit{}
			}
		}
		return res
	case *ssa.BinOp:
		switch x.Op {
		case token.MUL:
			if c, ok := x.Y.(*ssa.Const); ok {
				return scaleBy(ua.unitOf(x.X), c, +1)
			}
			if c, ok := x.X.(*ssa.Const); ok {
				return scaleBy(ua.unitOf(x.Y), c, +1)
			}
			return ua.unitOf(x.X).mul(ua.unitOf(x.Y))
		case token.QUO:
			if c, ok := x.Y.(*ssa.Const); ok {
				return scaleBy(ua.unitOf(x.X), c, -1)
			}
			if _, ok := x.X.(*ssa.Const); ok {
				return unit{}
			}
			return ua.unitOf(x.X).div(ua.unitOf(x.Y))
		case token.ADD, token.SUB:
			a, b := ua.unitOf(x.X), ua.unitOf(x.Y)
			if a.known && b.known && a != b {
				return unit{}
			}
			if a.known {
				return a
			}
			return b
		case token.REM:
			return ua.unitOf(x.X)
		}
	case *ssa.Call:
		cc := x.Common()
		if callee := cc.StaticCallee(); callee != nil {
			switch callee.String() {
			case "math.Round", "math.Ceil", "math.Floor", "math.Abs", "math.Trunc", "math.RoundToEven":
				return ua.unitOf(cc.Args[0])
			case "math.Max", "math.Min":
				a, b := ua.unitOf(cc.Args[0]), ua.unitOf(cc.Args[1])
				if a.known && b.known && a != b {
					return unit{}
				}
				if a.known {
					return a
				}
				return b
			}
			if isNumeric(x.Type()) {
				return ua.resultUnit(callee, 0)
			}
		}
		if b, ok := cc.Value.(*ssa.Builtin); ok && (b.Name() == "min" || b.Name() == "max") && len(cc.Args) > 0 {
			return ua.unitOf(cc.Args[0])
		}
	case *ssa.Extract:
		if c, ok := x.Tuple.(*ssa.Call); ok && isNumeric(x.Type()) {
			if callee := c.Call.StaticCallee(); callee != nil {
				return ua.resultUnit(callee, x.Index)
			}
		}
	}
	return unit{}
}

func scaleBy(u unit, c *ssa.Const, sign int) unit {
	if !u.known {
		return unit{}
	}
	k, ok := pow10Of(c)
	if !ok {
		return unit{} // a constant that is not a power of ten may carry a unit of its own (60 s, 3600 s/h)
	}
	u.k += sign * k
	return u
}

// conflicts scans the given functions.
func (ua *unitAnalysis) conflicts(fns []*ssa.Function) []unitConflict {
	var out []unitConflict
	add := func(fn *ssa.Function, pos token.Pos, what string, a, b unit, construct string) {
		out = append(out, unitConflict{fn, pos, what, a, b, construct})
	}
	for _, fn := range fns {
		for _, b := range fn.Blocks {
			for _, in := range b.Instrs {
				switch x := in.(type) {
				case *ssa.BinOp:
					if x.Op == token.MUL {
						if what, key, ok := ua.divBeforeMul(x); ok {
							add(fn, x.Pos(), what, unit{}, unit{}, key)
						}
					}
					switch x.Op {
					case token.ADD, token.SUB, token.LSS, token.LEQ, token.GTR, token.GEQ, token.EQL, token.NEQ:
						if !isNumeric(x.X.Type()) {
							continue
						}
						a, c := ua.unitOf(x.X), ua.unitOf(x.Y)
						if a.known && c.known && a != c && (x.Op == token.ADD || x.Op == token.SUB) && isCeilDivIdiom(x) {
							continue
						}
						if a.known && c.known && a != c {
							add(fn, x.Pos(), fmt.Sprintf("%s %s %s", a, x.Op, c), a, c, "binop:"+x.Op.String()+":"+roleKey(x.X)+":"+roleKey(x.Y))
						}
					}
				case *ssa.Store:
					f, ok := fieldOfAddr(x.Addr)
					if !ok {
						continue
					}
					fu := ua.fieldUnit(f, x.Val.Type())
					vu := ua.unitOf(x.Val)
					if fu.known && vu.known && fu != vu {
						add(fn, x.Pos(), fmt.Sprintf("%s stored into %s (%s)", vu, f, fu), vu, fu, "store:"+f)
					}
				case *ssa.Call:
					callee := x.Call.StaticCallee()
					if callee == nil || !ua.p.isRepoFunc(callee) {
						continue
					}
					for i, a := range x.Call.Args {
						if i >= len(callee.Params) || !isNumeric(a.Type()) {
							continue
						}
						pu := unitOfName(callee.Params[i].Name())
						au := ua.unitOf(a)
						if pu.known && au.known && pu != au {
							add(fn, x.Pos(), fmt.Sprintf("%s passed as %s (%s) of %s", au, callee.Params[i].Name(), pu, shortFn(callee)), au, pu, "arg:"+shortFn(callee)+"."+callee.Params[i].Name())
						}
					}
				case *ssa.Return:
					for i, res := range x.Results {
						if !isNumeric(res.Type()) {
							continue
						}
						nu := unit{}
						if fn.Signature.Results().Len() > i {
							nu = unitOfName(fn.Signature.Results().At(i).Name())
						}
						if i == 0 && !nu.known {
							nu = unitOfName(fn.Name())
						}
						ru := ua.unitOf(res)
						if nu.known && ru.known && nu != ru {
							add(fn, x.Pos(), fmt.Sprintf("%s returned by %s, whose name says %s", ru, shortFn(fn), nu), ru, nu, "return")
						}
					}
				}
			}
		}
	}
	sort.SliceStable(out, func(i, j int) bool {
		if out[i].fn != out[j].fn {
			return shortFn(out[i].fn) < shortFn(out[j].fn)
		}
		return out[i].pos < out[j].pos
	})
	return out
}

// known counts the values with a known unit (coverage figure).
func (ua *unitAnalysis) knownIn(fns []*ssa.Function) (known, numeric int) {
	for _, fn := range fns {
		for _, b := range fn.Blocks {
			for _, in := range b.Instrs {
				v, ok := in.(ssa.Value)
				if !ok || !isNumeric(v.Type()) {
					continue
				}
				numeric++
				if ua.unitOf(v).known {
					known++
				}
			}
		}
	}
	return
}

// isCeilDivIdiom: (a + b - 1) / b — the divisor is added to the dividend to round the quotient up.
func isCeilDivIdiom(x *ssa.BinOp) bool {
	var cur ssa.Value = x
	for step := 0; step < 3; step++ {
		refs := cur.Referrers()
		if refs == nil || len(*refs) == 0 {
			return false
		}
		var next *ssa.BinOp
		for _, ref := range *refs {
			if bo, ok := ref.(*ssa.BinOp); ok {
				next = bo
			}
		}
		if next == nil {
			return false
		}
		if next.Op == token.QUO && next.X == cur {
			return sameValue(next.Y, x.Y) || sameValue(next.Y, x.X) || exprKey(next.Y) == exprKey(x.Y) || exprKey(next.Y) == exprKey(x.X)
		}
		if (next.Op == token.SUB || next.Op == token.ADD) && next.X == cur {
			if _, isConst := next.Y.(*ssa.Const); isConst {
				cur = next
				continue
			}
		}
		return false
	}
	return false
}

var unitsShared *unitAnalysis

func sharedUnits(p *Program) *unitAnalysis {
	if unitsShared == nil || unitsShared.p != p {
		unitsShared = newUnitAnalysis(p)
	}
	return unitsShared
}

// unitsRule: E7 over the repository functions reachable from the anchors of a property.
func unitsRule(p *Program, r *Reporter, anchors ...*ssa.Function) {
	r.Rule("E7-UNITS", "seconds, milliseconds, nanoseconds and media ticks are never added, compared, merged, stored or passed where another of them is expected", 1)
	ua := sharedUnits(p)
	var fns []*ssa.Function
	for fn := range staticReach(p, anchors...) {
		fns = append(fns, fn)
	}
	sort.Slice(fns, func(i, j int) bool { return shortFn(fns[i]) < shortFn(fns[j]) })
	for _, c := range ua.conflicts(fns) {
		r.Violate("E7-UNITS", shortFn(c.fn), c.key, p.pos(c.pos), "units do not agree: "+c.what, nil)
	}
	for _, a := range anchors {
		if a == nil {
			continue
		}
		var sub []*ssa.Function
		for fn := range staticReach(p, a) {
			sub = append(sub, fn)
		}
		k, n := ua.knownIn(sub)
		r.Decide(k > 0, "E7-UNITS", shortFn(a), "reachable-arithmetic", p.pos(a.Pos()), fmt.Sprintf("%d functions, %d numeric values, %d with a known unit; every meeting of two known units agrees (or is reported)", len(sub), n, k),
			"no value with a known unit below this function: the naming convention the rule relies on is gone", nil)
	}
}

// unitsRuleByName: anchors are functions of the livesim2 application package.
func unitsRuleByName(p *Program, r *Reporter, names ...string) {
	var anchors []*ssa.Function
	for _, n := range names {
		if fn := p.mustFunc(r, pkgApp, n); fn != nil {
			anchors = append(anchors, fn)
		}
	}
	if len(anchors) > 0 {
		unitsRule(p, r, anchors...)
		errDiscRule(p, r, anchors...)
	}
}

// staticReach: repository functions reachable through static calls and closures (no interface dispatch:
// the arithmetic of a property lives in plain functions; dynamic calls would pull in every handler).
func staticReach(p *Program, starts ...*ssa.Function) map[*ssa.Function]bool {
	seen := map[*ssa.Function]bool{}
	var q []*ssa.Function
	push := func(fn *ssa.Function) {
		if fn != nil && !seen[fn] && p.isRepoFunc(fn) && len(fn.Blocks) > 0 {
			seen[fn] = true
			q = append(q, fn)
		}
	}
	for _, s := range starts {
		push(s)
	}
	for len(q) > 0 {
		fn := q[0]
		q = q[1:]
		for _, b := range fn.Blocks {
			for _, in := range b.Instrs {
				if c, ok := in.(ssa.CallInstruction); ok {
					push(c.Common().StaticCallee())
				}
				if mc, ok := in.(*ssa.MakeClosure); ok {
					if f, ok := mc.Fn.(*ssa.Function); ok {
						push(f)
					}
				}
			}
		}
	}
	return seen
}

// divBeforeMul: an integer unit conversion written as (a / d) * m with d and m different scale factors
// (timescales, powers of ten): the remainder of the division is lost before the multiplication. The idiom
// "floor to a multiple" (a / d * d) multiplies by the divisor itself and is not reported.
func (ua *unitAnalysis) divBeforeMul(x *ssa.BinOp) (string, string, bool) {
	isInt := func(t types.Type) bool {
		b, ok := t.Underlying().(*types.Basic)
		return ok && b.Info()&types.IsInteger != 0
	}
	if !isInt(x.Type()) {
		return "", "", false
	}
	try := func(q, m ssa.Value) (string, string, bool) {
		div, ok := stripConv(q).(*ssa.BinOp)
		if !ok || div.Op != token.QUO || !isInt(div.Type()) {
			return "", "", false
		}
		d := div.Y
		if sameValue(stripConv(d), stripConv(m)) || exprKey(stripConv(d)) == exprKey(stripConv(m)) {
			return "", "", false // floor to a multiple of d
		}
		scale := func(v ssa.Value) (string, bool) {
			if c, ok := v.(*ssa.Const); ok {
				if _, ok := pow10Of(c); ok {
					return c.Value.String(), true
				}
				return "", false
			}
			if u := ua.unitOf(v); u.known && u == uRate {
				return "a timescale", true
			}
			return "", false
		}
		ds, okd := scale(stripConv(d))
		ms, okm := scale(stripConv(m))
		if !okd || !okm {
			return "", "", false
		}
		au := ua.unitOf(div.X)
		return fmt.Sprintf("a value (%s) is divided by %s before it is multiplied by %s: the remainder of the integer division is lost (multiply first)", au, ds, ms),
			"divmul:" + roleKey(div.X), true
	}
	if w, k, ok := try(x.X, x.Y); ok {
		return w, k, ok
	}
	return try(x.Y, x.X)
}
