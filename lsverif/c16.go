package main

import (
	"go/types"
	"fmt"
	"go/constant"
	"go/token"
	"strings"

	"golang.org/x/tools/go/ssa"
)

func init() { register("C16", checkC16) }

func ingesterFuncs(p *Program) []*ssa.Function {
	var out []*ssa.Function
	for _, fn := range pkgFuncs(p, pkgApp) {
		s := shortFn(fn)
		if strings.Contains(s, "cmafIngester") || strings.Contains(s, "cmafSource") || strings.Contains(s, "setReqHeaders") || strings.Contains(s, "newCmafSource") {
			out = append(out, fn)
		}
	}
	return out
}

func checkC16(p *Program, r *Reporter) {
	unitsRuleByName(p, r, "(*cmafIngester).start", "calcSegmentAvailabilityTime")
	r.Explanation = "Static analysis of structural necessary conditions of C16: (a) request typestate: every *http.Request the ingester creates passes setReqHeaders before it is sent, and setReqHeaders sets the ingest version header unconditionally, a content type for each media kind and credentials exactly when both are configured; " +
		"(b) no media segment is sent unless all init segments were sent successfully (the error counter is incremented on the error side and its test dominates every media send); (c) every select in the session loop has a context-cancellation arm, and the delete handler calls the session's cancel function on every successful path, whatever the session state; " +
		"(d) each representation's $Time$ address comes from timeline entries generated for that very representation; media segments are produced by the generator the HTTP handler uses; (e) the session tables are accessed under a lock wherever concurrent API calls can write them (E2; unsynchronised today: known findings). " +
		"Numbering without gaps, byte equality with served segments, lmsg marking, duration handling and behaviour with failing receivers are not decided."
	r.NotCovered = "consecutive numbering, byte equality with served segments, lmsg on the last segment, stopping after the configured duration, receivers that are slow or fail"
	r.Assumptions = []string{"net/http client semantics trusted", "E2 assumptions as in C07"}
	srh := p.mustFunc(r, pkgApp, "setReqHeaders")
	start := p.mustFunc(r, pkgApp, "(*cmafIngester).start")
	sms := p.mustFunc(r, pkgApp, "(*cmafIngester).sendMediaSegments")
	sm1 := p.mustFunc(r, pkgApp, "(*cmafIngester).sendMediaSegment")
	sis := p.mustFunc(r, pkgApp, "(*cmafIngester).sendInitSegment")
	ws := p.mustFunc(r, pkgApp, "writeSegment")
	if srh == nil || start == nil || sms == nil || sm1 == nil || sis == nil || ws == nil {
		return
	}
	// (a0) the instant at which the session generates a segment: a float time converted to whole
	// milliseconds must be rounded up, or the generator is asked one fraction of a millisecond too early
	// and the segment is skipped
	r.Rule("E5-NOTRUNC", "segment availability instants in ms are rounded up, never truncated", 0)
	if cat := p.mustFunc(r, pkgApp, "calcSegmentAvailabilityTime"); cat != nil {
		for _, fn := range cluster(cat) {
			for _, b := range fn.Blocks {
				for _, in := range b.Instrs {
					cv, ok := in.(*ssa.Convert)
					if !ok || !isFloatType(cv.X.Type()) || !isIntegerType(cv.Type()) {
						continue
					}
					okCeil := false
					if c, isCall := cv.X.(*ssa.Call); isCall && c.Call.StaticCallee() != nil && c.Call.StaticCallee().String() == "math.Ceil" {
						okCeil = true
					}
					// conversions of the configured start time and similar whole-second settings are not instants computed from media time
					if !okCeil && !valueDependsOnField(p, cv.X, "app.Segment.EndTime") {
						continue
					}
					r.Decide(okCeil, "E5-NOTRUNC", shortFn(fn), "float-to-ms", p.pos(cv.Pos()), "math.Ceil precedes the conversion",
						"a segment end time is truncated to whole milliseconds: at the computed instant the segment is still 'too early' for the generator, so the session skips it (assets with fractional-millisecond segment ends)", nil)
				}
			}
		}
	}
	if cat := p.lookupFunc(pkgApp, "calcSegmentAvailabilityTime"); cat != nil {
		generationInstantRule(p, r, start, sms, cat)
	}
	// (a) typestate
	r.Rule("E5-HEADERS", "every request the ingester creates passes setReqHeaders before it is sent", 3)
	for _, fn := range ingesterFuncs(p) {
		for _, b := range fn.Blocks {
			for _, in := range b.Instrs {
				c, ok := in.(*ssa.Call)
				if !ok || c.Call.StaticCallee() == nil {
					continue
				}
				n := c.Call.StaticCallee().String()
				if n != "net/http.NewRequestWithContext" && n != "net/http.NewRequest" {
					continue
				}
				var req ssa.Value
				for _, ref := range *c.Referrers() {
					if ex, ok := ref.(*ssa.Extract); ok && ex.Index == 0 {
						req = ex
					}
				}
				if req == nil {
					r.Violate("E5-HEADERS", shortFn(fn), "request", p.pos(c.Pos()), "request value never used", nil)
					continue
				}
				var sets, sends []ssa.Instruction
				for _, ref := range *req.Referrers() {
					rc, ok := ref.(*ssa.Call)
					if !ok {
						continue
					}
					if rc.Call.StaticCallee() == srh {
						sets = append(sets, rc)
						continue
					}
					isArg := false
					for _, a := range rc.Call.Args {
						if a == req {
							isArg = true
						}
					}
					if !isArg {
						continue
					}
					callee := rc.Call.StaticCallee()
					if callee != nil && (callee.String() == "(*net/http.Client).Do" || strings.HasSuffix(callee.String(), "cmafIngester).sendRequest")) {
						sends = append(sends, rc)
					}
				}
				if len(sends) == 0 {
					r.Violate("E5-HEADERS", shortFn(fn), "request", p.pos(c.Pos()), "no send of this request found (Client.Do / sendRequest): typestate not decided", nil)
					continue
				}
				for _, s := range sends {
					ok := false
					for _, st := range sets {
						if instrDominates(st, s) {
							ok = true
						}
					}
					r.Decide(ok, "E5-HEADERS", shortFn(fn), "send", p.pos(instrPos(s)), "setReqHeaders on this request dominates the send",
						"the request is sent on a path that did not pass setReqHeaders: no ingest version header, content type or credentials", nil)
				}
			}
		}
	}
	// a request body can be sent once: a request created inside a loop must not take its body from outside the loop
	r.Rule("E5-BODYONCE", "a request created in a (retry) loop gets a body created in the same iteration", 0)
	for _, fn := range ingesterFuncs(p) {
		for _, b := range fn.Blocks {
			for _, in := range b.Instrs {
				c, ok := in.(*ssa.Call)
				if !ok || c.Call.StaticCallee() == nil {
					continue
				}
				n := c.Call.StaticCallee().String()
				if n != "net/http.NewRequestWithContext" && n != "net/http.NewRequest" {
					continue
				}
				body := c.Call.Args[len(c.Call.Args)-1]
				var loop map[*ssa.BasicBlock]bool
				for d := b; d != nil; d = d.Idom() {
					if l := naturalLoop(d); l != nil && l[b] {
						loop = l
						break
					}
				}
				if loop == nil {
					r.Discharge("E5-BODYONCE", shortFn(fn), "request-body", p.pos(c.Pos()), "the request is not created in a loop")
					continue
				}
				// the reader behind the body: strip interface boxing, follow to its defining instruction
				src := body
				for {
					if mi, ok := src.(*ssa.MakeInterface); ok {
						src = mi.X
						continue
					}
					if ci, ok := src.(*ssa.ChangeInterface); ok {
						src = ci.X
						continue
					}
					break
				}
				inLoop := true
				if def, ok := src.(ssa.Instruction); ok {
					if _, isLoad := src.(*ssa.UnOp); isLoad {
						inLoop = false // loaded from a variable or field that outlives the iteration
					} else {
						inLoop = loop[def.Block()]
					}
				} else {
					inLoop = false // parameter, free variable, global
				}
				if isNilConst(body) {
					inLoop = true
				}
				r.Decide(inLoop, "E5-BODYONCE", shortFn(fn), "request-body", p.pos(c.Pos()), "the body reader is created in the same iteration",
					"the request is created in a loop but its body reader comes from outside the loop: the first attempt drains it and every further attempt sends an empty body", nil)
			}
		}
	}
	// setReqHeaders itself
	r.Rule("E5-SETHDR", "setReqHeaders: version header unconditional, content type per media kind, credentials exactly when configured", 3)
	ffH := factsOf(srh)
	wantCT := map[string]string{"video": "video/mp4", "audio": "audio/mp4", "text": "application/mp4"}
	seenCT := map[string]bool{}
	version := false
	for _, b := range srh.Blocks {
		for _, in := range b.Instrs {
			c, ok := in.(*ssa.Call)
			if !ok || c.Call.StaticCallee() == nil {
				continue
			}
			switch c.Call.StaticCallee().String() {
			case "(net/http.Header).Set":
				key, _ := constString(c.Call.Args[1])
				val, _ := constString(c.Call.Args[2])
				switch key {
				case "DASH-IF-Ingest":
					version = true
					cds := ffH.transitiveCDeps(b, true)
					r.Decide(len(cds) == 0, "E5-SETHDR", shortFn(srh), "header:DASH-IF-Ingest", p.pos(c.Pos()), "set on every path",
						"the ingest version header is set only under a condition", nil)
				case "Content-Type":
					if val != "" {
						// constant arm: the media kind comes from the dominating comparison
						kind := ""
						for _, cd := range ffH.dominatingConds(b) {
							if bo, ok := cd.V.(*ssa.BinOp); ok && bo.Op == token.EQL && cd.Pos {
								if s, ok := constString(bo.Y); ok {
									kind = s
								}
							}
						}
						seenCT[kind] = true
						r.Decide(wantCT[kind] == val, "E5-SETHDR", shortFn(srh), "content-type:"+kind, p.pos(c.Pos()), fmt.Sprintf("%s -> %s", kind, val),
							fmt.Sprintf("media kind %q is sent with content type %q (documented: %q)", kind, val, wantCT[kind]), nil)
						continue
					}
					// computed value: must come from the media kind; a package-level table is compared entry by entry
					var kindPrm *ssa.Parameter
					for _, prm := range srh.Params {
						if prm.Name() == "contentType" {
							kindPrm = prm
						}
					}
					fromKind := kindPrm != nil && localDependsOnParam(p, c.Call.Args[2], kindPrm)
					table := map[string]string{}
					var tableName string
					sliceVisitIntra(p, c.Call.Args[2], func(v ssa.Value) {
						lk, ok := v.(*ssa.Lookup)
						if !ok {
							return
						}
						u, ok := lk.X.(*ssa.UnOp)
						if !ok {
							return
						}
						g, ok := u.X.(*ssa.Global)
						if !ok {
							return
						}
						tableName = g.Name()
						fnsWithInit := pkgFuncs(p, pkgApp)
						if sp := p.SSAPkgs[pkgApp]; sp != nil {
							if initFn := sp.Func("init"); initFn != nil {
								fnsWithInit = append(fnsWithInit, initFn)
							}
						}
						for _, fn := range fnsWithInit {
							for _, bb := range fn.Blocks {
								for _, in2 := range bb.Instrs {
									mu, ok := in2.(*ssa.MapUpdate)
									if !ok {
										continue
									}
									isG := false
									if uu, ok := mu.Map.(*ssa.UnOp); ok && uu.X == ssa.Value(g) {
										isG = true
									}
									if mk, ok := mu.Map.(*ssa.MakeMap); ok && mk.Referrers() != nil {
										for _, ref := range *mk.Referrers() {
											if st, ok := ref.(*ssa.Store); ok && st.Addr == ssa.Value(g) {
												isG = true
											}
										}
									}
									if !isG {
										continue
									}
									k, ok1 := constString(mu.Key)
									vv, ok2 := constString(mu.Value)
									if ok1 && ok2 {
										table[k] = vv
									}
								}
							}
						}
					})
					switch {
					case !fromKind:
						r.Violate("E5-SETHDR", shortFn(srh), "content-type:computed", p.pos(c.Pos()), "the content type sent does not depend on the media kind", nil)
					case tableName != "":
						for kind, want := range wantCT {
							seenCT[kind] = true
							r.Decide(table[kind] == want, "E5-SETHDR", shortFn(srh), "content-type:"+kind, p.pos(c.Pos()), fmt.Sprintf("%s -> %s (table %s)", kind, table[kind], tableName),
								fmt.Sprintf("table %s maps media kind %q to %q (documented: %q)", tableName, kind, table[kind], want), nil)
						}
					default:
						for kind := range wantCT {
							seenCT[kind] = true
						}
						r.Discharge("E5-SETHDR", shortFn(srh), "content-type:computed", p.pos(c.Pos()), "computed from the media kind (values not resolved statically)")
					}
				}
			case "(*net/http.Request).SetBasicAuth":
				okCred := true
				n := 0
				for _, cd := range ffH.transitiveCDeps(b, true) {
					n++
					bo, ok := cd.V.(*ssa.BinOp)
					if !ok || bo.Op != token.NEQ || !cd.Pos {
						okCred = false
						continue
					}
					if s, ok := constString(bo.Y); !ok || s != "" {
						okCred = false
					}
					if _, isPrm := bo.X.(*ssa.Parameter); !isPrm {
						okCred = false
					}
				}
				r.Decide(okCred && n == 2, "E5-SETHDR", shortFn(srh), "credentials", p.pos(c.Pos()), "set exactly when user and password are both non-empty",
					"credentials are not set exactly under 'user and password configured'", nil)
			}
		}
	}
	if !version {
		r.Violate("E5-SETHDR", shortFn(srh), "header:DASH-IF-Ingest", p.pos(srh.Pos()), "setReqHeaders no longer sets the ingest version header", nil)
	}
	for kind := range wantCT {
		if !seenCT[kind] {
			r.Violate("E5-SETHDR", shortFn(srh), "content-type:"+kind, p.pos(srh.Pos()), "no content type is set for media kind "+kind, nil)
		}
	}
	// (b) init first: every media send is dominated by the "no init error" side of a test of a flag or counter
	// that is set / incremented on the error side of sendInitSegment
	r.Rule("E5-INITFIRST", "media segments are sent only after all init segments were sent successfully", 2)
	ffS := factsOf(start)
	setOnInitError := func(ph *ssa.Phi) bool {
		seen := map[ssa.Value]bool{}
		stack := []ssa.Value{ph}
		for len(stack) > 0 {
			v := stack[len(stack)-1]
			stack = stack[:len(stack)-1]
			if seen[v] {
				continue
			}
			seen[v] = true
			var defBlock *ssa.BasicBlock
			isSet := false
			switch x := v.(type) {
			case *ssa.Phi:
				for i, e := range x.Edges {
					if c, ok := e.(*ssa.Const); ok {
						// a constant true / non-zero assigned on an edge: the assigning block is the predecessor
						if (c.Value != nil && c.Value.Kind() == constant.Bool && constant.BoolVal(c.Value)) {
							pred := x.Block().Preds[i]
							for _, cd := range ffS.dominatingConds(pred) {
								for _, side := range nilTestOperands(cd) {
									if call, ok := side.(*ssa.Call); ok && call.Call.StaticCallee() == sis {
										return true
									}
								}
							}
							if ec, ok := edgeCond(pred, x.Block()); ok {
								for _, side := range nilTestOperands(ec) {
									if call, ok := side.(*ssa.Call); ok && call.Call.StaticCallee() == sis {
										return true
									}
								}
							}
						}
						continue
					}
					stack = append(stack, e)
				}
			case *ssa.BinOp:
				if x.Op == token.ADD {
					isSet, defBlock = true, x.Block()
				}
			}
			if isSet {
				for _, cd := range ffS.dominatingConds(defBlock) {
					for _, side := range nilTestOperands(cd) {
						if call, ok := side.(*ssa.Call); ok && call.Call.StaticCallee() == sis {
							return true
						}
					}
				}
			}
		}
		return false
	}
	// the test: (flag, false side) / (counter > 0, false side) / (counter == 0, true side) / (counter != 0, false side)
	okSide := func(cd cond) bool {
		switch x := cd.V.(type) {
		case *ssa.Phi:
			return !cd.Pos && x.Type().String() == "bool" && setOnInitError(x)
		case *ssa.BinOp:
			ph, isPhi := x.X.(*ssa.Phi)
			k, isConst := constInt(x.Y)
			if !isPhi || !isConst || k != 0 || !setOnInitError(ph) {
				return false
			}
			switch x.Op {
			case token.GTR, token.NEQ:
				return !cd.Pos
			case token.EQL, token.LEQ:
				return cd.Pos
			}
		}
		return false
	}
	nMedia := 0
	for _, s := range callsTo(p, sms) {
		if !inCluster(start, s.Parent()) {
			r.Violate("E5-INITFIRST", shortFn(s.Parent()), "call:sendMediaSegments", p.pos(s.Pos()), "media segments are sent from outside the session loop: ordering after the init segments not analysed", nil)
			continue
		}
		nMedia++
		ok := false
		for _, cd := range effectiveDomConds(s.Block()) {
			if okSide(cd) {
				ok = true
			}
		}
		r.Decide(ok, "E5-INITFIRST", shortFn(start), "call:sendMediaSegments", p.pos(s.Pos()), "dominated by the 'no init error' side of a flag/counter set where sendInitSegment fails",
			"media segments can be sent although an init segment was not delivered: no dominating test of a flag or counter that is set on the error side of sendInitSegment", nil)
	}
	if nMedia == 0 {
		r.Broken("no sendMediaSegments call in the session loop")
	}
	// (c) cancellation
	r.Rule("E5-CANCEL", "session loop selects have a cancellation arm; delete cancels the session on every successful path", 2)
	for _, fn := range []*ssa.Function{start} {
		for _, b := range fn.Blocks {
			for _, in := range b.Instrs {
				sel, ok := in.(*ssa.Select)
				if !ok {
					continue
				}
				hasDone := false
				for _, st := range sel.States {
					if c, ok := st.Chan.(*ssa.Call); ok && c.Call.IsInvoke() && c.Call.Method.Name() == "Done" {
						hasDone = true
					}
				}
				r.Decide(hasDone, "E5-CANCEL", shortFn(fn), "select", p.pos(sel.Pos()), "has a <-ctx.Done() arm",
					"a blocking select of the session loop has no cancellation arm: deleting the session cannot stop it here", nil)
			}
		}
	}
	var del *ssa.Function
	for _, fn := range pkgFuncs(p, pkgApp) {
		if strings.HasPrefix(fn.Name(), "createDeleteCmafIngesterHdlr$") {
			del = fn
		}
	}
	if del == nil {
		r.Broken("delete handler closure not found")
	} else {
		var cancels []ssa.Instruction
		for _, b := range del.Blocks {
			for _, in := range b.Instrs {
				c, ok := in.(*ssa.Call)
				if !ok || c.Call.IsInvoke() || c.Call.StaticCallee() != nil {
					continue
				}
				// dynamic call of a value looked up in the cancels table
				v := c.Call.Value
				if ex, ok := v.(*ssa.Extract); ok {
					v = ex.Tuple
				}
				if lk, ok := v.(*ssa.Lookup); ok {
					if f, ok := loadedField(lk.X); ok && f == "app.cmafIngesterMgr.cancels" {
						cancels = append(cancels, c)
					}
				}
			}
		}
		n := 0
		for _, b := range del.Blocks {
			ret, ok := b.Instrs[len(b.Instrs)-1].(*ssa.Return)
			if !ok || isNilConst(ret.Results[0]) {
				continue
			}
			n++
			ok2 := false
			for _, c := range cancels {
				if instrDominates(c, ret) {
					ok2 = true
				}
			}
			r.Decide(ok2, "E5-CANCEL", shortFn(del), "success-return", p.pos(instrPos(ret)), "a call of the session's cancel function dominates the successful answer",
				"the delete handler can answer 'deleted' without having cancelled the session (cancel is called only under a condition on the session state)", nil)
		}
		if n == 0 {
			r.Broken("delete handler: no successful return found")
		}
	}
	// handler side: a step request must not block on a finished session
	checkChannelOps(p, r, "E3-F2", 1)
	// (d) own timeline entries; shared generator
	r.Rule("E4-OWNREP", "each representation's $Time$ comes from timeline entries generated for that representation; segments come from the shared generator", 3)
	var lastTimeCall *ssa.Call
	for _, b := range sms.Blocks {
		for _, in := range b.Instrs {
			if c, ok := in.(*ssa.Call); ok && c.Call.StaticCallee() != nil && c.Call.StaticCallee().Name() == "lastTime" {
				lastTimeCall = c
			}
		}
	}
	if lastTimeCall == nil {
		r.Violate("E4-OWNREP", shortFn(sms), "lastTime", p.pos(sms.Pos()), "the $Time$ of the segment to send is no longer taken from timeline entries", nil)
	} else {
		// every assignment to the entries variable used for $Time$ is judged on its own
		recv := lastTimeCall.Call.Args[0]
		type assignment struct {
			val ssa.Value
			at  *ssa.BasicBlock
			pos string
		}
		var stores []assignment
		switch x := recv.(type) {
		case *ssa.UnOp:
			if al, ok := x.X.(*ssa.Alloc); ok && x.Op == token.MUL && al.Referrers() != nil {
				for _, ref := range *al.Referrers() {
					if st, ok := ref.(*ssa.Store); ok && st.Addr == ssa.Value(al) {
						stores = append(stores, assignment{st.Val, st.Block(), p.pos(st.Pos())})
					}
				}
			}
		case *ssa.Phi:
			// the variable lives in registers: every incoming edge is an assignment made in (or before) the predecessor
			for i, e := range x.Edges {
				pred := x.Block().Preds[i]
				pos := p.pos(lastTimeCall.Pos())
				if in, ok := e.(ssa.Instruction); ok {
					pos = p.pos(instrPos(in))
				}
				stores = append(stores, assignment{e, pred, pos})
			}
		case *ssa.Call:
			stores = append(stores, assignment{x, x.Block(), p.pos(x.Pos())})
		}
		if len(stores) == 0 {
			r.Violate("E4-OWNREP", shortFn(sms), "entries-source", p.pos(lastTimeCall.Pos()), "the entries used for $Time$ have a shape the rule does not recognise", nil)
		}
		ownCall := func(v ssa.Value, seen map[ssa.Value]bool) (bool, string) {
			// v (through phis) is the result of a timeline generator call that received this representation's id
			var walk func(v ssa.Value) (bool, string)
			walk = func(v ssa.Value) (bool, string) {
				if seen[v] {
					return true, ""
				}
				seen[v] = true
				switch x := v.(type) {
				case *ssa.Phi:
					for _, e := range x.Edges {
						if ok, why := walk(e); !ok {
							return false, why
						}
					}
					return true, ""
				case *ssa.Const:
					return true, "" // the zero value before the first iteration
				case *ssa.Call:
					if x.Call.StaticCallee() != nil && strings.HasPrefix(x.Call.StaticCallee().Name(), "generateTimelineEntries") {
						for _, a := range x.Call.Args {
							if valueReadsField(p, a, "app.cmafRepData.repID") {
								return true, ""
							}
						}
						return false, "the timeline generator call does not receive this representation's id"
					}
				}
				return false, "not the result of a timeline generator call: " + v.String()
			}
			return walk(v)
		}
		for _, st := range stores {
			okSrc, why := false, ""
			if c, isCall := st.val.(*ssa.Call); isCall {
				okSrc, why = ownCall(c, map[ssa.Value]bool{})
			} else {
				// a value carried from elsewhere (the reference's entries): only legitimate for a track without a
				// representation of its own — dominated by a failed lookup of this id in asset.Reps — or when it is
				// this representation's own generator result (first representation = reference)
				if ok, _ := ownCall(st.val, map[ssa.Value]bool{}); ok && !isLoopCarried(st.val) {
					okSrc = true
				}
				for _, cd := range factsOf(sms).dominatingConds(st.at) {
					ex, ok := cd.V.(*ssa.Extract)
					if !ok || ex.Index != 1 || cd.Pos {
						continue
					}
					if lk, ok := ex.Tuple.(*ssa.Lookup); ok && lk.CommaOk {
						if f, ok := loadedField(lk.X); ok && f == "app.asset.Reps" && valueReadsField(p, lk.Index, "app.cmafRepData.repID") {
							okSrc, why = true, "reference entries used only where this id has no representation of its own (generated subtitles)"
						}
					}
				}
				if !okSrc {
					why = "entries carried over from another representation are assigned without testing that this id has no representation of its own"
				}
			}
			if okSrc && why == "" {
				why = "generated for this representation's id"
			}
			r.Decide(okSrc, "E4-OWNREP", shortFn(sms), "entries-source", st.pos, why,
				"a representation's segment time is computed from entries of another representation (other timescale or segment boundaries): "+why, nil)
		}
	}
	callsWS := false
	for _, s := range callsTo(p, ws) {
		if s.Parent() == sm1 {
			callsWS = true
		}
	}
	r.Decide(callsWS, "E4-OWNREP", shortFn(sm1), "calls:writeSegment", p.pos(sm1.Pos()), "media segments are produced by writeSegment, the generator the HTTP handler uses",
		"the ingester no longer produces its segments with writeSegment: what it sends can differ from what livesim2 serves", nil)
	// (e) session tables
	e := sharedE2(p)
	r.Rule("E2-RACE", "ingest-session tables and session state: owning mutex held wherever concurrent API calls or the session goroutine can write", 4)
	e.ruleRace(r, "E2-RACE", func(tid string) bool {
		return tid == "app.cmafIngesterMgr" || tid == "app.cmafIngester"
	})
}

// nilTestOperands: the non-nil operand of a condition "x != nil" that holds (or "x == nil" that does not).
func nilTestOperands(cd cond) []ssa.Value {
	bo, ok := cd.V.(*ssa.BinOp)
	if !ok {
		return nil
	}
	if !((bo.Op == token.NEQ && cd.Pos) || (bo.Op == token.EQL && !cd.Pos)) {
		return nil
	}
	if isNilConst(bo.Y) {
		return []ssa.Value{bo.X}
	}
	if isNilConst(bo.X) {
		return []ssa.Value{bo.Y}
	}
	return nil
}

// isLoopCarried: v is a phi in a loop header (a value from a previous iteration).
func isLoopCarried(v ssa.Value) bool {
	ph, ok := v.(*ssa.Phi)
	return ok && naturalLoop(ph.Block()) != nil
}

func isFloatType(t types.Type) bool {
	b, ok := t.Underlying().(*types.Basic)
	return ok && b.Info()&types.IsFloat != 0
}

func isIntegerType(t types.Type) bool {
	b, ok := t.Underlying().(*types.Basic)
	return ok && b.Info()&types.IsInteger != 0
}
