package main

import (
	"fmt"
	"go/token"
	"strings"

	"golang.org/x/tools/go/ssa"
)

func init() { register("C07", checkC07) }

var contentHandlers = []string{"(*Server).livesimHandlerFunc", "(*Server).patchHandlerFunc", "(*Server).laURLHandlerFunc", "(*Server).vodHandlerFunc"}

func checkC07(p *Program, r *Reporter) {
	r.Explanation = "Static analysis of necessary conditions of C07 over the livesim2 server: (a/b) RACE: every write to server-lifetime state (fields of types reachable from *Server and package variables, and memory reachable from them, " +
		"including bytes that a library object keeps aliasing) performed by code that serves requests, and every access that may run in parallel with such a write, holds the owning type's mutex (must-locksets, thread classes); " +
		"state written at start-up only is read-only while serving and needs no lock; (c) no handler-reachable call of math/rand, crypto/rand or os.Getenv; " +
		"(d) every range over a server-lifetime map whose body leaves the loop early with an element-dependent result is a listed, reviewed instance (map iteration order is random per execution); " +
		"(e) a value obtained from a sync.Pool (or derived from it) is not used after it was put back. Decides these conditions for all histories and interleavings; does not decide byte equality of repeated responses as such."
	r.NotCovered = "byte equality of repeated/concurrent responses; races on request-local objects shared through channels; semantic correctness of synchronised caches"
	r.Assumptions = []string{"origin analysis: objects loaded from server-lifetime fields or created at start-up are shared; library results alias their arguments only for the listed reader/decoder/sync.Map functions",
		"library mutators are the listed ones (sort, json decode, mpd/mp4 Add*/Set*/Append*, EncryptFragment, bytes.Buffer writes)"}
	e := sharedE2(p)
	appTypes := map[string]bool{}
	for tid := range e.stateTypes {
		if strings.HasPrefix(tid, "app.") || strings.HasPrefix(tid, "drm.") || strings.HasPrefix(tid, "internal.") || strings.HasPrefix(tid, "logging.") {
			appTypes[tid] = true
		}
	}
	if len(appTypes) < 10 {
		r.Broken("only %d livesim2 state types found (floor 10)", len(appTypes))
	}
	r.Extra["state_types"] = sortedKeys(appTypes)
	// statistics: serving-phase reads of state that is never written while serving
	ro := map[string]bool{}
	wr := map[string]bool{}
	for _, a := range e.accesses {
		tid := a.field[:strings.LastIndex(a.field, ".")]
		if !appTypes[tid] && !strings.HasPrefix(a.field, "global:app") {
			continue
		}
		if a.write {
			wr[a.field] = true
		} else {
			ro[a.field] = true
		}
	}
	nro := 0
	for f := range ro {
		if !wr[f] {
			nro++
		}
	}
	r.Extra["fields_read_only_while_serving"] = nro
	r.Extra["fields_written_while_serving"] = sortedKeys(wr)
	r.Rule("E2-RACE", "access to livesim2 server state that is written while serving: owning mutex held", 4)
	e.ruleRace(r, "E2-RACE", func(tid string) bool {
		return appTypes[tid] || strings.HasPrefix(tid, "global:app") || strings.HasPrefix(tid, "global:drm") || strings.HasPrefix(tid, "global:logging")
	})
	r.Rule("C07-HISTORY", "request-serving code stores nothing into a sync.Map (a response cache makes answers depend on earlier requests)", 0)
	for _, fn := range p.handlerReachableRepoFuncs() {
		if sideOfPkg(calleePkgPath(fn)) == "recv" {
			continue
		}
		for _, b := range fn.Blocks {
			for _, in := range b.Instrs {
				c, ok := in.(*ssa.Call)
				if !ok || c.Call.StaticCallee() == nil {
					continue
				}
				switch c.Call.StaticCallee().String() {
				case "(*sync.Map).Store", "(*sync.Map).LoadOrStore", "(*sync.Map).Swap", "(*sync.Map).CompareAndSwap":
					r.Violate("C07-HISTORY", shortFn(fn), "call:"+c.Call.StaticCallee().Name()+":"+roleKey(c.Call.Args[0]), p.pos(c.Pos()),
						"request-serving code stores into a sync.Map: what a later request is answered with then depends on which requests came before (race-free, but not a function of URL and time)", nil)
				}
			}
		}
	}
	r.Rule("C07-NONDET", "no handler-reachable call of math/rand, crypto/rand, os.Getenv", 0)
	for _, fn := range p.handlerReachableRepoFuncs() {
		if sideOfPkg(calleePkgPath(fn)) == "recv" {
			continue
		}
		for _, b := range fn.Blocks {
			for _, in := range b.Instrs {
				c, ok := in.(ssa.CallInstruction)
				if !ok {
					continue
				}
				callee := c.Common().StaticCallee()
				if callee == nil {
					continue
				}
				pk := calleePkgPath(callee)
				if pk == "math/rand" || pk == "math/rand/v2" || pk == "crypto/rand" || callee.String() == "os.Getenv" {
					r.Violate("C07-NONDET", shortFn(fn), "call:"+callee.String(), p.pos(c.Pos()), "response path calls a source of non-determinism outside (URL, time)", p.callPath(fn))
				}
			}
		}
	}
	checkMapRangeEarlyExit(p, r, e)
	checkPoolDiscipline(p, r)
}

// reviewed instances of rule (d): function -> reason why the order cannot matter (or why it is accepted)
var mapRangeInstances = map[string]string{
	"(*app.assetMgr).findAsset":   "matches on the asset path; two keys can match only for nested asset directories, which discoverAssets does not produce for the bundled layout (accepted, see DESIGN C07d)",
	"app.matchInit":               "equality on the per-representation init URI, unique within an asset",
	"app.contentTypeFromURL":      "equality on the per-representation init URI, unique within an asset",
	"app.findRepAndSegmentID":     "first regexp match; representation media patterns of one asset are disjoint for the bundled layouts (accepted, see DESIGN C07d)",
	"app.checkQuery":              "exits with a constant on the first mismatch: order-independent result",
	"(*app.channel).addTrData":    "",
}

func checkMapRangeEarlyExit(p *Program, r *Reporter, e *e2) {
	rule := "C07-MAPORDER"
	r.Rule(rule, "range over a server-lifetime map with an element-dependent early exit: reviewed instance", 3)
	for _, fn := range p.handlerReachableRepoFuncs() {
		if sideOfPkg(calleePkgPath(fn)) == "recv" {
			continue
		}
		for _, b := range fn.Blocks {
			for _, in := range b.Instrs {
				rng, ok := in.(*ssa.Range)
				if !ok {
					continue
				}
				if _, isMap := rng.X.Type().Underlying().(interface{ Key() interface{} }); isMap {
				}
				if !strings.HasPrefix(rng.X.Type().Underlying().String(), "map[") {
					continue
				}
				if _, _, shared := e.stateFieldOfAddr(rng.X, 0); !shared {
					continue
				}
				// element-dependent early exit: a Return inside the loop whose results depend on the Next tuple
				if !returnsElementInsideLoop(fn, rng) {
					continue
				}
				construct := "range:" + roleKey(rng.X)
				if why, ok := mapRangeInstances[shortFn(fn)]; ok && why != "" {
					r.Exception(rule, shortFn(fn), construct, p.pos(instrPos(rng)), "reviewed instance: "+why)
				} else {
					r.Violate(rule, shortFn(fn), construct, p.pos(instrPos(rng)),
						"the loop leaves a server-lifetime map early with a result that depends on the element reached first; Go randomises map iteration order per execution, so the response may differ between identical requests", p.callPath(fn))
				}
			}
		}
	}
}

// returnsElementInsideLoop: some Return reachable before the loop's exit returns a value derived from the iteration tuple.
func returnsElementInsideLoop(fn *ssa.Function, rng *ssa.Range) bool {
	// collect values derived from Next(rng)
	derived := map[ssa.Value]bool{}
	var nexts []*ssa.Next
	for _, ref := range *rng.Referrers() {
		if nx, ok := ref.(*ssa.Next); ok {
			nexts = append(nexts, nx)
			derived[nx] = true
		}
	}
	changed := true
	for changed {
		changed = false
		for _, b := range fn.Blocks {
			for _, in := range b.Instrs {
				v, ok := in.(ssa.Value)
				if !ok || derived[v] {
					continue
				}
				for _, op := range in.Operands(nil) {
					if *op != nil && derived[*op] {
						// the ok flag of Next is not an element
						if ex, isEx := in.(*ssa.Extract); isEx && ex.Index == 0 {
							if _, isNx := ex.Tuple.(*ssa.Next); isNx {
								continue
							}
						}
						derived[v] = true
						changed = true
						break
					}
				}
			}
		}
	}
	for _, nx := range nexts {
		loopHead := nx.Block()
		for _, b := range fn.Blocks {
			ret, ok := b.Instrs[len(b.Instrs)-1].(*ssa.Return)
			if !ok || !loopHead.Dominates(b) {
				continue
			}
			// the return must be inside the loop body: the loop header is reachable... approximated by: block is dominated by the header's body successor
			inBody := len(loopHead.Succs) == 2 && loopHead.Succs[0].Dominates(b)
			if !inBody {
				continue
			}
			for _, res := range ret.Results {
				if derived[res] {
					return true
				}
				if _, isConst := res.(*ssa.Const); !isConst {
					// values loaded through derived pointers
					if u, ok := res.(*ssa.UnOp); ok && u.Op == token.MUL && derived[u.X] {
						return true
					}
				}
			}
		}
	}
	return false
}

// checkPoolDiscipline: a value obtained from (*sync.Pool).Get, or derived from it by a method that returns
// memory of the pooled object (Bytes), must not be returned from or used in the function after the Put.
func checkPoolDiscipline(p *Program, r *Reporter) {
	rule := "C07-POOL"
	r.Rule(rule, "object obtained from a sync.Pool is not used (nor handed out) after it was put back", 0)
	for _, fn := range p.allRepoFuncs() {
		for _, b := range fn.Blocks {
			for _, in := range b.Instrs {
				c, ok := in.(*ssa.Call)
				if !ok || c.Call.StaticCallee() == nil || c.Call.StaticCallee().String() != "(*sync.Pool).Get" {
					continue
				}
				// derived values
				derived := map[ssa.Value]bool{c: true}
				changed := true
				for changed {
					changed = false
					for _, b2 := range fn.Blocks {
						for _, in2 := range b2.Instrs {
							v, ok := in2.(ssa.Value)
							if !ok || derived[v] {
								continue
							}
							switch x := in2.(type) {
							case *ssa.TypeAssert:
								if derived[x.X] {
									derived[v], changed = true, true
								}
							case *ssa.Extract:
								if derived[x.Tuple] {
									derived[v], changed = true, true
								}
							case *ssa.Call:
								if callee := x.Call.StaticCallee(); callee != nil && len(x.Call.Args) > 0 && derived[x.Call.Args[0]] {
									if n := callee.Name(); n == "Bytes" || n == "String" && false {
										derived[v], changed = true, true
									}
								}
							case *ssa.Slice:
								if derived[x.X] {
									derived[v], changed = true, true
								}
							case *ssa.UnOp:
								// load of a local (result) variable that holds a derived value
								if al, ok := x.X.(*ssa.Alloc); ok && x.Op == token.MUL && al.Referrers() != nil {
									for _, ref := range *al.Referrers() {
										if st, ok := ref.(*ssa.Store); ok && st.Addr == ssa.Value(al) && derived[st.Val] {
											derived[v], changed = true, true
										}
									}
								}
							}
						}
					}
				}
				deferredPut := false
				var puts []ssa.Instruction
				for _, b2 := range fn.Blocks {
					for _, in2 := range b2.Instrs {
						ci, ok := in2.(ssa.CallInstruction)
						if !ok || ci.Common().StaticCallee() == nil || ci.Common().StaticCallee().String() != "(*sync.Pool).Put" {
							continue
						}
						isOurs := false
						for _, a := range ci.Common().Args {
							if mi, ok := a.(*ssa.MakeInterface); ok && derived[mi.X] {
								isOurs = true
							}
							if derived[a] {
								isOurs = true
							}
						}
						if !isOurs {
							continue
						}
						if _, isDefer := in2.(*ssa.Defer); isDefer {
							deferredPut = true
						} else {
							puts = append(puts, in2)
						}
					}
				}
				construct := "pool.Get"
				pos := p.pos(instrPos(c))
				bad := ""
				for _, b2 := range fn.Blocks {
					for _, in2 := range b2.Instrs {
						if ret, ok := in2.(*ssa.Return); ok && deferredPut {
							for _, res := range ret.Results {
								if derived[res] {
									bad = "memory of the pooled object is returned at " + p.pos(instrPos(ret)) + " although the deferred Put hands the object back on return"
								}
							}
						}
						for _, put := range puts {
							if in2 == put || !instrDominates(put, in2) {
								continue
							}
							for _, op := range in2.Operands(nil) {
								if *op != nil && derived[*op] {
									bad = "the pooled object is used at " + p.pos(instrPos(in2)) + " after the Put at " + p.pos(instrPos(put))
								}
							}
						}
					}
				}
				r.Decide(bad == "", rule, shortFn(fn), construct, pos, "no use of the pooled object after Put", fmt.Sprintf("sync.Pool discipline broken: %s", bad), nil)
			}
		}
	}
}
