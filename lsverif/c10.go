package main

import (
	"fmt"
	"go/token"
	"strings"

	"golang.org/x/tools/go/ssa"
)

func init() { register("C10", checkC10) }

// localFieldLoads: struct fields loaded in the local backward slice of v.
func localFieldLoads(p *Program, v ssa.Value) map[string]bool {
	return fieldLeavesOf(p, v)
}

func checkC10(p *Program, r *Reporter) {
	errDiscByName(p, r, pkgApp, "encryptFrags", "matchInit")
	r.Explanation = "Static analysis of structural necessary conditions of C10: (a) key derivation: the licence handler and the encryptor obtain the key from the key id through the same function, the constants of the derivation are used by no other function, and the key stored with a representation is derived from the very key id stored with it; " +
		"(b) the key id announced in the MPD and the key id written into the init segment come from the same derivation, which either ignores its argument or is given the same source at both sites; " +
		"(c) CPIX: MPD, init segment and fragment encryption select the content key through the same lookup, keyed by the content type of the adaptation set / representation being processed (never by the reference representation's); " +
		"(d) every fragment encryption and every on-the-fly init protection is dominated by a non-nil test of the representation's encryption data (pre-encrypted and non-encryptable representations are refused), and the MPD's ContentProtection elements are created only after the pre-encrypted test. " +
		"Decryption yielding the clear segment is not decided."
	r.NotCovered = "decrypting served segments and comparing with the clear segment; PSSH/licence contents of external DRM systems"
	r.Assumptions = []string{"dependence slices over-approximate: a missing dependence is definite", "mp4ff encryption functions are trusted"}
	kfs := p.mustFunc(r, pkgApp, "kidFromString")
	kfk := p.mustFunc(r, pkgApp, "keyFromKid")
	k2k := p.mustFunc(r, pkgApp, "kidToKey")
	la := p.mustFunc(r, pkgApp, "(*Server).laURLHandlerFunc")
	live := p.mustFunc(r, pkgApp, "LiveMPD")
	if kfs == nil || kfk == nil || k2k == nil || la == nil || live == nil {
		return
	}
	// (a) key derivation
	r.Rule("E4-KEYDERIV", "licence server and encryptor derive the key from the key id by the same function", 4)
	for _, gname := range []string{"keyStart", "kidStart"} {
		users := map[string]bool{}
		for _, fn := range livesimFuncs(p) {
			for _, b := range fn.Blocks {
				for _, in := range b.Instrs {
					for _, op := range in.Operands(nil) {
						if g, ok := (*op).(*ssa.Global); ok && g.Name() == gname && calleePkgPath(fn) == pkgApp {
							users[shortFn(fn)] = true
						}
					}
				}
			}
		}
		allowed := map[string]bool{"app.keyFromKid": true, "app.keyToKid": true, "app.kidFromString": true, "app.init": true}
		var extra []string
		for u := range users {
			if !allowed[u] {
				extra = append(extra, u)
			}
		}
		sortStrings(extra)
		r.Decide(len(extra) == 0 && len(users) > 0, "E4-KEYDERIV", "app."+gname, "users", "-", fmt.Sprintf("used only by the derivation functions (%d users)", len(users)),
			"the key/key-id prefix constant "+gname+" is used outside the derivation functions, by "+strings.Join(extra, ", ")+": a second key derivation can disagree with the licence server's", nil)
	}
	// the licence answer's key comes from keyFromKid
	laOK := false
	var laCall ssa.CallInstruction
	for _, s := range callsTo(p, kfk) {
		if s.Parent() == la {
			laOK = true
			laCall = s
		}
	}
	if !laOK {
		r.Violate("E4-KEYDERIV", shortFn(la), "calls:keyFromKid", p.pos(la.Pos()), "the licence handler does not derive the key with keyFromKid, the function the encryptor uses", nil)
	} else {
		// the K field of the answer depends on that call's result
		found := false
		for _, b := range la.Blocks {
			for _, in := range b.Instrs {
				st, ok := in.(*ssa.Store)
				if !ok {
					continue
				}
				if f, ok := fieldOfAddr(st.Addr); ok && f == "app.CCPKey.K" {
					found = true
					q := newDepQuery(p, func(v ssa.Value) bool {
						ex, ok := v.(*ssa.Extract)
						return ok && ex.Tuple == laCall.Value() && ex.Index == 0
					})
					q.noParams = true
					r.Decide(q.depends(st.Val, 0), "E4-KEYDERIV", shortFn(la), "store:CCPKey.K", p.pos(st.Pos()), "the key in the licence answer is the result of keyFromKid",
						"the key in the licence answer is not computed from keyFromKid's result", nil)
				}
			}
		}
		if !found {
			r.Violate("E4-KEYDERIV", shortFn(la), "store:CCPKey.K", p.pos(la.Pos()), "no store to the key field of the licence answer found", nil)
		}
	}
	// stored key derived from stored key id
	for _, fn := range livesimFuncs(p) {
		for _, b := range fn.Blocks {
			var kidStore, keyStore *ssa.Store
			for _, in := range b.Instrs {
				if st, ok := in.(*ssa.Store); ok {
					if f, ok := fieldOfAddr(st.Addr); ok {
						switch f {
						case "app.repEncData.keyID":
							kidStore = st
						case "app.repEncData.key":
							keyStore = st
						}
					}
				}
			}
			if keyStore == nil {
				continue
			}
			ok, why := false, "the stored key is not the result of kidToKey/keyFromKid"
			if c, isCall := keyStore.Val.(*ssa.Call); isCall && (c.Call.StaticCallee() == k2k || c.Call.StaticCallee() == kfk) {
				if kidStore != nil && c.Call.Args[0] == kidStore.Val {
					ok, why = true, "key = kidToKey(kid) with the key id stored beside it"
				} else {
					why = "the key is derived from another key id than the one stored with the representation (and announced in the init segment)"
				}
			}
			r.Decide(ok, "E4-KEYDERIV", shortFn(fn), "store:repEncData.key", p.pos(keyStore.Pos()), why, why, nil)
		}
	}
	// (b) kid derivation
	r.Rule("E4-KID", "key id in the MPD and in the init segment: same derivation, same source (or a derivation that ignores its argument)", 2)
	var prm *ssa.Parameter
	if len(kfs.Params) == 1 {
		prm = kfs.Params[0]
	}
	ignores := false
	if prm != nil {
		ignores = true
		for _, b := range kfs.Blocks {
			if ret, ok := b.Instrs[len(b.Instrs)-1].(*ssa.Return); ok {
				for _, res := range ret.Results {
					if localDependsOnParam(p, res, prm) {
						ignores = false
					}
				}
			}
		}
	}
	var mpdSite, initSite ssa.CallInstruction
	addEnc := p.lookupFunc(pkgApp, "(*RepData).addEncryption")
	for _, s := range callsTo(p, kfs) {
		switch {
		case inCluster(live, s.Parent()):
			mpdSite = s
		case addEnc != nil && inCluster(addEnc, s.Parent()):
			initSite = s
		}
	}
	// DefaultKID stores in the ClearKey branch come from kidFromString
	nKID := 0
	var liveBlocks []*ssa.BasicBlock
	for _, cf := range cluster(live) {
		liveBlocks = append(liveBlocks, cf.Blocks...)
	}
	for _, b := range liveBlocks {
		for _, in := range b.Instrs {
			st, ok := in.(*ssa.Store)
			if !ok {
				continue
			}
			if f, ok := fieldOfAddr(st.Addr); !ok || f != "mpd.ContentProtectionType.DefaultKID" {
				continue
			}
			nKID++
			fromKfs := mpdSite != nil && newDepQueryLocal(p, func(v ssa.Value) bool { return v == mpdSite.Value() }).depends(st.Val, 0)
			fromCPIX := valueDependsOnField(p, st.Val, "drm.ContentKey.KeyID")
			r.Decide(fromKfs || fromCPIX, "E4-KID", shortFn(live), "store:DefaultKID", p.pos(st.Pos()), "default_KID comes from kidFromString (ClearKey) or from the CPIX content key",
				"the default_KID announced in the MPD comes neither from kidFromString nor from the CPIX content key", nil)
		}
	}
	if nKID == 0 {
		r.Broken("no store to ContentProtection.DefaultKID found in LiveMPD")
	}
	switch {
	case mpdSite == nil || initSite == nil:
		r.Violate("E4-KID", shortFn(kfs), "sites", p.pos(kfs.Pos()), "kidFromString is not called by both the MPD generator and the init-segment protection: the two key ids come from different derivations", nil)
	case ignores:
		r.Discharge("E4-KID", shortFn(kfs), "sites", p.pos(kfs.Pos()), "both sites call kidFromString, whose result does not depend on its argument (constant key id): the two key ids are equal whatever the arguments")
	default:
		a1 := localFieldLoads(p, mpdSite.Common().Args[0])
		a2 := localFieldLoads(p, initSite.Common().Args[0])
		same := len(a1) > 0 && fmt.Sprint(keysOf(a1)) == fmt.Sprint(keysOf(a2))
		r.Decide(same, "E4-KID", shortFn(kfs), "sites", p.pos(mpdSite.Pos()), "both call sites pass the same source",
			fmt.Sprintf("kidFromString depends on its argument, and the MPD generator passes %v while the init-segment protection passes %v: the announced default_KID differs from the one in the init segment", keysOf(a1), keysOf(a2)), nil)
	}
	// (c) CPIX key selection
	r.Rule("E4-CPIX", "CPIX content key selected by the content type of the object being processed, through the same lookup at all three sites", 3)
	gck := p.lookupFunc("github.com/Dash-Industry-Forum/livesim2/pkg/drm", "(*CPIXData).GetContentKey")
	if gck == nil {
		r.Broken("pkg/drm (*CPIXData).GetContentKey not found")
	} else {
		want := map[string]string{"app.LiveMPD": "mpd.AdaptationSetType.ContentType", "app.matchInit": "app.RepData.ContentType", "app.encryptFrags": "app.RepData.ContentType"}
		seen := map[string]bool{}
		roleOf := func(fn *ssa.Function) string {
			for role := range want {
				if anchor := p.lookupFunc(pkgApp, strings.TrimPrefix(role, "app.")); anchor != nil && inCluster(anchor, fn) {
					return role
				}
			}
			return shortFn(fn)
		}
		for _, s := range callsTo(p, gck) {
			fn := roleOf(s.Parent())
			if sideOfPkg(calleePkgPath(s.Parent())) == "recv" {
				continue
			}
			seen[fn] = true
			args := s.Common().Args
			loads := localFieldLoads(p, args[len(args)-1])
			w, known := want[fn]
			switch {
			case !known:
				r.Violate("E4-CPIX", fn, "GetContentKey.arg", p.pos(s.Pos()), "a further content-key lookup site that is not in the reviewed table (MPD, init segment, fragment encryption)", nil)
			case loads["app.asset.refRep"]:
				r.Violate("E4-CPIX", fn, "GetContentKey.arg", p.pos(s.Pos()), "the content key is selected by the reference representation's content type instead of the content type of the "+map[bool]string{true: "adaptation set", false: "representation"}[fn == "app.LiveMPD"]+" being processed: audio and video get the same key id here but not at the other sites", nil)
			case !loads[w]:
				r.Violate("E4-CPIX", fn, "GetContentKey.arg", p.pos(s.Pos()), "the content-key lookup is not keyed by "+w, nil)
			default:
				r.Discharge("E4-CPIX", fn, "GetContentKey.arg", p.pos(s.Pos()), "keyed by "+w+" of the object being processed")
			}
		}
		for fn := range want {
			if !seen[fn] {
				r.Violate("E4-CPIX", fn, "GetContentKey.arg", "-", "this site no longer selects the CPIX key through GetContentKey", nil)
			}
		}
	}
	// (d) refusal before encryption
	r.Rule("E5-ENCGUARD", "encryption calls dominated by a non-nil test of the representation's encryption data; ContentProtection only after the pre-encrypted test", 3)
	guardNonNil := func(in ssa.Instruction, field string) bool {
		for _, cd := range condsAt(in) {
			bo, ok := cd.V.(*ssa.BinOp)
			if !ok || (bo.Op != token.EQL && bo.Op != token.NEQ) {
				continue
			}
			var ptr ssa.Value
			if isNilConst(bo.Y) {
				ptr = bo.X
			} else if isNilConst(bo.X) {
				ptr = bo.Y
			} else {
				continue
			}
			if f, ok := loadedField(ptr); ok && f == field && ((bo.Op == token.NEQ) == cd.Pos) {
				return true
			}
		}
		return false
	}
	genEnc := p.mustFunc(r, pkgApp, "genEncInit")
	for _, fn := range livesimFuncs(p) {
		if _, serving := p.reachH[fn]; !serving {
			continue
		}
		for _, b := range fn.Blocks {
			for _, in := range b.Instrs {
				c, ok := in.(*ssa.Call)
				if !ok || c.Call.StaticCallee() == nil {
					continue
				}
				callee := c.Call.StaticCallee()
				isEnc := callee.String() == "github.com/Eyevinn/mp4ff/mp4.EncryptFragment" || callee == genEnc
				if !isEnc {
					continue
				}
				if fn == genEnc {
					continue
				}
				r.Decide(guardNonNil(c, "app.RepData.encData"), "E5-ENCGUARD", shortFn(fn), "call:"+shortFn(callee), p.pos(c.Pos()), "dominated by encData != nil",
					"encryption is attempted without testing the representation's encryption data: pre-encrypted or non-encryptable representations are encrypted (again) or crash instead of being refused", nil)
			}
		}
	}
	encryptsFreshMemory(p, r)
	// ContentProtection appends in LiveMPD are dominated by !PreEncrypted
	for _, b := range liveBlocks {
		for _, in := range b.Instrs {
			st, ok := in.(*ssa.Store)
			if !ok {
				continue
			}
			if f, ok := fieldOfAddr(st.Addr); !ok || !strings.HasSuffix(f, ".ContentProtections") {
				continue
			}
			okGuard := false
			for _, cd := range effectiveDomConds(st.Block()) {
				if f, ok := loadedField(cd.V); ok && f == "app.RepData.PreEncrypted" && !cd.Pos {
					okGuard = true
				}
			}
			r.Decide(okGuard, "E5-ENCGUARD", shortFn(live), "store:ContentProtections", p.pos(st.Pos()), "dominated by the pre-encrypted test",
				"ContentProtection is announced without the pre-encrypted test: a DRM request on a pre-encrypted asset is not refused", nil)
		}
	}
}

// encryptsFreshMemory: in-place fragment encryption must not reach bytes that server-lifetime state keeps referencing.
func encryptsFreshMemory(p *Program, r *Reporter) {
	r.Rule("E2-ENCRYPT-FRESH", "in-place fragment encryption never writes bytes that server-lifetime state still references (cached or pooled segment data)", 1)
	e := sharedE2(p)
	n := 0
	for _, fn := range livesimFuncs(p) {
		for _, b := range fn.Blocks {
			for _, in := range b.Instrs {
				c, ok := in.(*ssa.Call)
				if !ok || c.Call.StaticCallee() == nil || c.Call.StaticCallee().String() != "github.com/Eyevinn/mp4ff/mp4.EncryptFragment" {
					continue
				}
				n++
				bad := ""
				for _, a := range e.accesses {
					if a.instr == ssa.Instruction(c) && a.write {
						bad = a.field
					}
				}
				r.Decide(bad == "", "E2-ENCRYPT-FRESH", shortFn(fn), "call:EncryptFragment", p.pos(c.Pos()), "the fragment's sample data is request-local (read or decoded for this request)",
					"the fragment encrypted in place aliases bytes held by server state "+bad+": ciphertext is left in the shared copy and later clear or DRM responses for the same segment are wrong", nil)
			}
		}
	}
	if n == 0 {
		r.Broken("no EncryptFragment call found")
	}
	// the per-representation encryption parameters built at load time (key, IV, protection data) are read-only while serving
	if cs := p.mustFunc(r, pkgApp, "chunkSegment"); cs != nil {
		appendSiblingsRule(p, r, cs, "app.chunk")
	}
	if w := p.mustFunc(r, pkgApp, "writeChunkedSegment"); w != nil {
		encryptBeforeWriteRule(p, r, w)
	}
	encDataRefusalRule(p, r)
	if la := p.mustFunc(r, pkgApp, "(*Server).laURLHandlerFunc"); la != nil {
		respondOnceRule(p, r, la, 3)
	}
	r.Rule("E2-ENCPARAMS-RO", "key, IV and protection data of a representation are never written by request-serving code", 0)
	reads, writes := 0, 0
	seen := map[string]bool{}
	for _, a := range e.accesses {
		if !strings.HasPrefix(a.field, "app.repEncData.") && !strings.HasPrefix(a.field, "app.initEncData.") && a.field != "global:app.defaultIV" {
			continue
		}
		if !a.write {
			reads++
			continue
		}
		writes++
		k := shortFn(a.fn) + "|" + a.field
		if seen[k] {
			continue
		}
		seen[k] = true
		r.Violate("E2-ENCPARAMS-RO", shortFn(a.fn), a.kind()+":"+a.field, p.pos(instrPos(a.instr)),
			"request-serving code writes "+a.field+", which every later request (and the init segment generated at load time) relies on: ciphertext no longer matches the announced key/IV", nil)
	}
	if writes == 0 {
		r.Discharge("E2-ENCPARAMS-RO", "app.repEncData", "serving-phase-writes", "-", fmt.Sprintf("%d serving-phase reads, no writes", reads))
	}
	if reads == 0 {
		r.Broken("no serving-phase access to the encryption parameters found")
	}
}

func newDepQueryLocal(p *Program, target func(ssa.Value) bool) *depQuery {
	q := newDepQuery(p, target)
	q.noParams = true
	return q
}

func keysOf(m map[string]bool) []string {
	var out []string
	for k := range m {
		out = append(out, k)
	}
	sortStrings(out)
	return out
}
