// Reproduction: a session with a duration of N segment durations sends N+1 media segments.
// go test -vet=off -run TestProbeC16DurationSegmentCount ./cmd/livesim2/app
package app

import (
	"context"
	"io"
	"net/http"
	"net/http/httptest"
	"regexp"
	"sync"
	"testing"
	"time"

	"github.com/Dash-Industry-Forum/livesim2/pkg/logging"
	"github.com/Eyevinn/dash-mpd/mpd"
)

func TestProbeC16DurationSegmentCount(t *testing.T) {
	cfg := ServerConfig{VodRoot: "testdata/assets", TimeoutS: 0, LogFormat: logging.LogDiscard}
	_ = logging.InitSlog(cfg.LogLevel, cfg.LogFormat)
	server, err := SetupServer(context.Background(), &cfg)
	if err != nil {
		t.Fatal(err)
	}
	mediaRe := regexp.MustCompile(`^/dst/V300/(\d+)\.cmfv$`)
	for _, durS := range []int{2, 4, 6} {
		var mu sync.Mutex
		n := 0
		rs := httptest.NewServer(http.HandlerFunc(func(w http.ResponseWriter, r *http.Request) {
			_, _ = io.ReadAll(r.Body)
			if mediaRe.MatchString(r.URL.Path) {
				mu.Lock()
				n++
				mu.Unlock()
			}
			w.WriteHeader(http.StatusOK)
		}))
		setup := CmafIngesterSetup{DestRoot: rs.URL, DestName: "dst", URL: "/livesim2/testpic_2s/Manifest.mpd",
			TestNowMS: mpd.Ptr(100000), Duration: mpd.Ptr(durS)}
		id, err := server.cmafMgr.NewCmafIngester(setup)
		if err != nil {
			t.Fatal(err)
		}
		server.cmafMgr.startIngester(id)
		ci := server.cmafMgr.ingesters[id]
		for i := 0; i < durS/2+3; i++ {
			ci.triggerNextSegment()
		}
		select {
		case <-ci.done:
		case <-time.After(10 * time.Second):
			t.Fatalf("duration %d: session did not stop", durS)
		}
		rs.Close()
		if n != durS/2 {
			t.Errorf("duration %d s on 2 s segments: %d video segments sent, want %d", durS, n, durS/2)
		}
	}
}
