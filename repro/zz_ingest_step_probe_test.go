// Reproduction: a step request for an ingest session whose loop has ended blocks forever
// (package app of cmd/livesim2). go test -vet=off -run TestProbeStepAfterSessionEnd ./cmd/livesim2/app
package app

import (
	"context"
	"testing"
	"time"

	"github.com/Dash-Industry-Forum/livesim2/pkg/logging"
)

func TestProbeStepAfterSessionEnd(t *testing.T) {
	cfg := ServerConfig{VodRoot: "testdata/assets", TimeoutS: 0, LogFormat: logging.LogDiscard}
	_ = logging.InitSlog(cfg.LogLevel, cfg.LogFormat)
	s, err := SetupServer(context.Background(), &cfg)
	if err != nil {
		t.Fatal(err)
	}
	s.cmafMgr.Start()
	now := 100000
	nr, err := s.cmafMgr.NewCmafIngester(CmafIngesterSetup{
		DestRoot:  "http://127.0.0.1:1", // nothing listens: the init upload fails and the session loop ends
		DestName:  "x",
		URL:       "/livesim2/testpic_2s/Manifest.mpd",
		TestNowMS: &now,
	})
	if err != nil {
		t.Fatal(err)
	}
	s.cmafMgr.startIngester(nr)
	ci := s.cmafMgr.ingesters[nr]
	deadline := time.Now().Add(10 * time.Second)
	for ci.state != ingesterStateStopped && time.Now().Before(deadline) {
		time.Sleep(20 * time.Millisecond)
	}
	if ci.state != ingesterStateStopped {
		t.Skip("session did not end")
	}
	done := make(chan struct{})
	go func() { ci.triggerNextSegment(); close(done) }() // what the step handler does
	select {
	case <-done:
	case <-time.After(2 * time.Second):
		t.Fatal("step request on an ended session never returns")
	}
}
