package main

import (
	"fmt"
	"go/token"
	"go/types"
	"reflect"
	"sort"
	"strings"

	"golang.org/x/tools/go/ssa"
)

func init() { register("C15", checkC15) }

// persistedFields: exported fields of the struct whose json tag is not "-" (what encoding/json writes and reads back).
func persistedFields(n *types.Named) (persisted map[string]bool, all []string) {
	persisted = map[string]bool{}
	st, ok := n.Underlying().(*types.Struct)
	if !ok {
		return
	}
	for i := 0; i < st.NumFields(); i++ {
		f := st.Field(i)
		id := typeID(n) + "." + f.Name()
		all = append(all, id)
		tag := reflect.StructTag(st.Tag(i)).Get("json")
		name := strings.Split(tag, ",")[0]
		if f.Exported() && name != "-" {
			persisted[id] = true
		}
	}
	return
}

func checkC15(p *Program, r *Reporter) {
	errDiscByName(p, r, pkgApp, "(*assetMgr).discoverAssets", "(*assetMgr).loadAsset")
	r.Explanation = "Static analysis of structural necessary conditions of C15: (a) persisted-or-rederived: every field of the representation/segment records that request-serving code reads is either written to and read from the metadata file by encoding/json (exported, tag not '-') or stored by the step that the cache-load path runs after decoding; " +
		"(b) publication after validation: a representation is entered into the served table only after the loader's error test, the zero-segment test and the audio sample-duration test; the MPD is entered last (no error exit reachable afterwards); an asset whose consolidation fails is deleted from the served table; " +
		"(c) admission: the loop-duration integrality test and the equal-duration test end in an error, and the equal-duration test is applied to every representation of the reference content type, not only to pre-encrypted ones; " +
		"(d) the gzip-compressed metadata file is read to its end (so that the checksum is verified) and every error of the read/decode chain is returned. " +
		"Equality of served bytes between a scanning and a cache-loading server, idempotent writing and contiguity of the loaded table are not decided."
	r.NotCovered = "byte equality of responses (scan vs cache), idempotence of writing, contiguity of loaded segment tables, behaviour on semantically wrong but well-formed cache content"
	r.Assumptions = []string{"encoding/json persists exactly the exported fields whose tag is not \"-\"", "serving phase = functions reachable from handler and goroutine roots (VTA call graph)"}
	load := p.mustFunc(r, pkgApp, "(*assetMgr).loadAsset")
	disc := p.mustFunc(r, pkgApp, "(*assetMgr).discoverAssets")
	cons := p.mustFunc(r, pkgApp, "(*asset).consolidateAsset")
	lfj := p.mustFunc(r, pkgApp, "(*RepData).loadFromJSON")
	rederive := p.mustFunc(r, pkgApp, "(*RepData).addRegExpAndInit")
	if load == nil || disc == nil || cons == nil || lfj == nil || rederive == nil {
		return
	}
	// (a) E6
	r.Rule("E6-PERSIST", "field read while serving: persisted by encoding/json or re-derived on the cache-load path", 10)
	// the cache-load path must run the re-derivation step after decoding
	callsRederive := false
	for _, s := range callsTo(p, rederive) {
		if s.Parent() == lfj {
			callsRederive = true
		}
	}
	r.Decide(callsRederive, "E6-PERSIST", shortFn(lfj), "calls:addRegExpAndInit", p.pos(lfj.Pos()), "the cache-load path runs the re-derivation step",
		"the cache-load path no longer runs addRegExpAndInit: unpersisted fields stay empty for cache-loaded representations", nil)
	rederived := map[string]bool{}
	for fn := range p.reachableFrom(rederive) {
		for _, b := range fn.Blocks {
			for _, in := range b.Instrs {
				if st, ok := in.(*ssa.Store); ok {
					if f, ok := fieldOfAddr(st.Addr); ok {
						rederived[f] = true
					}
				}
			}
		}
	}
	for _, tn := range []string{"RepData", "Segment"} {
		n := p.lookupType(pkgApp, tn)
		if n == nil {
			r.Broken("type %s not found", tn)
			continue
		}
		pers, all := persistedFields(n)
		readIn := map[string]string{}
		for fn := range p.reachH {
			if !p.isRepoFunc(fn) || sideOfPkg(calleePkgPath(fn)) == "recv" {
				continue
			}
			for _, b := range fn.Blocks {
				for _, in := range b.Instrs {
					v, ok := in.(ssa.Value)
					if !ok {
						continue
					}
					if f, ok := loadedField(v); ok {
						f = strings.TrimSuffix(f, "*")
						if _, seen := readIn[f]; !seen {
							readIn[f] = shortFn(fn) + " at " + p.pos(instrPos(in))
						}
					}
					// address taken of a field (passed on / ranged over) counts as a read
					if fa, ok := in.(*ssa.FieldAddr); ok {
						f := structFieldOf(fa.X.Type(), fa.Field)
						isStoreOnly := true
						if fa.Referrers() != nil {
							for _, ref := range *fa.Referrers() {
								if st, ok := ref.(*ssa.Store); !ok || st.Addr != ssa.Value(fa) {
									isStoreOnly = false
								}
							}
						}
						if !isStoreOnly {
							if _, seen := readIn[f]; !seen {
								readIn[f] = shortFn(fn) + " at " + p.pos(instrPos(in))
							}
						}
					}
				}
			}
		}
		sort.Strings(all)
		for _, f := range all {
			where, read := readIn[f]
			switch {
			case !read:
				r.OutOfScope("E6-PERSIST", f, "field", "-", "not read by request-serving code")
			case pers[f]:
				r.Discharge("E6-PERSIST", f, "field", "-", "persisted by encoding/json (exported, tag not \"-\"); read in "+where)
			case rederived[f]:
				if bad := guardedByUnsetPersisted(p, rederive, f, pers); bad != "" {
					r.Violate("E6-PERSIST", f, "field", "-", "not persisted, and on the cache-load path it is set only under "+bad+", i.e. only while a persisted field is still unset: a representation decoded from the metadata file has that field set, so the value is never derived for it (read in "+where+")", nil)
					continue
				}
				r.Discharge("E6-PERSIST", f, "field", "-", "not persisted, stored by addRegExpAndInit or its callees on the cache-load path; read in "+where)
			default:
				r.Violate("E6-PERSIST", f, "field", "-", "read while serving ("+where+") but neither persisted in the metadata file nor set by the cache-load path: a cache-loading server serves with an empty value where a scanning server has the real one", nil)
			}
		}
	}
	// write mode regenerates: the metadata file is read only when write mode is off
	r.Rule("E5-WRITEMODE", "in write mode existing metadata files are not read back (they are regenerated from the segments)", 1)
	nLoad := 0
	for _, s := range callsTo(p, lfj) {
		nLoad++
		okW := false
		for _, cd := range effectiveCDeps(s.Block(), true) {
			v := cd.V
			pos := cd.Pos
			if u, ok := v.(*ssa.UnOp); ok && u.Op == token.NOT {
				v, pos = u.X, !pos
			}
			if f, ok := loadedField(v); ok && f == "app.assetMgr.writeRepData" && !pos {
				okW = true
			}
		}
		r.Decide(okW, "E5-WRITEMODE", shortFn(s.Parent()), "call:loadFromJSON", p.pos(s.Pos()), "the cache is read only under !writeRepData",
			"an existing metadata file is read back even in write mode: a stale or damaged file is never regenerated, and servers started from it keep serving the old segment table", nil)
	}
	if nLoad == 0 {
		r.Violate("E5-WRITEMODE", shortFn(lfj), "call:loadFromJSON", p.pos(lfj.Pos()), "the metadata file is never read", nil)
	}
	// the scan fills a fresh representation: after a cache file was found (ok flag true) the same object is
	// never handed to the segment scan, whatever the decode error was (json.Unmarshal leaves the fields it
	// managed to decode, so a fall-back scan would append to a half-filled segment table)
	r.Rule("E5-CLEANSCAN", "segments are scanned into the representation only when no metadata file was found for it", 1)
	for _, s := range callsTo(p, lfj) {
		call, ok := s.(*ssa.Call)
		if !ok || call.Referrers() == nil {
			continue
		}
		var okFlag ssa.Value
		for _, ref := range *call.Referrers() {
			if ex, isEx := ref.(*ssa.Extract); isEx && ex.Index == 0 {
				okFlag = ex
			}
		}
		fn := s.Parent()
		// blocks reachable from the call without taking the 'not found' edge of a test of the flag
		reach := map[*ssa.BasicBlock]bool{}
		work := []*ssa.BasicBlock{s.Block()}
		first := true
		for len(work) > 0 {
			x := work[0]
			work = work[1:]
			if !first {
				if reach[x] {
					continue
				}
				reach[x] = true
			}
			first = false
			skip := -1
			if ifi, isIf := x.Instrs[len(x.Instrs)-1].(*ssa.If); isIf && okFlag != nil {
				v, neg := ifi.Cond, false
				if u, isU := v.(*ssa.UnOp); isU && u.Op == token.NOT {
					v, neg = u.X, true
				}
				if v == okFlag {
					skip = 1 // the false edge: no file found
					if neg {
						skip = 0
					}
				}
			}
			for i, succ := range x.Succs {
				if i != skip {
					work = append(work, succ)
				}
			}
		}
		for _, b := range fn.Blocks {
			if !reach[b] {
				continue
			}
			for _, in := range b.Instrs {
				st, isSt := in.(*ssa.Store)
				if !isSt {
					continue
				}
				if f, isF := fieldOfAddr(st.Addr); !isF || f != "app.RepData.Segments" {
					continue
				}
				r.Violate("E5-CLEANSCAN", shortFn(fn), "store:RepData.Segments", p.pos(st.Pos()),
					"the segment scan appends to a representation that the metadata decoder may already have filled in part: it can be reached from the cache read without passing the 'no file found' edge (a damaged file gives a doubled or mixed segment table instead of leaving the asset out)", nil)
			}
		}
		nScan := 0
		for _, b := range fn.Blocks {
			for _, in := range b.Instrs {
				if st, isSt := in.(*ssa.Store); isSt {
					if f, isF := fieldOfAddr(st.Addr); isF && f == "app.RepData.Segments" && !reach[b] {
						nScan++
					}
				}
			}
		}
		r.Decide(nScan > 0 && okFlag != nil, "E5-CLEANSCAN", shortFn(fn), "scan-behind-not-found", p.pos(s.Pos()), "every scan store lies behind the 'no file found' edge of the cache read",
			"no segment scan behind the found-flag of the cache read was recognised", nil)
	}
	if wtj := p.mustFunc(r, pkgApp, "(*RepData).writeToJSON"); wtj != nil {
		truncRule(p, r, wtj)
	}
	// (b) publication after validation
	r.Rule("E5-PUBLISH", "representation and MPD registered only after every load-time check; failed consolidation deletes the asset", 5)
	ffL := factsOf(load)
	var repUpd, mpdUpd *ssa.MapUpdate
	for _, b := range load.Blocks {
		for _, in := range b.Instrs {
			if mu, ok := in.(*ssa.MapUpdate); ok {
				if f, ok := loadedField(mu.Map); ok {
					switch f {
					case "app.asset.Reps":
						repUpd = mu
					case "app.asset.MPDs":
						mpdUpd = mu
					}
				}
			}
		}
	}
	if repUpd == nil || mpdUpd == nil {
		r.Violate("E5-PUBLISH", shortFn(load), "registration-sites", p.pos(load.Pos()), "loadAsset no longer registers representations and MPDs itself: publication order not analysable", nil)
	} else {
		conds := ffL.dominatingConds(repUpd.Block())
		hasErr, hasLen := false, false
		for _, cd := range conds {
			bo, ok := cd.V.(*ssa.BinOp)
			if !ok {
				continue
			}
			// err == nil side of the loader's error
			if (bo.Op == token.NEQ) == !cd.Pos || (bo.Op == token.EQL) == cd.Pos {
				for _, side := range []ssa.Value{bo.X, bo.Y} {
					if ex, ok := side.(*ssa.Extract); ok {
						if c, ok := ex.Tuple.(*ssa.Call); ok && c.Call.StaticCallee() != nil && c.Call.StaticCallee().Name() == "loadRep" && isNilConst(other(bo, side)) {
							hasErr = true
						}
					}
				}
			}
			// len(r.Segments) == 0 is false
			if bo.Op == token.EQL && !cd.Pos {
				if c, ok := bo.X.(*ssa.Call); ok {
					if bi, ok := c.Call.Value.(*ssa.Builtin); ok && bi.Name() == "len" {
						if f, ok := loadedField(c.Call.Args[0]); ok && f == "app.RepData.Segments" {
							if k, ok := constInt(bo.Y); ok && k == 0 {
								hasLen = true
							}
						}
					}
				}
			}
		}
		r.Decide(hasErr, "E5-PUBLISH", shortFn(load), "Reps-after:loadRep-error-test", p.pos(repUpd.Pos()), "registered on the nil side of loadRep's error",
			"a representation is entered into the served table although loadRep may have failed", nil)
		r.Decide(hasLen, "E5-PUBLISH", shortFn(load), "Reps-after:zero-segment-test", p.pos(repUpd.Pos()), "registered after len(Segments) == 0 was excluded",
			"a representation without segments can be entered into the served table (division by zero and index faults while serving)", nil)
		// audio test: on every path to the registration the representation is not audio or its constant sample
		// duration was tested non-nil and non-zero (in loadAsset or in a helper whose error is tested)
		okAudio, why := verifyAudioSampleDurGuard(p)
		r.Decide(okAudio, "E5-PUBLISH", shortFn(load), "Reps-after:audio-sample-duration-test", p.pos(repUpd.Pos()), why,
			"an audio representation without constant sample duration can be entered into the served table: "+why, nil)
		// MPD last
		bad := ""
		seen := map[*ssa.BasicBlock]bool{}
		var walk func(b *ssa.BasicBlock)
		walk = func(b *ssa.BasicBlock) {
			if seen[b] || bad != "" {
				return
			}
			seen[b] = true
			if isErrorExit(b) {
				bad = p.pos(instrPos(b.Instrs[len(b.Instrs)-1]))
				return
			}
			for _, s := range b.Succs {
				walk(s)
			}
		}
		for _, s := range mpdUpd.Block().Succs {
			walk(s)
		}
		r.Decide(bad == "", "E5-PUBLISH", shortFn(load), "MPDs-last", p.pos(mpdUpd.Pos()), "no error exit is reachable after the MPD is registered",
			"after the MPD has been entered into the served table loading can still fail at "+bad+": a half-loaded MPD is served", nil)
	}
	// delete on failed consolidation
	delOK := false
	for _, s := range callsTo(p, cons) {
		if s.Parent() != disc && s.Parent().Parent() != disc {
			continue
		}
		c, ok := s.(*ssa.Call)
		if !ok {
			continue
		}
		fn := s.Parent()
		for _, b := range fn.Blocks {
			isErrSide := false
			for _, cd := range factsOf(fn).dominatingConds(b) {
				if is, nonNilOnTrue := nilTest(cd.V, c); is && nonNilOnTrue == cd.Pos {
					isErrSide = true
				}
			}
			if !isErrSide {
				continue
			}
			for _, in := range b.Instrs {
				if dc, ok := in.(*ssa.Call); ok {
					if bi, ok := dc.Call.Value.(*ssa.Builtin); ok && bi.Name() == "delete" {
						if f, ok := loadedField(dc.Call.Args[0]); ok && f == "app.assetMgr.assets" {
							delOK = true
						}
					}
				}
			}
		}
	}
	r.Decide(delOK, "E5-PUBLISH", shortFn(disc), "delete-on-failed-consolidation", p.pos(disc.Pos()), "the error side of consolidateAsset deletes the asset from the served table",
		"an asset whose consolidation failed (non-integral loop duration, differing durations) stays in the served table", nil)
	// (c) admission tests
	r.Rule("E5-ADMISSION", "integrality and equal-duration tests fail with an error; the latter covers every representation of the reference content type", 3)
	var integ, equal *ssa.If
	for _, cf := range cluster(cons) {
		for _, b := range cf.Blocks {
			ifi, ok := b.Instrs[len(b.Instrs)-1].(*ssa.If)
			if !ok {
				continue
			}
			bo, ok := ifi.Cond.(*ssa.BinOp)
			if !ok || bo.Op != token.NEQ {
				continue
			}
			if _, isMul := bo.X.(*ssa.BinOp); isMul {
				if valueReadsField(p, bo.X, "app.asset.LoopDurMS") {
					integ = ifi
				}
			}
			for _, pair := range [][2]ssa.Value{{bo.X, bo.Y}, {bo.Y, bo.X}} {
				if f, ok := loadedField(pair[0]); ok && f == "app.asset.LoopDurMS" {
					if _, isQuo := pair[1].(*ssa.BinOp); isQuo {
						equal = ifi
					}
				}
			}
		}
	}
	// errors of helpers in the cluster reach consolidateAsset's caller
	helperErrReturned := func(fn *ssa.Function) (bool, string) {
		for fn != cons {
			site := uniqueCallSite(fn)
			if site == nil {
				return false, "helper " + shortFn(fn) + " is not called from consolidateAsset alone"
			}
			c, ok := site.(*ssa.Call)
			if !ok {
				return false, "helper called in a go/defer statement"
			}
			for _, e := range errorValuesOfCall(c) {
				if e == nil {
					return false, "the error of " + shortFn(fn) + " is discarded"
				}
				if ok, why := errorReturnedWhenNonNil(e); !ok {
					return false, "the error of " + shortFn(fn) + " is not returned: " + why
				}
			}
			fn = site.Parent()
		}
		return true, ""
	}
	if integ == nil {
		r.Violate("E5-ADMISSION", shortFn(cons), "integrality-test", p.pos(cons.Pos()), "no test that the loop duration is a whole number of milliseconds", nil)
	} else {
		ffI := factsOf(integ.Parent())
		okErr := ffI.errOnly[integ.Block().Succs[0]] || isErrorExit(integ.Block().Succs[0])
		okUp, whyUp := helperErrReturned(integ.Parent())
		r.Decide(okErr && okUp, "E5-ADMISSION", shortFn(cons), "integrality-test", p.pos(instrPos(integ)),
			"a loop duration that is not a whole number of milliseconds ends in an error", "the integrality test does not end in an error: the asset is served with a rounded loop duration "+whyUp, nil)
	}
	if equal == nil {
		r.Violate("E5-ADMISSION", shortFn(cons), "equal-duration-test", p.pos(cons.Pos()), "no comparison of a representation's duration with the loop duration", nil)
	} else {
		ef := equal.Parent()
		ffC := factsOf(ef)
		// reaches an error return through a flag, or directly
		flagErr := ffC.errOnly[equal.Block().Succs[0]] || isErrorExit(equal.Block().Succs[0])
		for _, b := range ef.Blocks {
			ifi, ok := b.Instrs[len(b.Instrs)-1].(*ssa.If)
			if !ok {
				continue
			}
			if ph, ok := ifi.Cond.(*ssa.Phi); ok && (ffC.errOnly[b.Succs[0]] || isErrorExit(b.Succs[0])) {
				for _, src := range flagSources(ph, map[ssa.Value]bool{}) {
					if src == equal.Cond {
						flagErr = true
					}
				}
			}
		}
		// when the failure is carried by a flag, the mismatch branch sets it to true unconditionally
		condFlag := ""
		trueSide := equal.Block().Succs[0]
		for _, b := range ef.Blocks {
			for _, in := range b.Instrs {
				ph, ok := in.(*ssa.Phi)
				if !ok || ph.Type().String() != "bool" {
					continue
				}
				for i, e := range ph.Edges {
					pred := b.Preds[i]
					if !(pred == trueSide || trueSide.Dominates(pred)) {
						continue
					}
					if c, isC := e.(*ssa.Const); isC && c.Value != nil && c.Value.String() == "true" {
						continue
					}
					if e == ssa.Value(ph) {
						continue
					}
					// a flag computed in the mismatch branch from something else than 'true'
					if _, isConst := e.(*ssa.Const); !isConst {
						condFlag = p.pos(instrPos(pred.Instrs[len(pred.Instrs)-1]))
					}
				}
			}
		}
		if condFlag != "" && !isErrorExit(trueSide) && !ffC.errOnly[trueSide] {
			r.Violate("E5-ADMISSION", shortFn(cons), "equal-duration-flag", condFlag, "in the branch taken when a duration differs the failure flag is not set to true but computed from another condition: some differing representations only produce a warning and the asset is admitted with wrong wrap times", nil)
		}
		okUp, whyUp := helperErrReturned(ef)
		r.Decide(flagErr && okUp, "E5-ADMISSION", shortFn(cons), "equal-duration-test", p.pos(instrPos(equal)), "a differing duration ends in an error that consolidateAsset returns",
			"a representation whose duration differs from the loop duration does not make consolidation fail "+whyUp, nil)
		// coverage: not restricted to pre-encrypted representations
		sets := ffC.condSets(equal.Block())
		all := len(sets) > 0
		for _, set := range sets {
			has := false
			for _, cd := range set {
				reads := valueReadsField(p, cd.V, "app.RepData.PreEncrypted")
				if reads {
					// "PreEncrypted holds" on this path
					if u, isU := cd.V.(*ssa.UnOp); isU && u.Op == token.NOT {
						has = has || !cd.Pos
					} else {
						has = has || cd.Pos
					}
				}
			}
			if !has {
				all = false
			}
		}
		r.Decide(!all, "E5-ADMISSION", shortFn(cons), "equal-duration-coverage", p.pos(instrPos(equal)), "clear representations of the reference content type reach the comparison",
			"the duration comparison is reached only for pre-encrypted representations: clear representations with a different duration are admitted and served with wrong wrap times", nil)
	}
	// (d) cache file read to the end
	r.Rule("E5-READALL", "gzip metadata file read to its end; errors of the read/decode chain returned", 2)
	nGz := 0
	for _, fn := range pkgFuncs(p, pkgApp) {
		for _, b := range fn.Blocks {
			for _, in := range b.Instrs {
				c, ok := isCallTo(in, "compress/gzip.NewReader")
				if !ok {
					continue
				}
				nGz++
				var rd ssa.Value
				for _, ref := range *c.Referrers() {
					if ex, ok := ref.(*ssa.Extract); ok && ex.Index == 0 {
						rd = ex
					}
				}
				okAll := false
				if rd != nil && rd.Referrers() != nil {
					for _, ref := range *rd.Referrers() {
						if mi, ok := ref.(*ssa.MakeInterface); ok && mi.Referrers() != nil {
							for _, r2 := range *mi.Referrers() {
								if c2, ok := r2.(*ssa.Call); ok && c2.Call.StaticCallee() != nil && c2.Call.StaticCallee().String() == "io.ReadAll" {
									okAll = true
								}
							}
						}
					}
				}
				r.Decide(okAll, "E5-READALL", shortFn(fn), "gzip.Reader->io.ReadAll", p.pos(c.Pos()), "the decompressed stream is read to EOF (checksum verified) before it is decoded",
					"the gzip stream is not read to its end with io.ReadAll: a damaged file whose prefix still decodes is accepted (checksum never verified)", nil)
			}
		}
	}
	if nGz == 0 {
		r.Broken("no gzip.NewReader call found in the asset loader")
	}
	ruleErrorsReturned(p, r, "E5-READALL", []*ssa.Function{lfj}, func(c *ssa.Call) (string, bool) {
		n := calleeName(c)
		switch n {
		case "os.Open", "compress/gzip.NewReader", "io.ReadAll", "os.ReadFile", "encoding/json.Unmarshal", "(*app.RepData).addRegExpAndInit":
			return n, true
		}
		return n, false
	})
	_ = fmt.Sprintf
}

func other(bo *ssa.BinOp, side ssa.Value) ssa.Value {
	if bo.X == side {
		return bo.Y
	}
	return bo.X
}

// valueReadsField: the intra-procedural slice of v contains a load of the field.
func valueReadsField(p *Program, v ssa.Value, field string) bool {
	hit := false
	sliceVisitIntra(p, v, func(x ssa.Value) {
		if f, ok := loadedField(x); ok && (f == field || f == field+"*") {
			hit = true
		}
	})
	return hit
}

// guardedByUnsetPersisted: every store to field f in the functions reachable from the re-derivation step
// is control-dependent on a test that some persisted field is zero/nil (taken on the unset side). Returns a
// description of such a test, or "" if at least one store is free of them.
func guardedByUnsetPersisted(p *Program, rederive *ssa.Function, f string, pers map[string]bool) string {
	bad := ""
	sites := 0
	for fn := range p.reachableFrom(rederive) {
		for _, b := range fn.Blocks {
			for _, in := range b.Instrs {
				st, ok := in.(*ssa.Store)
				if !ok {
					continue
				}
				if g, ok := fieldOfAddr(st.Addr); !ok || g != f {
					continue
				}
				sites++
				why := ""
				for _, cd := range effectiveCDeps(b, true) {
					bo, isBin := cd.V.(*ssa.BinOp)
					if !isBin || (bo.Op != token.EQL && bo.Op != token.NEQ) {
						continue
					}
					g, isLoad := loadedField(bo.X)
					if !isLoad || !pers[strings.TrimSuffix(g, "*")] {
						continue
					}
					zero := isNilConst(bo.Y) || isZeroConst(bo.Y)
					if s, isStr := constString(bo.Y); isStr && s == "" {
						zero = true
					}
					if !zero {
						continue
					}
					unsetSide := (bo.Op == token.EQL && cd.Pos) || (bo.Op == token.NEQ && !cd.Pos)
					if unsetSide {
						why = "the test '" + g + " is unset' at " + p.pos(bo.Pos())
					}
				}
				if why == "" {
					return ""
				}
				bad = why
			}
		}
	}
	if sites == 0 {
		return ""
	}
	return bad
}
