#!/bin/bash
# usage: check.sh <property-id> <quick|thorough>
# Decides the property by static analysis of /repo's current working tree.
set -u
ID="${1:?property id}"; TIER="${2:-quick}"
cd /verif || exit 2
export GOFLAGS=-mod=mod GOPROXY=off GOSUMDB=off GOTOOLCHAIN=local CGO_ENABLED=0
unset GOWORK
REPO="${VERIF_REPO:-/repo}"
./build.sh >/dev/null || { echo "CHECK-BROKEN property=$ID reason=analyzer build failed"; exit 2; }
exec ./bin/lsverif -repo "$REPO" -prop "$ID" -tier "$TIER" -out "${VERIF_OUT:-/verif/evidence}" -known /verif/known_findings.json
