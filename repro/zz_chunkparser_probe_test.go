// Reproduction of the non-terminating box walk (package chunkparser).
// Copy into pkg/chunkparser of a scratch tree: go test -vet=off -run TestProbeChunkParser ./pkg/chunkparser
package chunkparser

import (
	"bytes"
	"testing"
	"time"
)

func TestProbeChunkParser(t *testing.T) {
	cases := map[string][]byte{
		"box with size 0":          {0, 0, 0, 0, 'f', 'r', 'e', 'e', 1, 2, 3, 4},
		"box with size 4":          {0, 0, 0, 4, 'f', 'r', 'e', 'e', 1, 2, 3, 4},
		"second box wraps uint32":  append([]byte{0, 0, 0, 16, 'f', 'r', 'e', 'e', 0, 0, 0, 0, 0, 0, 0, 0, 0xff, 0xff, 0xff, 0xf0, 'f', 'r', 'e', 'e'}, make([]byte, 8)...),
	}
	for name, data := range cases {
		t.Run(name, func(t *testing.T) {
			done := make(chan error, 1)
			go func() {
				p := NewMP4ChunkParser(bytes.NewReader(data), make([]byte, 0, 64), func(cd ChunkData) error { return nil })
				done <- p.Parse()
			}()
			select {
			case err := <-done:
				t.Logf("Parse returned: %v", err)
			case <-time.After(2 * time.Second):
				t.Fatalf("Parse did not terminate within 2s")
			}
		})
	}
}
