package main

import (
	"fmt"
	"go/token"
	"go/types"
	"strings"

	"golang.org/x/tools/go/ssa"
)

// exprKey returns a canonical string for side-effect-free expressions so that
// two SSA values denoting the same source-level access path compare equal
// (go/ssa performs no CSE: `*cfg.X` loaded twice gives two values).
// Returns "" for values that have no stable key (calls, phis → identity key).
var exprKeyMemo = map[ssa.Value]string{}

func exprKey(v ssa.Value) string {
	return exprKeyD(v, 0)
}

// exprKeyD is memoised per value so that the key of a value does not depend on
// where in a larger expression it was reached.
func exprKeyD(v ssa.Value, d int) string {
	if v == nil {
		return ""
	}
	if k, ok := exprKeyMemo[v]; ok {
		return k
	}
	if d > 80 {
		return "@" + v.Name()
	}
	k := exprKeyCompute(v, d)
	if d <= 80 {
		exprKeyMemo[v] = k
	}
	return k
}

func exprKeyCompute(v ssa.Value, d int) string {
	switch x := v.(type) {
	case *ssa.Const:
		if x.Value == nil {
			return "nil"
		}
		return "c:" + x.Value.ExactString()
	case *ssa.Parameter:
		// a parameter of a function with exactly one static call site is named by its argument,
		// so that a test moved into a helper keeps the key of the tested expression
		if arg := uniqueCallArgument(x); arg != nil && d < 40 {
			if k := exprKeyD(arg, d+1); k != "" && k[0] != '@' && !strings.HasPrefix(k, "ld@") {
				return k
			}
		}
		return "p:" + x.Name()
	case *ssa.FreeVar:
		return "fv:" + x.Name()
	case *ssa.Global:
		return "g:" + x.String()
	case *ssa.FieldAddr:
		return exprKeyD(x.X, d+1) + "." + fieldName(x.X.Type(), x.Field)
	case *ssa.Field:
		return exprKeyD(x.X, d+1) + "." + fieldName(x.X.Type(), x.Field)
	case *ssa.UnOp:
		if x.Op == token.MUL {
			// load; Alloc'd locals that are stored more than once have no stable key
			if a, ok := x.X.(*ssa.Alloc); ok {
				return "ld@" + a.Name()
			}
			return "*" + exprKeyD(x.X, d+1)
		}
		return x.Op.String() + "(" + exprKeyD(x.X, d+1) + ")"
	case *ssa.BinOp:
		return "(" + exprKeyD(x.X, d+1) + x.Op.String() + exprKeyD(x.Y, d+1) + ")"
	case *ssa.Convert:
		return "cv<" + x.Type().String() + ">(" + exprKeyD(x.X, d+1) + ")"
	case *ssa.ChangeType:
		return exprKeyD(x.X, d+1)
	case *ssa.IndexAddr:
		return exprKeyD(x.X, d+1) + "[" + exprKeyD(x.Index, d+1) + "]"
	case *ssa.Index:
		return exprKeyD(x.X, d+1) + "[" + exprKeyD(x.Index, d+1) + "]"
	case *ssa.Call:
		if b, ok := x.Call.Value.(*ssa.Builtin); ok && (b.Name() == "len" || b.Name() == "cap") && len(x.Call.Args) == 1 {
			return b.Name() + "(" + exprKeyD(x.Call.Args[0], d+1) + ")"
		}
		return "@" + x.Name()
	case *ssa.Slice:
		return "@" + x.Name()
	}
	return "@" + v.Name()
}

func fieldName(t types.Type, idx int) string {
	if p, ok := t.Underlying().(*types.Pointer); ok {
		t = p.Elem()
	}
	if s, ok := t.Underlying().(*types.Struct); ok && idx < s.NumFields() {
		return s.Field(idx).Name()
	}
	return fmt.Sprintf("f%d", idx)
}

// structField identifies a field of a named struct type: "pkg.Type.Field".
func structFieldOf(t types.Type, idx int) string {
	if p, ok := t.Underlying().(*types.Pointer); ok {
		t = p.Elem()
	}
	name := t.String()
	if n, ok := t.(*types.Named); ok {
		name = n.Obj().Name()
		if n.Obj().Pkg() != nil {
			name = shortPkg(n.Obj().Pkg().Path()) + "." + name
		}
	}
	return name + "." + fieldName(t, idx)
}

func shortPkg(p string) string {
	p = strings.TrimPrefix(p, modPath+"/")
	switch p {
	case "cmd/livesim2/app":
		return "app"
	case "cmd/cmaf-ingest-receiver/app":
		return "recv"
	}
	if i := strings.LastIndex(p, "/"); i >= 0 {
		return p[i+1:]
	}
	return p
}

// shortFn gives a compact function name for keys.
func shortFn(fn *ssa.Function) string {
	s := fn.String()
	s = strings.ReplaceAll(s, modPath+"/cmd/livesim2/app", "app")
	s = strings.ReplaceAll(s, modPath+"/cmd/cmaf-ingest-receiver/app", "recv")
	s = strings.ReplaceAll(s, modPath+"/pkg/", "")
	s = strings.ReplaceAll(s, modPath+"/", "")
	return s
}

// fieldOfAddr: if addr is a FieldAddr (possibly through conversions), returns struct field id.
func fieldOfAddr(addr ssa.Value) (string, bool) {
	if fa, ok := addr.(*ssa.FieldAddr); ok {
		return structFieldOf(fa.X.Type(), fa.Field), true
	}
	return "", false
}

// loadedField: if v is a load of a struct field (pointer or value form), returns its id.
func loadedField(v ssa.Value) (string, bool) {
	switch x := v.(type) {
	case *ssa.UnOp:
		if x.Op == token.MUL {
			if f, ok := fieldOfAddr(x.X); ok {
				return f, true
			}
			// *(*T.F): the pointee of a pointer-typed field is written "T.F*"
			if inner, ok := x.X.(*ssa.UnOp); ok && inner.Op == token.MUL {
				if f, ok := fieldOfAddr(inner.X); ok {
					return f + "*", true
				}
			}
		}
	case *ssa.Field:
		return structFieldOf(x.X.Type(), x.Field), true
	}
	return "", false
}
