// Reproduction of MPD/segment-server disagreements (package app of cmd/livesim2).
// go test -vet=off -run TestProbeC02 ./cmd/livesim2/app
package app

import (
	"context"
	"net/http/httptest"
	"testing"

	"github.com/Dash-Industry-Forum/livesim2/pkg/logging"
)

func TestProbeC02AudioTimeWithStart(t *testing.T) {
	cfg := ServerConfig{VodRoot: "testdata/assets", TimeoutS: 0, LogFormat: logging.LogDiscard}
	_ = logging.InitSlog(cfg.LogLevel, cfg.LogFormat)
	s, err := SetupServer(context.Background(), &cfg)
	if err != nil {
		t.Fatal(err)
	}
	get := func(url string) int {
		w := httptest.NewRecorder()
		s.livesimHandlerFunc(w, httptest.NewRequest("GET", url, nil))
		return w.Code
	}
	// 100 s after availabilityStartTime = 1000000 s; video and audio segment of the same instant (90 s)
	v := get("/livesim2/segtimeline_1/start_1000000/testpic_2s/V300/8100000.m4s?nowMS=1000100000")
	a := get("/livesim2/segtimeline_1/start_1000000/testpic_2s/A48/4320256.m4s?nowMS=1000100000")
	t.Logf("video %d audio %d", v, a)
	if v != 200 || a != 200 {
		t.Fatalf("video %d, audio %d: both segments are listed as available and must be served", v, a)
	}
}
