#!/bin/bash
# validates MANIFEST.json and all evidence files against the schemas
python3-vt - <<'PY'
import json,jsonschema,glob,sys
ok=True
try:
    jsonschema.validate(json.load(open('/verif/MANIFEST.json')), json.load(open('/root/.vp/MANIFEST.schema.json')))
except Exception as e:
    ok=False; print("MANIFEST:", e)
es=json.load(open('/root/.vp/EVIDENCE.schema.json'))
for f in sorted(glob.glob('/verif/evidence/C*.json')):
    try: jsonschema.validate(json.load(open(f)), es)
    except Exception as e:
        ok=False; print(f, str(e)[:300])
print("valid" if ok else "INVALID")
sys.exit(0 if ok else 1)
PY
