package main

// Small structural rules added after the fourth round of seeded changes. Each decides one necessary
// condition named in its rule text; none decides behaviour.

import (
	"go/token"
	"sort"
	"go/types"
	"strings"

	"golang.org/x/tools/go/ssa"
)

func isUnsignedType(t types.Type) bool {
	b, ok := t.Underlying().(*types.Basic)
	return ok && b.Info()&types.IsUnsigned != 0
}

// belowStartRule (C04): each copy of the number -> segment mapping refuses numbers below the start number
// with a test "n - startNr < 0" that can actually fire: the tested difference is a signed integer, depends
// on the requested number and on the configured start number, and the true side leaves with an error.
func belowStartRule(p *Program, r *Reporter, fns []*ssa.Function) {
	r.Rule("E5-BELOWSTART", "numbers below startNumber are refused by a signed 'n - startNr < 0' test whose true side is an error exit", 3)
	for _, fn := range fns {
		var nrPrm *ssa.Parameter
		for _, prm := range fn.Params {
			if prm.Name() == "nr" {
				nrPrm = prm
			}
		}
		if nrPrm == nil {
			r.Broken("%s has no nr parameter", shortFn(fn))
			continue
		}
		good, dead := 0, ""
		cl := cluster(fn)
		// the blocks entered when a boolean value is false/true, wherever that value is branched on
		// (directly, or after it was returned by a helper of the cluster)
		var branchTargets func(v ssa.Value, when bool, depth int) []*ssa.BasicBlock
		branchTargets = func(v ssa.Value, when bool, depth int) []*ssa.BasicBlock {
			var out []*ssa.BasicBlock
			if v.Referrers() == nil || depth > 3 {
				return nil
			}
			for _, ref := range *v.Referrers() {
				switch x := ref.(type) {
				case *ssa.If:
					if when {
						out = append(out, x.Block().Succs[0])
					} else {
						out = append(out, x.Block().Succs[1])
					}
				case *ssa.UnOp:
					if x.Op == token.NOT {
						out = append(out, branchTargets(x, !when, depth+1)...)
					}
				case *ssa.Return:
					h := x.Parent()
					for j, res := range x.Results {
						if res != v {
							continue
						}
						for _, site := range callsTo(p, h) {
							call, ok := site.(*ssa.Call)
							if !ok || !inClusterList(cl, call.Parent()) || call.Referrers() == nil {
								continue
							}
							if h.Signature.Results().Len() == 1 {
								out = append(out, branchTargets(call, when, depth+1)...)
								continue
							}
							for _, r2 := range *call.Referrers() {
								if ex, ok := r2.(*ssa.Extract); ok && ex.Index == j {
									out = append(out, branchTargets(ex, when, depth+1)...)
								}
							}
						}
					}
				}
			}
			return out
		}
		for _, c := range cl {
			for _, b := range c.Blocks {
				for _, in := range b.Instrs {
					bo, ok := in.(*ssa.BinOp)
					if !ok {
						continue
					}
					var x ssa.Value
					negWhen := true // the comparison is true for negative differences
					// direct form: nr < startNr (or its mirror / complement), no difference involved
					if bo.Op == token.LSS || bo.Op == token.GTR || bo.Op == token.GEQ || bo.Op == token.LEQ {
						depNr := func(v ssa.Value) bool {
							if localDependsOnParam(p, v, nrPrm) {
								return true
							}
							q := newDepQuery(p, onParam(nrPrm))
							q.noParams = true
							return q.depends(v, 0)
						}
						xn, xs := depNr(bo.X), valueDependsOnField(p, bo.X, "app.ResponseConfig.StartNr")
						yn, ys := depNr(bo.Y), valueDependsOnField(p, bo.Y, "app.ResponseConfig.StartNr")
						if xn && !xs && ys && !yn || yn && !ys && xs && !xn {
							// nr on the left: below when LSS true / GEQ false; nr on the right: below when GTR true / LEQ false
							var when, okOp bool
							switch {
							case xn && bo.Op == token.LSS, yn && bo.Op == token.GTR:
								when, okOp = true, true
							case xn && bo.Op == token.GEQ, yn && bo.Op == token.LEQ:
								when, okOp = false, true
							}
							if okOp {
								for _, fail := range branchTargets(bo, when, 0) {
									if isErrorExit(fail) || factsOf(fail.Parent()).errOnly[fail] {
										good++
									}
								}
							}
							continue
						}
					}
					switch {
					case bo.Op == token.LSS && isZeroConst(bo.Y):
						x = bo.X
					case bo.Op == token.GTR && isZeroConst(bo.X):
						x = bo.Y
					case bo.Op == token.GEQ && isZeroConst(bo.Y):
						x, negWhen = bo.X, false
					case bo.Op == token.LEQ && isZeroConst(bo.X):
						x, negWhen = bo.Y, false
					default:
						continue
					}
					dep := localDependsOnParam(p, x, nrPrm)
					if !dep {
						// inside a helper: the helper's own parameter bound to nr
						q := newDepQuery(p, onParam(nrPrm))
						q.noParams = true
						dep = q.depends(x, 0)
					}
					if !dep || !valueDependsOnField(p, x, "app.ResponseConfig.StartNr") {
						continue
					}
					if isUnsignedType(x.Type()) {
						dead = p.pos(bo.Pos())
						continue
					}
					if sub, isSub := stripConv(x).(*ssa.BinOp); isSub && sub.Op == token.SUB && isUnsignedType(sub.Type()) {
						dead = p.pos(bo.Pos()) // the difference wraps around before it is converted to a signed type
						continue
					}
					for _, fail := range branchTargets(bo, negWhen, 0) {
						if isErrorExit(fail) || factsOf(fail.Parent()).errOnly[fail] {
							good++
						}
					}
				}
			}
		}
		switch {
		case good > 0:
			r.Discharge("E5-BELOWSTART", shortFn(fn), "guard:nr-startNr<0", p.pos(fn.Pos()), "signed difference tested, failing side is an error exit")
		case dead != "":
			r.Violate("E5-BELOWSTART", shortFn(fn), "guard:nr-startNr<0", dead, "the test for numbers below startNumber compares an unsigned value with 0 and can never fire: such requests are mapped to a far-away segment instead of being refused", nil)
		default:
			r.Violate("E5-BELOWSTART", shortFn(fn), "guard:nr-startNr<0", p.pos(fn.Pos()), "no test refuses numbers below the configured start number", nil)
		}
	}
}

func isZeroConst(v ssa.Value) bool {
	k, ok := constInt(v)
	return ok && k == 0
}

// callsIn lists the static calls to functions named pkg.name (e.g. "io.ReadFull") in the given functions.
func callsIn(fns []*ssa.Function, full ...string) []*ssa.Call {
	var out []*ssa.Call
	for _, fn := range fns {
		for _, b := range fn.Blocks {
			for _, in := range b.Instrs {
				c, ok := in.(*ssa.Call)
				if !ok || c.Call.StaticCallee() == nil {
					continue
				}
				for _, f := range full {
					if c.Call.StaticCallee().String() == f {
						out = append(out, c)
					}
				}
			}
		}
	}
	return out
}

// readFullRule (C18): io.ReadFull and io.ReadAtLeast report a stream that ends inside the requested
// range as io.ErrUnexpectedEOF, never as io.EOF with data. A caller that treats only io.EOF as the end
// of input turns a truncated stream into an error and loses the bytes read so far.
func readFullRule(p *Program, r *Reporter, fns []*ssa.Function) {
	r.Rule("E5-READFULL", "where the parser reads with io.ReadFull/io.ReadAtLeast, io.ErrUnexpectedEOF is recognised as end of input", 0)
	calls := callsIn(fns, "io.ReadFull", "io.ReadAtLeast")
	if len(calls) == 0 {
		return
	}
	recognised := false
	for _, fn := range fns {
		for _, b := range fn.Blocks {
			for _, in := range b.Instrs {
				if u, ok := in.(*ssa.UnOp); ok && u.Op == token.MUL {
					if g, ok := u.X.(*ssa.Global); ok && g.Pkg != nil && g.Pkg.Pkg.Path() == "io" && g.Name() == "ErrUnexpectedEOF" {
						recognised = true
					}
				}
			}
		}
	}
	for _, c := range calls {
		r.Decide(recognised, "E5-READFULL", shortFn(c.Parent()), "call:"+c.Call.StaticCallee().Name(), p.pos(c.Pos()), "io.ErrUnexpectedEOF is handled in the parser",
			"the parser reads with "+c.Call.StaticCallee().String()+" but nowhere recognises io.ErrUnexpectedEOF: a stream that ends inside a box is reported as an error and its trailing bytes are not delivered", nil)
	}
}

// noDropRule (C19): a hand-over of received segment data to the channel goroutine must not be droppable:
// a send that is an arm of a select with a default branch (or with a timer arm) silently loses the data
// of an upload that has been stored and acknowledged.
func noDropRule(p *Program, r *Reporter, fns []*ssa.Function, chanField string) {
	r.Rule("E5-NODROP", "segment data is handed to the channel goroutine by a send that cannot be skipped", 1)
	n := 0
	for _, fn := range fns {
		for _, b := range fn.Blocks {
			for _, in := range b.Instrs {
				switch x := in.(type) {
				case *ssa.Send:
					if f, ok := loadedField(x.Chan); ok && f == chanField {
						n++
						r.Discharge("E5-NODROP", shortFn(fn), "send:"+chanField, p.pos(x.Pos()), "plain blocking send")
					}
				case *ssa.Select:
					for _, st := range x.States {
						if st.Dir != types.SendOnly {
							continue
						}
						if f, ok := loadedField(st.Chan); ok && f == chanField {
							n++
							others := 0
							for _, o := range x.States {
								if o == st {
									continue
								}
								// an arm that waits for cancellation ends the hand-over only when the receiver shuts down
								if c, ok := o.Chan.(*ssa.Call); ok && o.Dir == types.RecvOnly && c.Call.IsInvoke() && c.Call.Method.Name() == "Done" {
									continue
								}
								others++
							}
							r.Decide(x.Blocking && others == 0, "E5-NODROP", shortFn(fn), "send:"+chanField, p.pos(x.Pos()), "blocking select with the send as only arm",
								"the hand-over is one arm of a select that can take another way (default branch or another channel): when the channel goroutine is busy the data of a stored, acknowledged upload is dropped", nil)
						}
					}
				}
			}
		}
	}
	if n == 0 {
		r.Broken("no send on %s found", chanField)
	}
}

// errReturnedAt: the error result of every call to callee inside caller is returned on all non-nil paths.
func roundingCallsInSlice(p *Program, v ssa.Value) []string {
	var out []string
	seen := map[ssa.Value]bool{}
	sliceVisit(p, v, true, func(x ssa.Value) {
		if seen[x] {
			return
		}
		seen[x] = true
		if c, ok := x.(*ssa.Call); ok && c.Call.StaticCallee() != nil {
			n := c.Call.StaticCallee().String()
			if n == "math.Round" || n == "math.Ceil" || n == "math.RoundToEven" {
				out = append(out, n+" at "+p.pos(c.Pos()))
			}
		}
	})
	return out
}

// wholeSecondRule (C14): the second handed to the traffic-pattern lookup is the request instant floored to
// seconds: no rounding up or to nearest in its computation.
func wholeSecondRule(p *Program, r *Reporter, stateAt *ssa.Function) {
	r.Rule("E4-FLOORSECOND", "the second handed to the traffic-pattern lookup is the request time floored, not rounded", 1)
	for _, s := range callsTo(p, stateAt) {
		args := s.Common().Args
		arg := args[len(args)-1]
		rc := roundingCallsInSlice(p, arg)
		if q := newDepQuery(p, onField("app.ResponseConfig.StartTimeS")); true {
			q.noParams = true
			if q.depends(arg, 0) {
				rc = append(rc, "the configured start time enters the second")
			}
		}
		r.Decide(len(rc) == 0, "E4-FLOORSECOND", shortFn(s.Parent()), "StateAt.arg", p.pos(s.Pos()), "no rounding call in the computation of the second",
			"the second handed to StateAt is not the floored request time ("+strings.Join(rc, ", ")+"): the intervals are shifted against the wall clock", nil)
	}
}

// tableValueRule (C19): a function that inserts a freshly built object into a shared table and hands an
// object of the table's element type back to its caller must hand back the object that is in the table:
// either the result of a lookup in that table, or the inserted object on a path on which the insert was
// executed. Returning the freshly built object regardless of who won the insert gives the losing request
// a private object that no other request can see.
func tableValueRule(p *Program, r *Reporter, fns []*ssa.Function) {
	r.Rule("E2-TABLEVALUE", "get-or-create functions return the object that is in the table", 0)
	for _, fn := range fns {
		for _, b := range fn.Blocks {
			for _, in := range b.Instrs {
				mu, ok := in.(*ssa.MapUpdate)
				if !ok {
					continue
				}
				tbl, ok := loadedField(mu.Map)
				if !ok {
					continue
				}
				mt, ok := mu.Map.Type().Underlying().(*types.Map)
				if !ok {
					continue
				}
				if _, isPtr := mt.Elem().Underlying().(*types.Pointer); !isPtr {
					continue
				}
				for _, rb := range fn.Blocks {
					ret, ok := rb.Instrs[len(rb.Instrs)-1].(*ssa.Return)
					if !ok || !ret.Pos().IsValid() {
						continue
					}
					for _, res := range ret.Results {
						if !types.Identical(res.Type(), mt.Elem()) || isNilConst(res) {
							continue
						}
						ok := inTable(res, tbl, mu, rb, map[ssa.Value]bool{})
						r.Decide(ok, "E2-TABLEVALUE", shortFn(fn), "return:"+tbl, p.pos(ret.Pos()), "the returned object is the table's entry",
							"the function inserts into "+tbl+" only when the key is absent but returns its own freshly built object in either case: a request that loses the insert works on an object no other request can reach", nil)
					}
				}
			}
		}
	}
}

// inTable: v is a lookup result of table tbl, or the value inserted by mu with mu executed on every path to rb.
func inTable(v ssa.Value, tbl string, mu *ssa.MapUpdate, rb *ssa.BasicBlock, seen map[ssa.Value]bool) bool {
	if seen[v] {
		return true
	}
	seen[v] = true
	switch x := v.(type) {
	case *ssa.Lookup:
		f, ok := loadedField(x.X)
		return ok && f == tbl
	case *ssa.Extract:
		if l, ok := x.Tuple.(*ssa.Lookup); ok && x.Index == 0 {
			f, ok := loadedField(l.X)
			return ok && f == tbl
		}
	case *ssa.Phi:
		for i, e := range x.Edges {
			pred := x.Block().Preds[i]
			if e == mu.Value {
				if !(mu.Block() == pred || mu.Block().Dominates(pred)) {
					return false
				}
				continue
			}
			if !inTable(e, tbl, mu, pred, seen) {
				return false
			}
		}
		return true
	}
	if v == mu.Value {
		return mu.Block() == rb || mu.Block().Dominates(rb)
	}
	// a result spilled to a local (functions with defers): every value stored into it, judged where it is stored
	if ld, ok := v.(*ssa.UnOp); ok && ld.Op == token.MUL {
		if al, ok := ld.X.(*ssa.Alloc); ok && al.Referrers() != nil {
			n := 0
			for _, ref := range *al.Referrers() {
				if st, ok := ref.(*ssa.Store); ok && st.Addr == ssa.Value(al) {
					n++
					if !inTable(st.Val, tbl, mu, st.Block(), seen) {
						return false
					}
				}
			}
			return n > 0
		}
	}
	return false
}

// alwaysResultOf: on every path v is (a conversion of) result #idx of a call to callee: phi edges and the
// stores of a local variable must all qualify; arithmetic does not.
func alwaysResultOf(v ssa.Value, callee *ssa.Function, idx int, seen map[ssa.Value]bool) bool {
	if seen[v] {
		return true
	}
	seen[v] = true
	switch x := v.(type) {
	case *ssa.Call:
		if idx == 0 && x.Call.StaticCallee() == callee {
			return true
		}
		return helperAlwaysReturns(x.Call.StaticCallee(), 0, callee, idx, seen)
	case *ssa.Extract:
		c, ok := x.Tuple.(*ssa.Call)
		if !ok {
			return false
		}
		if x.Index == idx && c.Call.StaticCallee() == callee {
			return true
		}
		return helperAlwaysReturns(c.Call.StaticCallee(), x.Index, callee, idx, seen)
	case *ssa.Convert:
		return alwaysResultOf(x.X, callee, idx, seen)
	case *ssa.ChangeType:
		return alwaysResultOf(x.X, callee, idx, seen)
	case *ssa.Phi:
		for _, e := range x.Edges {
			if !alwaysResultOf(e, callee, idx, seen) {
				return false
			}
		}
		return true
	case *ssa.UnOp:
		if x.Op != token.MUL {
			return false
		}
		al, ok := x.X.(*ssa.Alloc)
		if !ok || al.Referrers() == nil {
			return false
		}
		n := 0
		for _, ref := range *al.Referrers() {
			if st, ok := ref.(*ssa.Store); ok && st.Addr == ssa.Value(al) {
				n++
				if !alwaysResultOf(st.Val, callee, idx, seen) {
					return false
				}
			}
		}
		return n > 0
	}
	return false
}

// generationInstantRule (C16): the instant for which the session generates segment n is the availability
// time computed for a segment number by the availability function, on every path (first iteration, loop
// back edge, catch-up loop); it is not advanced by a nominal duration, which drifts as soon as segment
// durations vary.
func generationInstantRule(p *Program, r *Reporter, start, sms, cat *ssa.Function) {
	r.Rule("E4-GENINSTANT", "the instant handed to the segment generator is a computed availability time on every path", 1)
	idx := -1
	for i, prm := range sms.Params {
		if prm.Name() == "nowMS" {
			idx = i
		}
	}
	if idx < 0 {
		r.Broken("sendMediaSegments has no nowMS parameter")
		return
	}
	n := 0
	for _, fn := range cluster(start) {
		for _, s := range callsTo(p, sms) {
			if s.Parent() != fn {
				continue
			}
			n++
			arg := s.Common().Args[idx]
			r.Decide(alwaysResultOf(arg, cat, 0, map[ssa.Value]bool{}), "E4-GENINSTANT", shortFn(fn), "sendMediaSegments.nowMS", p.pos(s.Pos()), "result of calcSegmentAvailabilityTime on every path",
				"on some path the generation instant is not a computed availability time (e.g. advanced by a nominal segment duration): with varying segment durations the session asks for a segment before it exists and skips it, or sends one twice", nil)
		}
	}
	if n == 0 {
		r.Broken("no call of sendMediaSegments in the session loop")
	}
}

// appendSiblingsRule (C10): the sites at which a function appends an element to its result list are
// siblings: whatever function-valued parameter (callback) is applied on the way to one append must be
// applied on the way to every other one. A callback that protects each finished chunk but is missing in
// front of the append of the trailing partial chunk leaves that chunk unprotected.
func appendSiblingsRule(p *Program, r *Reporter, fn *ssa.Function, elemSuffix string) {
	r.Rule("E5-APPENDSIBLINGS", "all sites that append a chunk to the result apply the same callbacks to it first", 1)
	type site struct {
		call *ssa.Call
		cbs  map[string]bool
	}
	var sites []*site
	isAppend := func(in ssa.Instruction) bool {
		c, ok := in.(*ssa.Call)
		if !ok {
			return false
		}
		b, ok := c.Call.Value.(*ssa.Builtin)
		if !ok || b.Name() != "append" {
			return false
		}
		sl, ok := c.Type().Underlying().(*types.Slice)
		return ok && strings.HasSuffix(sl.Elem().String(), elemSuffix)
	}
	callbackOf := func(in ssa.Instruction) (string, bool) {
		c, ok := in.(*ssa.Call)
		if !ok || c.Call.IsInvoke() {
			return "", false
		}
		switch v := c.Call.Value.(type) {
		case *ssa.Parameter:
			if _, isSig := v.Type().Underlying().(*types.Signature); isSig {
				return v.Name(), true
			}
		case *ssa.FreeVar:
			if _, isSig := v.Type().Underlying().(*types.Signature); isSig {
				return v.Name(), true
			}
		}
		return "", false
	}
	for _, b := range fn.Blocks {
		for _, in := range b.Instrs {
			if isAppend(in) {
				sites = append(sites, &site{call: in.(*ssa.Call), cbs: map[string]bool{}})
			}
		}
	}
	if len(sites) == 0 {
		r.Broken("%s: no append to a []%s result found", shortFn(fn), elemSuffix)
		return
	}
	for _, s := range sites {
		// backward walk from the append, stopping at any append site
		seen := map[*ssa.BasicBlock]bool{}
		type item struct {
			b    *ssa.BasicBlock
			upTo int // instructions [0, upTo) are visited
		}
		work := []item{{s.call.Block(), instrIndex(s.call)}}
		for len(work) > 0 {
			it := work[0]
			work = work[1:]
			stopped := false
			for i := it.upTo - 1; i >= 0; i-- {
				in := it.b.Instrs[i]
				if isAppend(in) {
					stopped = true
					break
				}
				if name, ok := callbackOf(in); ok {
					s.cbs[name] = true
				}
			}
			if stopped {
				continue
			}
			for _, pr := range it.b.Preds {
				if !seen[pr] {
					seen[pr] = true
					work = append(work, item{pr, len(pr.Instrs)})
				}
			}
		}
	}
	all := map[string]bool{}
	for _, s := range sites {
		for c := range s.cbs {
			all[c] = true
		}
	}
	for _, s := range sites {
		var missing []string
		for c := range all {
			if !s.cbs[c] {
				missing = append(missing, c)
			}
		}
		sortStrings(missing)
		r.Decide(len(missing) == 0, "E5-APPENDSIBLINGS", shortFn(fn), "append:"+elemSuffix, p.pos(s.call.Pos()), "same callbacks as the other append sites",
			"the element appended here does not pass the callback(s) "+strings.Join(missing, ", ")+" that the other append site applies: what they do (e.g. encrypt the fragment) is missing for this element", nil)
	}
}

// helperAlwaysReturns: result #ri of helper h is, on every successful return, result #idx of callee
// (a wrapper around the call; error returns with a zero value are ignored).
func helperAlwaysReturns(h *ssa.Function, ri int, callee *ssa.Function, idx int, seen map[ssa.Value]bool) bool {
	if h == nil || len(h.Blocks) == 0 || h == callee || h.Pkg == nil || callee.Pkg == nil || h.Pkg != callee.Pkg {
		return false
	}
	n := 0
	for _, b := range h.Blocks {
		ret, ok := b.Instrs[len(b.Instrs)-1].(*ssa.Return)
		if !ok || ri >= len(ret.Results) {
			continue
		}
		if isErrorExit(b) {
			continue
		}
		n++
		if !alwaysResultOf(ret.Results[ri], callee, idx, seen) {
			return false
		}
	}
	return n > 0
}

func inClusterList(cl []*ssa.Function, fn *ssa.Function) bool {
	for _, f := range cl {
		if f == fn {
			return true
		}
	}
	return false
}

// anchorAdvanceRule (C11): in the child-list walk of the differ two loop-carried variables move together:
// the cursor into the new child list and the path of the last element that is in the new document so far
// (the anchor after which the next inserted element is placed). On every control-flow edge on which the
// cursor advances, the anchor must change too; an insert that consumes a new child but leaves the anchor
// where it was places a run of inserted siblings in reverse order.
func anchorAdvanceRule(p *Program, r *Reporter, fn *ssa.Function) {
	r.Rule("E5-ANCHORADVANCE", "wherever the cursor into the new child list advances, the insertion anchor (selector of the next 'add ... after') changes with it", 2)
	// the new child list: result of ChildElements on the second element parameter
	var newList ssa.Value
	for _, b := range fn.Blocks {
		for _, in := range b.Instrs {
			if c, ok := in.(*ssa.Call); ok && c.Call.StaticCallee() != nil && c.Call.StaticCallee().Name() == "ChildElements" && len(c.Call.Args) == 1 {
				if prm, ok := c.Call.Args[0].(*ssa.Parameter); ok && prm.Name() == "new" {
					newList = c
				}
			}
		}
	}
	if newList == nil {
		r.Broken("%s: the child list of the new element was not found", shortFn(fn))
		return
	}
	// phi webs
	web := func(seed ssa.Value) map[*ssa.Phi]bool {
		out := map[*ssa.Phi]bool{}
		var walk func(v ssa.Value)
		walk = func(v ssa.Value) {
			ph, ok := v.(*ssa.Phi)
			if !ok || out[ph] {
				return
			}
			out[ph] = true
			for _, e := range ph.Edges {
				walk(e)
			}
		}
		walk(seed)
		return out
	}
	anchors := map[*ssa.Phi]bool{}
	cursors := map[*ssa.Phi]bool{}
	// selectors written by a private helper: the argument bound to the helper's parameter in fn
	for _, cf := range cluster(fn) {
		if cf == fn {
			continue
		}
		for _, b := range cf.Blocks {
			for _, in := range b.Instrs {
				x, ok := in.(*ssa.Call)
				if !ok || x.Call.StaticCallee() == nil || x.Call.StaticCallee().Name() != "CreateAttr" || len(x.Call.Args) != 3 {
					continue
				}
				if k, ok := constString(x.Call.Args[1]); !ok || k != "sel" {
					continue
				}
				if prm, ok := x.Call.Args[2].(*ssa.Parameter); ok {
					if arg := boundArgument(prm, fn); arg != nil {
						for ph := range web(arg) {
							anchors[ph] = true
						}
					}
				}
			}
		}
	}
	for _, b := range fn.Blocks {
		for _, in := range b.Instrs {
			switch x := in.(type) {
			case *ssa.Call:
				if x.Call.StaticCallee() != nil && x.Call.StaticCallee().Name() == "CreateAttr" && len(x.Call.Args) == 3 {
					if k, ok := constString(x.Call.Args[1]); ok && k == "sel" {
						for ph := range web(x.Call.Args[2]) {
							anchors[ph] = true
						}
					}
				}
			case *ssa.IndexAddr:
				if x.X == newList {
					for ph := range web(x.Index) {
						cursors[ph] = true
					}
				}
			}
		}
	}
	n := 0
	for _, b := range fn.Blocks {
		var cur, anc *ssa.Phi
		for _, in := range b.Instrs {
			if ph, ok := in.(*ssa.Phi); ok {
				if cursors[ph] {
					cur = ph
				}
				if anchors[ph] {
					anc = ph
				}
			}
		}
		if cur == nil || anc == nil {
			continue
		}
		for i, e := range cur.Edges {
			bo, ok := e.(*ssa.BinOp)
			if !ok || bo.Op != token.ADD {
				continue
			}
			if k, isC := constInt(bo.Y); !isC || k != 1 {
				continue
			}
			// the anchor values that go with an unchanged cursor
			for j, ej := range cur.Edges {
				if j == i || ej != bo.X {
					continue
				}
				n++
				r.Decide(!mayBeValue(anc.Edges[i], anc.Edges[j], map[ssa.Value]bool{}), "E5-ANCHORADVANCE", shortFn(fn), "cursor+1:"+anc.Comment, p.pos(bo.Pos()), "the anchor changes on the edge on which the cursor advances",
					"a new child is consumed (cursor + 1) while the insertion anchor keeps the value it has on a path that consumes nothing: the next inserted sibling is placed after the same old element, so a run of inserted elements ends up in reverse order", nil)
			}
		}
	}
	if n == 0 {
		r.Broken("%s: no cursor/anchor pair of loop-carried variables recognised", shortFn(fn))
	}
}

// halfOpenRule (C14): the intervals of a traffic pattern are half-open, [start, start+dur): the comparison
// that decides in which interval the second lies is strict. A non-strict comparison lets every interval
// reach one second into the next.
func halfOpenRule(p *Program, r *Reporter, stateAt *ssa.Function) {
	r.Rule("E5-HALFOPEN", "the interval of a traffic pattern is selected by a strict comparison (half-open intervals)", 1)
	n := 0
	for _, b := range stateAt.Blocks {
		if !blockInCycle(b) {
			continue
		}
		ifi, ok := b.Instrs[len(b.Instrs)-1].(*ssa.If)
		if !ok {
			continue
		}
		bo, ok := ifi.Cond.(*ssa.BinOp)
		if !ok || !isNumeric(bo.X.Type()) {
			continue
		}
		switch bo.Op {
		case token.LSS, token.GTR, token.LEQ, token.GEQ:
		default:
			continue
		}
		// the test decides a return of an interval's state: one successor returns a loaded LossItvl.state
		retIdx := -1
		for i, s := range b.Succs {
			if ret, ok := s.Instrs[len(s.Instrs)-1].(*ssa.Return); ok && len(ret.Results) == 1 {
				if _, isConst := ret.Results[0].(*ssa.Const); !isConst {
					retIdx = i
				}
			}
		}
		if retIdx < 0 || !valueDependsOnField(p, bo, "app.LossItvl.durS") {
			continue
		}
		n++
		strict := bo.Op == token.LSS || bo.Op == token.GTR
		if retIdx == 1 {
			strict = !strict // the state is returned when the test fails: the test itself must be the non-strict complement
		}
		r.Decide(strict, "E5-HALFOPEN", shortFn(stateAt), "interval-test", p.pos(bo.Pos()), "the state is returned under a strict comparison",
			"the interval is selected by a non-strict comparison (test "+bo.Op.String()+", state returned on its "+map[int]string{0: "true", 1: "false"}[retIdx]+" side): the boundary second falls into the earlier interval, so every state lasts one second too long", nil)
	}
	if n == 0 {
		r.Broken("StateAt: no interval-selecting comparison found")
	}
}

// errDiscExceptions: the error results of repository calls that are, by design, not returned on every
// non-nil path (reviewed on the pinned tree). Keyed by caller and callee.
var errDiscExceptions = map[string]string{
	"(*app.assetMgr).discoverAssets|(*app.asset).consolidateAsset": "an asset that cannot be consolidated is logged, deleted from the table and the scan goes on (E5-PUBLISH checks the deletion)",
	"(*app.assetMgr).discoverAssets$1|(*app.assetMgr).loadAsset":   "a directory whose MPD cannot be loaded is logged and skipped; the walk goes on",
	"(*app.assetMgr).loadRep|(*app.RepData).loadFromJSON":          "(found, err) pair: returned when found; not found comes with a nil error (E5-CLEANSCAN covers the other side)",
	"(*app.assetMgr).loadRep|(*app.RepData).readMP4Segment":        "fs.ErrNotExist ends the numbered scan; every other error is returned",
	"(*app.assetMgr).loadRep|(*app.RepData).readThumbSegment":      "fs.ErrNotExist ends the numbered scan; every other error is returned",
	"cmd/dashfetcher/app.downloadMPD|internal.WriteMPDData":        "dashfetcher tool, not part of the servers",
	"app.writeInitSegment|app.writeTimeSubsInitSegment":            "(matched, err) pair: returned when matched; not matched comes with a nil error",
	"app.writeLiveSegment|app.writeTimeSubsMediaSegment":           "(matched, err) pair: returned when matched; not matched comes with a nil error",
	"app.writeSegment|app.writeTimeSubsMediaSegment":               "(matched, err) pair: returned when matched; not matched comes with a nil error",
	"app.writeTimeSubsInitSegment|app.matchTimeSubsInitLang":       "(.., ok, err) tuple: not ok comes with a nil error",
}

// errDiscRule: in the error-returning repository functions statically reachable from the anchors, the
// error result of every call to a repository function is returned on all its non-nil paths.
func errDiscRule(p *Program, r *Reporter, anchors ...*ssa.Function) {
	r.Rule("E5-ERRDISC", "error results of repository calls are returned on every non-nil path (error-returning functions below the property's anchors)", 0)
	var fns []*ssa.Function
	for fn := range staticReach(p, anchors...) {
		fns = append(fns, fn)
	}
	sort.Slice(fns, func(i, j int) bool { return shortFn(fns[i]) < shortFn(fns[j]) })
	for _, fn := range fns {
		res := fn.Signature.Results()
		retErr := false
		for i := 0; i < res.Len(); i++ {
			if isErrorType(res.At(i).Type()) {
				retErr = true
			}
		}
		if !retErr {
			continue
		}
		for _, b := range fn.Blocks {
			for _, in := range b.Instrs {
				c, ok := in.(*ssa.Call)
				if !ok {
					continue
				}
				callee := c.Call.StaticCallee()
				if callee == nil || !p.isRepoFunc(callee) {
					continue
				}
				for _, e := range errorValuesOfCall(c) {
					construct := "err<-" + shortFn(callee)
					why := "the error result is discarded"
					ok := false
					if e != nil {
						ok, why = errorReturnedWhenNonNil(e)
					}
					// (flag, err) pair: the callee reports an error only together with a true flag, and the
					// caller returns the error on the flag's true side
					if !ok && e != nil && c.Referrers() != nil {
						if k := calleeErrOnlyWithTrueFlag(callee); k >= 0 {
							for _, ref := range *c.Referrers() {
								if ex, isEx := ref.(*ssa.Extract); isEx && ex.Index == k {
									if ok2, why2 := errorReturnedWhenNonNilF(e, ex); ok2 {
										ok, why = true, why2+" (error only together with a true flag; the flag's false side is exempt)"
									}
								}
							}
						}
					}
					if !ok {
						if reason, isEx := errDiscExceptions[shortFn(fn)+"|"+shortFn(callee)]; isEx {
							r.Exception("E5-ERRDISC", shortFn(fn), construct, p.pos(instrPos(c)), "reviewed exception: "+reason)
							continue
						}
					}
					r.Decide(ok, "E5-ERRDISC", shortFn(fn), construct, p.pos(instrPos(c)), why, "an error from "+shortFn(callee)+" can be dropped: "+why, nil)
				}
			}
		}
	}
}

func errDiscByName(p *Program, r *Reporter, pkg string, names ...string) {
	var anchors []*ssa.Function
	for _, n := range names {
		if fn := p.mustFunc(r, pkg, n); fn != nil {
			anchors = append(anchors, fn)
		}
	}
	if len(anchors) > 0 {
		errDiscRule(p, r, anchors...)
	}
}

// limiterSurfaceRule (C20): (a) the counter value a response reports is the value returned by the very
// Inc call that counted the request, never a second read of the counter (another request may have been
// counted in between, so values repeat and others are skipped); (b) the client key taken from
// X-Forwarded-For is not cut at a colon by hand (an IPv6 address contains colons; net.SplitHostPort is
// the only colon-aware way to drop a port).
func limiterSurfaceRule(p *Program, r *Reporter, inc *ssa.Function) {
	r.Rule("E4-HDRCOUNT", "the counter in the response header is the result of the Inc call that counted the request", 1)
	mw := p.mustFunc(r, pkgApp, "NewLimiterMiddleware")
	n := 0
	if mw != nil {
		for fn := range staticReach(p, mw) {
			for _, b := range fn.Blocks {
				for _, in := range b.Instrs {
					c, ok := in.(*ssa.Call)
					if !ok || !c.Call.IsInvoke() && (c.Call.StaticCallee() == nil || c.Call.StaticCallee().String() != "(net/http.Header).Set") {
						continue
					}
					if c.Call.IsInvoke() || len(c.Call.Args) < 3 {
						continue
					}
					val := c.Call.Args[2]
					fromInc, fromCount := false, ""
					seen := map[ssa.Value]bool{}
					sliceVisit(p, val, true, func(x ssa.Value) {
						if seen[x] {
							return
						}
						seen[x] = true
						switch y := x.(type) {
						case *ssa.Extract:
							if cc, ok := y.Tuple.(*ssa.Call); ok && cc.Call.StaticCallee() == inc && y.Index == 0 {
								fromInc = true
							}
						case *ssa.Call:
							if cal := y.Call.StaticCallee(); cal != nil && cal != inc && cal.Signature.Recv() != nil && strings.Contains(cal.Signature.Recv().Type().String(), "IPRequestLimiter") {
								fromCount = shortFn(cal)
							}
						}
					})
					if !fromInc && fromCount == "" {
						continue // another header
					}
					n++
					r.Decide(fromInc && fromCount == "", "E4-HDRCOUNT", shortFn(fn), "header-value", p.pos(c.Pos()), "formatted from the count returned by Inc",
						"the counter reported in the header is read again through "+fromCount+" instead of taken from the Inc call that counted this request: under concurrency values repeat and others never appear", nil)
				}
			}
		}
	}
	if n == 0 {
		r.Broken("limiter middleware: no response header formatted from the request count found")
	}
	r.Rule("E5-FWDKEY", "the client key taken from X-Forwarded-For is not cut at a colon by hand", 1)
	ipf := p.mustFunc(r, pkgApp, "ipFromRequest")
	if ipf == nil {
		return
	}
	cuts := ""
	for fn := range staticReach(p, ipf) {
		for _, b := range fn.Blocks {
			for _, in := range b.Instrs {
				c, ok := in.(*ssa.Call)
				if !ok || c.Call.StaticCallee() == nil {
					continue
				}
				switch c.Call.StaticCallee().String() {
				case "strings.Index", "strings.LastIndex", "strings.IndexByte", "strings.LastIndexByte", "strings.Cut", "strings.Split", "strings.SplitN", "strings.IndexRune":
					if len(c.Call.Args) >= 2 {
						if s, ok := constString(c.Call.Args[1]); ok && s == ":" {
							cuts = c.Call.StaticCallee().String() + " at " + p.pos(c.Pos())
						}
						if k, ok := constInt(c.Call.Args[1]); ok && k == ':' {
							cuts = c.Call.StaticCallee().String() + " at " + p.pos(c.Pos())
						}
					}
				}
			}
		}
	}
	r.Decide(cuts == "", "E5-FWDKEY", shortFn(ipf), "forwarded-address", p.pos(ipf.Pos()), "no colon-based cutting of the address",
		"the address is cut at a colon ("+cuts+"): an IPv6 address loses its tail, so different clients share a counter and white-listed IPv6 clients are limited", nil)
}

// startGuardRule (C04): before availabilityStartTime every request is refused (425), segments included.
// Each call that serves a media or init segment from the livesim handler is dominated by the failing side of
// a comparison between the request time and the configured start time, directly or through the success
// conditions of a helper whose error ends the request.
func startGuardRule(p *Program, r *Reporter, h *ssa.Function, serving ...string) {
	r.Rule("E5-STARTGUARD", "segment-serving calls of the handler lie behind the 'now is before the start time' refusal", 1)
	n := 0
	for _, fn := range cluster(h) {
		ff := factsOf(fn)
		for _, b := range fn.Blocks {
			for _, in := range b.Instrs {
				c, ok := in.(*ssa.Call)
				if !ok || c.Call.StaticCallee() == nil {
					continue
				}
				name := c.Call.StaticCallee().Name()
				hit := false
				for _, s := range serving {
					if s == name {
						hit = true
					}
				}
				if !hit {
					continue
				}
				n++
				guarded := false
				conds := effectiveDomConds(b)
				// success conditions of helpers, of the helpers they call, ... (three levels)
				for lvl, from := 0, 0; lvl < 3; lvl++ {
					end := len(conds)
					for _, cd := range conds[from:end] {
						if call, idx, errForm, ok := calleeOfCondition(cd); ok {
							conds = append(conds, summaryDominating(call, idx, errForm)...)
						}
					}
					from = end
				}
				for _, cd := range conds {
					bo, isBin := cd.V.(*ssa.BinOp)
					if !isBin {
						continue
					}
					switch bo.Op {
					case token.LSS, token.LEQ, token.GTR, token.GEQ:
					default:
						continue
					}
					if valueDependsOnField(p, bo, "app.ResponseConfig.StartTimeS") {
						guarded = true
					}
				}
				_ = ff
				r.Decide(guarded, "E5-STARTGUARD", shortFn(fn), "call:"+name, p.pos(c.Pos()), "dominated by a comparison with the configured start time",
					"segments are served without the 'request is before availabilityStartTime' test: with an infinite (or large) availabilityTimeOffset a segment is answered 200 before the stream has started", nil)
			}
		}
	}
	if n == 0 {
		r.Broken("%s: no segment-serving call found", shortFn(h))
	}
}

// allPathsDepends: on every path v is computed from a value satisfying pred (phi: all edges; arithmetic and
// calls: some operand; a local variable: all its stores). Constants and parameters do not qualify.
func allPathsDepends(v ssa.Value, pred func(ssa.Value) bool, seen map[ssa.Value]bool) bool {
	if pred(v) {
		return true
	}
	if seen[v] {
		return true // a cycle adds no new source
	}
	seen[v] = true
	switch x := v.(type) {
	case *ssa.Phi:
		for _, e := range x.Edges {
			if !allPathsDepends(e, pred, seen) {
				return false
			}
		}
		return len(x.Edges) > 0
	case *ssa.Convert:
		return allPathsDepends(x.X, pred, seen)
	case *ssa.ChangeType:
		return allPathsDepends(x.X, pred, seen)
	case *ssa.BinOp:
		return allPathsDepends(x.X, pred, seen) || allPathsDepends(x.Y, pred, seen)
	case *ssa.UnOp:
		if x.Op == token.MUL {
			if al, ok := x.X.(*ssa.Alloc); ok && al.Referrers() != nil {
				n := 0
				for _, ref := range *al.Referrers() {
					if st, ok := ref.(*ssa.Store); ok && st.Addr == ssa.Value(al) {
						n++
						if !allPathsDepends(st.Val, pred, seen) {
							return false
						}
					}
				}
				return n > 0
			}
			return false
		}
		return allPathsDepends(x.X, pred, seen)
	case *ssa.Call:
		for _, a := range x.Call.Args {
			if allPathsDepends(a, pred, seen) {
				return true
			}
		}
	case *ssa.Extract:
		return allPathsDepends(x.Tuple, pred, seen)
	}
	return false
}

// offsetAlwaysRule (C02): the availability time offset that the MPD side hands to the SegmentTimeline
// generator is the configured offset on every path on which the adaptation set is set up successfully: the
// segment server subtracts the offset for every request, complete segments or not.
func offsetAlwaysRule(p *Program, r *Reporter) {
	r.Rule("E4-ATOALWAYS", "the offset returned for the timeline generator is computed from the configured availabilityTimeOffset on every successful path", 1)
	fn := p.mustFunc(r, pkgApp, "setOffsetInAdaptationSet")
	if fn == nil {
		return
	}
	isAto := func(v ssa.Value) bool {
		if c, ok := v.(*ssa.Call); ok && c.Call.StaticCallee() != nil && c.Call.StaticCallee().Name() == "getAvailabilityTimeOffsetS" {
			return true
		}
		f, ok := loadedField(v)
		return ok && strings.HasPrefix(f, "app.ResponseConfig.AvailabilityTimeOffsetS")
	}
	n := 0
	for _, b := range fn.Blocks {
		ret, ok := b.Instrs[len(b.Instrs)-1].(*ssa.Return)
		if !ok || len(ret.Results) == 0 || isErrorExit(b) || !ret.Pos().IsValid() {
			continue
		}
		n++
		r.Decide(allPathsDepends(ret.Results[0], isAto, map[ssa.Value]bool{}), "E4-ATOALWAYS", shortFn(fn), "return:atoMS", p.pos(ret.Pos()), "computed from the configured offset on every path",
			"on some path the offset handed to the timeline generator is not the configured one (e.g. only set for low-latency mode): the MPD's newest entry then lags behind what the server, which always subtracts the offset, already serves", nil)
	}
	if n == 0 {
		r.Broken("setOffsetInAdaptationSet: no successful return found")
	}
}

// mayBeValue: v is old, or a phi one of whose edges may be old (the value is kept on some path).
func mayBeValue(v, old ssa.Value, seen map[ssa.Value]bool) bool {
	if v == old {
		return true
	}
	if seen[v] {
		return false
	}
	seen[v] = true
	if ph, ok := v.(*ssa.Phi); ok {
		for _, e := range ph.Edges {
			if mayBeValue(e, old, seen) {
				return true
			}
		}
	}
	return false
}

// periodCutRule (C06): a segment belongs to the period that contains its START. In the function that cuts a
// SegmentTimeline to a period, every comparison with the period's start or end has the running segment
// start itself on the other side (no duration added to it), in the half-open forms start < periodStart
// (before the period) and start >= periodEnd (past it).
func periodCutRule(p *Program, r *Reporter, fn *ssa.Function) {
	r.Rule("E5-PERIODCUT", "the period cut compares start times with the period bounds in the half-open forms (< start, >= end)", 2)
	var startPrm, endPrm *ssa.Parameter
	for _, prm := range fn.Params {
		switch prm.Name() {
		case "periodStartS":
			startPrm = prm
		case "periodEndS":
			endPrm = prm
		}
	}
	if startPrm == nil || endPrm == nil {
		r.Broken("%s: period bound parameters not found", shortFn(fn))
		return
	}
	n := 0
	for _, b := range fn.Blocks {
		for _, in := range b.Instrs {
			bo, ok := in.(*ssa.BinOp)
			if !ok {
				continue
			}
			switch bo.Op {
			case token.LSS, token.LEQ, token.GTR, token.GEQ:
			default:
				continue
			}
			side := func(v ssa.Value) string {
				ds, de := localDependsOnParam(p, v, startPrm), localDependsOnParam(p, v, endPrm)
				switch {
				case ds && !de:
					return "start"
				case de && !ds:
					return "end"
				}
				return ""
			}
			bx, by := side(bo.X), side(bo.Y)
			if (bx == "") == (by == "") {
				continue
			}
			bound, other, op := by, bo.X, bo.Op
			if bx != "" {
				// bound OP other  ==>  other OP' bound
				bound, other = bx, bo.Y
				switch op {
				case token.LSS:
					op = token.GTR
				case token.LEQ:
					op = token.GEQ
				case token.GTR:
					op = token.LSS
				case token.GEQ:
					op = token.LEQ
				}
			}
			n++
			_ = other
			okForm := (bound == "start" && (op == token.LSS || op == token.GEQ)) || (bound == "end" && (op == token.GEQ || op == token.LSS))
			msg := ""
			if !okForm {
				msg = "the comparison with the period " + bound + " is not the half-open form (a start time < periodStart / >= periodEnd): a segment starting exactly on the boundary, or ending just after it, is placed in the wrong period or in none"
			}
			r.Decide(msg == "", "E5-PERIODCUT", shortFn(fn), "compare:period-"+bound, p.pos(bo.Pos()), "segment start compared half-open with the period "+bound, msg, nil)
		}
	}
	if n == 0 {
		r.Broken("%s: no comparison with the period bounds found", shortFn(fn))
	}
}

// exactEarlyRule (C04/C09): the decision "too early" compares the availability time with the request time as
// they are; a rounded difference lets a request that is a fraction of a millisecond early through.
func exactEarlyRule(p *Program, r *Reporter) {
	r.Rule("E5-EXACTEARLY", "the too-early decision is an unrounded comparison of availability time and request time", 1)
	ctv := p.mustFunc(r, pkgApp, "CheckTimeValidity")
	ne := p.lookupFunc(pkgApp, "newErrTooEarly")
	if ctv == nil || ne == nil {
		return
	}
	n := 0
	for _, s := range callsTo(p, ne) {
		if !inClusterList(cluster(ctv), s.Parent()) {
			continue
		}
		for _, cd := range effectiveCDeps(s.Block(), false) {
			bo, ok := cd.V.(*ssa.BinOp)
			if !ok {
				continue
			}
			n++
			rc := roundingCallsInSlice(p, bo)
			seen := map[ssa.Value]bool{}
			sliceVisit(p, bo, true, func(x ssa.Value) {
				if seen[x] {
					return
				}
				seen[x] = true
				if c, ok := x.(*ssa.Call); ok && c.Call.StaticCallee() != nil {
					switch c.Call.StaticCallee().String() {
					case "math.Floor", "math.Trunc":
						rc = append(rc, c.Call.StaticCallee().String()+" at "+p.pos(c.Pos()))
					}
				}
				if cv, ok := x.(*ssa.Convert); ok && isFloatType(cv.X.Type()) && isIntegerType(cv.Type()) {
					rc = append(rc, "float-to-integer conversion at "+p.pos(cv.Pos()))
				}
			})
			r.Decide(len(rc) == 0, "E5-EXACTEARLY", shortFn(s.Parent()), "too-early-test", p.pos(bo.Pos()), "no rounding in the compared values",
				"the too-early test works on rounded values ("+strings.Join(rc, ", ")+"): a request made a fraction of a millisecond before the availability time is served instead of refused", nil)
		}
	}
	if n == 0 {
		r.Broken("CheckTimeValidity: no condition guarding the too-early error found")
	}
}

// encryptBeforeWriteRule (C10): in chunked delivery every path to a chunk write either passes an encryption
// call or the 'no DRM requested' edge of a test of the DRM setting (checked per function: the delivery
// function itself and each closure it creates).
func encryptBeforeWriteRule(p *Program, r *Reporter, wcs *ssa.Function) {
	r.Rule("E5-ENCBEFOREWRITE", "the chunk-write sites agree: all of them lie behind the encryption call (or the no-DRM edge), or none does", 1)
	n := 0
	isEnc := func(b *ssa.BasicBlock) bool {
		for _, in := range b.Instrs {
			if c, ok := in.(*ssa.Call); ok && c.Call.StaticCallee() != nil && c.Call.StaticCallee().Name() == "encryptFrags" {
				return true
			}
		}
		return false
	}
	// blocks of fn reachable from its entry without executing encryptFrags and without taking a no-DRM edge
	uncovered := func(fn *ssa.Function) map[*ssa.BasicBlock]bool {
		reach := map[*ssa.BasicBlock]bool{}
		var work []*ssa.BasicBlock
		if len(fn.Blocks) > 0 {
			work = append(work, fn.Blocks[0])
		}
		for len(work) > 0 {
			b := work[0]
			work = work[1:]
			if reach[b] {
				continue
			}
			reach[b] = true
			if isEnc(b) {
				continue
			}
			skip := -1
			if ifi, ok := b.Instrs[len(b.Instrs)-1].(*ssa.If); ok {
				if bo, ok := ifi.Cond.(*ssa.BinOp); ok && (bo.Op == token.NEQ || bo.Op == token.EQL) {
					if f, ok := loadedField(bo.X); ok && f == "app.ResponseConfig.DRM" {
						if s, ok := constString(bo.Y); ok && s == "" {
							skip = 1
							if bo.Op == token.EQL {
								skip = 0
							}
						}
					}
				}
			}
			for i, s := range b.Succs {
				if i != skip {
					work = append(work, s)
				}
			}
		}
		return reach
	}
	unc := map[*ssa.Function]map[*ssa.BasicBlock]bool{}
	get := func(fn *ssa.Function) map[*ssa.BasicBlock]bool {
		if m, ok := unc[fn]; ok {
			return m
		}
		unc[fn] = uncovered(fn)
		return unc[fn]
	}
	// a private helper is entered uncovered only if its single call site is uncovered in the caller
	var enteredUncovered func(fn *ssa.Function, depth int) bool
	enteredUncovered = func(fn *ssa.Function, depth int) bool {
		if fn == wcs || fn.Parent() != nil || depth > 3 {
			return true
		}
		site := uniqueCallSite(fn)
		if site == nil {
			return true
		}
		caller := site.Parent()
		return get(caller)[site.Block()] && !isEnc(site.Block()) && enteredUncovered(caller, depth+1)
	}
	var fns []*ssa.Function
	for _, fn := range cluster(wcs) {
		fns = append(fns, fn)
		fns = append(fns, fn.AnonFuncs...)
	}
	type wsite struct {
		fn  *ssa.Function
		c   *ssa.Call
		bad bool
	}
	var sitesW []wsite
	for _, fn := range fns {
		for _, b := range fn.Blocks {
			for _, in := range b.Instrs {
				c, ok := in.(*ssa.Call)
				if !ok || c.Call.StaticCallee() == nil || c.Call.StaticCallee().Name() != "writeChunk" {
					continue
				}
				n++
				sitesW = append(sitesW, wsite{fn, c, get(fn)[b] && !isEnc(b) && enteredUncovered(fn, 0)})
			}
		}
	}
	// sibling agreement: the write sites are all behind the encryption (it happens in this function), or none
	// is (it happens elsewhere, e.g. inside the splitter); a mixture leaves some chunks in the clear
	covered := 0
	for _, w := range sitesW {
		if !w.bad {
			covered++
		}
	}
	for _, w := range sitesW {
		r.Decide(!w.bad || covered == 0, "E5-ENCBEFOREWRITE", shortFn(w.fn), "call:writeChunk", p.pos(w.c.Pos()), "agrees with the other chunk-write sites on passing the encryption call or the no-DRM edge",
			"this chunk write is reached without the encryption call that the other write sites pass: with DRM requested this chunk goes out in the clear inside an encrypted segment", nil)
	}
	if n == 0 {
		r.Broken("writeChunkedSegment: no chunk write found")
	}
}

// truncRule (C15): a metadata file is written from scratch: os.Create, or os.OpenFile with O_TRUNC. Without
// truncation a shorter rewrite leaves the tail of the old file behind and the file no longer decodes.
func truncRule(p *Program, r *Reporter, anchors ...*ssa.Function) {
	r.Rule("E5-TRUNC", "files opened for writing by the metadata writer are truncated", 0)
	for fn := range staticReach(p, anchors...) {
		for _, b := range fn.Blocks {
			for _, in := range b.Instrs {
				c, ok := in.(*ssa.Call)
				if !ok || c.Call.StaticCallee() == nil || c.Call.StaticCallee().String() != "os.OpenFile" || len(c.Call.Args) < 2 {
					continue
				}
				flags, ok := constInt(c.Call.Args[1])
				if !ok {
					continue
				}
				const oWRONLY, oRDWR, oAPPEND, oEXCL, oTRUNC = 0x1, 0x2, 0x400, 0x80, 0x200
				if flags&(oWRONLY|oRDWR) == 0 {
					continue
				}
				r.Decide(flags&(oTRUNC|oAPPEND|oEXCL) != 0, "E5-TRUNC", shortFn(fn), "call:os.OpenFile", p.pos(c.Pos()), "opened with O_TRUNC, O_APPEND or O_EXCL",
					"the file is opened for writing without O_TRUNC: rewriting it with a shorter content leaves the old tail behind (a gzip metadata file then fails to decode on the next start)", nil)
			}
		}
	}
}

// sameNumberRule (C17): the file that is removed when a segment leaves the window is named by the same field
// of the received-segment record as the file that was created for it.
func sameNumberRule(p *Program, r *Reporter, h *ssa.Function) {
	r.Rule("E4-SAMENUMBER", "stored and removed segment files are named by the same sequence-number field", 1)
	fieldsOf := func(v ssa.Value) map[string]bool {
		out := map[string]bool{}
		seen := map[ssa.Value]bool{}
		sliceVisitUntil(p, v, true, func(x ssa.Value) {
			if seen[x] {
				return
			}
			seen[x] = true
			if f, ok := loadedField(x); ok && strings.HasPrefix(f, "recv.recSegData.") && strings.Contains(strings.ToLower(f), "seqnr") {
				out[f] = true
			}
		}, func(x ssa.Value) bool {
			f, ok := loadedField(x)
			return ok && strings.HasPrefix(f, "recv.recSegData.") // the field named in the path, not what it was computed from
		})
		return out
	}
	var created, removed []map[string]bool
	var rmPos token.Pos
	for fn := range staticReach(p, h) {
		for _, b := range fn.Blocks {
			for _, in := range b.Instrs {
				c, ok := in.(*ssa.Call)
				if !ok || c.Call.StaticCallee() == nil || len(c.Call.Args) == 0 {
					continue
				}
				switch c.Call.StaticCallee().String() {
				case "os.Create":
					if f := fieldsOf(c.Call.Args[0]); len(f) > 0 {
						created = append(created, f)
					}
				case "os.Remove":
					if f := fieldsOf(c.Call.Args[0]); len(f) > 0 {
						removed = append(removed, f)
						rmPos = c.Pos()
					}
				}
			}
		}
	}
	if len(created) == 0 || len(removed) == 0 {
		r.Broken("receiver: segment file creation (%d) or removal (%d) by sequence number not found", len(created), len(removed))
		return
	}
	for _, rm := range removed {
		ok := false
		for _, cr := range created {
			same := len(cr) == len(rm)
			for f := range rm {
				if !cr[f] {
					same = false
				}
			}
			if same {
				ok = true
			}
		}
		r.Decide(ok, "E4-SAMENUMBER", shortFn(h), "os.Remove.path", p.pos(rmPos), "named by the same record field as the created file",
			"the file removed when a segment leaves the window is named by "+strings.Join(sortedKeys(rm), ", ")+", the stored files by another field: when incoming and stored numbers differ the wrong file (or none) is deleted", nil)
	}
}

// noReopenRule (C20): the critical section of Inc is not opened in the middle: no method reachable from Inc
// calls Unlock explicitly (Inc releases the mutex by a deferred Unlock at its end). A helper that unlocks
// for a slow operation and locks again lets other requests in between the elapsed test and the reset.
func noReopenRule(p *Program, r *Reporter, inc *ssa.Function) {
	r.Rule("E2-NOREOPEN", "no method reachable from Inc releases the limiter's mutex and takes it again", 1)
	n := 0
	for fn := range staticReach(p, inc) {
		if fn.Signature.Recv() == nil || !strings.Contains(fn.Signature.Recv().Type().String(), "IPRequestLimiter") {
			continue
		}
		n++
		bad := ""
		isMu := func(cc *ssa.CallCommon, names ...string) bool {
			if cc.StaticCallee() == nil {
				return false
			}
			for _, nme := range names {
				if cc.StaticCallee().String() == nme {
					return true
				}
			}
			return false
		}
		ff := factsOf(fn)
		for _, b := range fn.Blocks {
			for ui, in := range b.Instrs {
				c, ok := in.(*ssa.Call)
				if !ok || !isMu(&c.Call, "(*sync.Mutex).Unlock", "(*sync.RWMutex).Unlock", "(*sync.RWMutex).RUnlock") {
					continue
				}
				// is the mutex taken again after this release (a later Lock, or a deferred Lock that runs at exit)?
				for _, b2 := range fn.Blocks {
					for li, in2 := range b2.Instrs {
						relock := false
						switch x := in2.(type) {
						case *ssa.Call:
							relock = isMu(&x.Call, "(*sync.Mutex).Lock", "(*sync.RWMutex).Lock", "(*sync.RWMutex).RLock") && ((b2 == b && li > ui) || (b2 != b && ff.blockReaches(b, b2)))
						case *ssa.Defer:
							relock = isMu(&x.Call, "(*sync.Mutex).Lock", "(*sync.RWMutex).Lock", "(*sync.RWMutex).RLock")
						}
						if relock {
							bad = p.pos(c.Pos())
						}
					}
				}
			}
		}
		r.Decide(bad == "", "E2-NOREOPEN", shortFn(fn), "explicit-unlock", p.pos(fn.Pos()), "the mutex is not released and re-acquired",
			"the mutex is released at "+bad+" and taken again afterwards inside the section that counts, compares and resets: other requests run in between and their counts are wiped by the reset", nil)
	}
	if n == 0 {
		r.Broken("no limiter method reachable from Inc")
	}
}

// freshPerItemRule (C14): every pattern of a status-code list starts from the defaults: the value appended
// (or stored) per pattern is created inside the loop over patterns, not carried over from the previous one.
func freshPerItemRule(p *Program, r *Reporter, fn *ssa.Function, elemSuffix string) {
	r.Rule("E5-FRESHPERITEM", "each parsed pattern starts from a fresh value (nothing carried over from the previous pattern)", 0)
	for _, b := range fn.Blocks {
		for _, in := range b.Instrs {
			c, ok := in.(*ssa.Call)
			if !ok {
				continue
			}
			bi, ok := c.Call.Value.(*ssa.Builtin)
			if !ok || bi.Name() != "append" || !blockInCycle(b) {
				continue
			}
			sl, ok := c.Type().Underlying().(*types.Slice)
			if !ok || !strings.HasSuffix(sl.Elem().String(), elemSuffix) {
				continue
			}
			// the appended element: stored into the one-element backing array from a load of a variable
			stale := ""
			// append(xs, v): the variadic argument is a slice of a one-element array into which v was stored
			if sl, ok := c.Call.Args[1].(*ssa.Slice); ok {
				if arr, ok := sl.X.(*ssa.Alloc); ok && arr.Referrers() != nil {
					for _, ref := range *arr.Referrers() {
						ia, ok := ref.(*ssa.IndexAddr)
						if !ok || ia.Referrers() == nil {
							continue
						}
						for _, r2 := range *ia.Referrers() {
							st, ok := r2.(*ssa.Store)
							if !ok {
								continue
							}
							if ld, ok := st.Val.(*ssa.UnOp); ok && ld.Op == token.MUL {
								if al, ok := ld.X.(*ssa.Alloc); ok && !blockInCycle(al.Block()) {
									stale = p.pos(al.Pos())
								}
							}
						}
					}
				}
			}
			r.Decide(stale == "", "E5-FRESHPERITEM", shortFn(fn), "append:"+elemSuffix, p.pos(c.Pos()), "the appended value is created inside the loop",
				"the value appended for each pattern is a variable declared outside the loop ("+stale+"): keys that a later pattern omits keep the previous pattern's values instead of the defaults", nil)
		}
	}
}

// initFlagRule (C18): the init flag of the chunk data is only ever set (to true), and the record is never
// replaced as a whole inside the parse loop (which would clear the flag after the first chunk).
func initFlagRule(p *Program, r *Reporter, parse *ssa.Function) {
	r.Rule("E5-INITFLAG", "the init flag is only set to true, and the chunk record is not replaced as a whole inside the parse loop", 1)
	n := 0
	for _, b := range parse.Blocks {
		for _, in := range b.Instrs {
			st, ok := in.(*ssa.Store)
			if !ok {
				continue
			}
			if f, ok := fieldOfAddr(st.Addr); ok && f == "chunkparser.ChunkData.IsInitSegment" {
				if !blockInCycle(b) {
					continue // initialisation before the parse loop
				}
				n++
				c, isC := st.Val.(*ssa.Const)
				r.Decide(isC && c.Value != nil && c.Value.String() == "true", "E5-INITFLAG", shortFn(parse), "store:IsInitSegment", p.pos(st.Pos()), "set to true",
					"the init flag is assigned something else than true: it no longer means 'a movie box was seen in this stream'", nil)
			}
			if al, ok := st.Addr.(*ssa.Alloc); ok && strings.HasSuffix(al.Type().String(), "chunkparser.ChunkData") && blockInCycle(b) {
				r.Violate("E5-INITFLAG", shortFn(parse), "store:ChunkData", p.pos(st.Pos()), "the chunk record is replaced as a whole inside the parse loop: the init flag is cleared after the first completed chunk although a movie box was seen", nil)
			}
		}
	}
	if n == 0 {
		r.Broken("Parse: no store to ChunkData.IsInitSegment")
	}
}

// attrOpsRule (C11): the patch operation written for an attribute list matches the list: add <- Added,
// replace <- Changed, remove <- Removed. Checked at each creation of an operation element inside a loop
// over one of the three lists (directly, or in a helper that receives the operation name and the list).
func attrOpsRule(p *Program, r *Reporter, fn *ssa.Function) {
	r.Rule("E4-ATTROPS", "attribute operations: add from the added, replace from the changed, remove from the removed attributes", 3)
	want := map[string]string{"add": "patch.attrChange.Added", "replace": "patch.attrChange.Changed", "remove": "patch.attrChange.Removed"}
	n := 0
	check := func(op string, list ssa.Value, pos token.Pos, where *ssa.Function) {
		w, ok := want[op]
		if !ok {
			return
		}
		got := ""
		for _, f := range []string{"patch.attrChange.Added", "patch.attrChange.Changed", "patch.attrChange.Removed"} {
			q := newDepQuery(p, onField(f))
			q.noParams = true
			if q.depends(list, 0) {
				got += f[len("patch.attrChange."):] + " "
			}
		}
		n++
		r.Decide(strings.TrimSpace(got) == w[len("patch.attrChange."):], "E4-ATTROPS", shortFn(where), "op:"+op, p.pos(pos), "'"+op+"' operations are written for the "+w[len("patch.attrChange."):]+" attributes",
			"'"+op+"' operations are written for the attributes in "+strings.TrimSpace(got)+", not in "+w[len("patch.attrChange."):]+": the patch removes what it should add (or the reverse)", nil)
	}
	for _, cf := range cluster(fn) {
		for _, b := range cf.Blocks {
			for _, in := range b.Instrs {
				c, ok := in.(*ssa.Call)
				if !ok || c.Call.StaticCallee() == nil || c.Call.StaticCallee().Name() != "CreateElement" || len(c.Call.Args) != 2 {
					continue
				}
				// the list ranged over around this creation: the range loop's slice operand
				var list ssa.Value
				for _, cd := range effectiveCDeps(b, true) {
					if !isLoopTest(cd) {
						continue
					}
					sliceVisitIntra(p, cd.V, func(x ssa.Value) {
						if cl, ok := x.(*ssa.Call); ok {
							if bi, ok := cl.Call.Value.(*ssa.Builtin); ok && bi.Name() == "len" {
								list = cl.Call.Args[0]
							}
						}
					})
				}
				if list == nil {
					continue
				}
				if op, ok := constString(c.Call.Args[1]); ok {
					check(op, list, c.Pos(), cf)
					continue
				}
				// operation name handed in as a parameter: one check per call site of the helper
				if prm, ok := c.Call.Args[1].(*ssa.Parameter); ok {
					lp, isPrm := list.(*ssa.Parameter)
					for _, site := range callsTo(p, cf) {
						args := site.Common().Args
						var opArg, listArg ssa.Value
						for i, q := range cf.Params {
							if q == prm && i < len(args) {
								opArg = args[i]
							}
							if isPrm && q == lp && i < len(args) {
								listArg = args[i]
							}
						}
						if opArg == nil || listArg == nil {
							continue
						}
						if op, ok := constString(opArg); ok {
							check(op, listArg, site.Pos(), site.Parent())
						}
					}
				}
			}
		}
	}
	if n == 0 {
		r.Broken("%s: no attribute operation creation inside a loop over an attribute list found", shortFn(fn))
	}
}

// encDataRefusalRule (C10): a representation without encryption data (pre-encrypted, or of a type that
// cannot be encrypted) makes the fragment encryptor fail: the nil side of its test of the encryption data
// is an error exit. Returning success there serves the stored, pre-encrypted bytes under a DRM URL.
func encDataRefusalRule(p *Program, r *Reporter) {
	r.Rule("E5-ENCREFUSE", "the fragment encryptor fails for a representation without encryption data", 1)
	ef := p.mustFunc(r, pkgApp, "encryptFrags")
	if ef == nil {
		return
	}
	n := 0
	for _, cf := range cluster(ef) {
		for _, b := range cf.Blocks {
			ifi, ok := b.Instrs[len(b.Instrs)-1].(*ssa.If)
			if !ok {
				continue
			}
			bo, ok := ifi.Cond.(*ssa.BinOp)
			if !ok || (bo.Op != token.EQL && bo.Op != token.NEQ) || !isNilConst(bo.Y) {
				continue
			}
			f, ok := loadedField(bo.X)
			if !ok || f != "app.RepData.encData" {
				continue
			}
			n++
			nilSide := b.Succs[0]
			if bo.Op == token.NEQ {
				nilSide = b.Succs[1]
			}
			r.Decide(isErrorExit(nilSide) || factsOf(cf).errOnly[nilSide], "E5-ENCREFUSE", shortFn(cf), "encData==nil", p.pos(bo.Pos()), "the nil side is an error exit",
				"with no encryption data the encryptor returns without an error: a DRM request for a pre-encrypted (or non-encryptable) representation is answered 200 with bytes that were not encrypted for it", nil)
		}
	}
	if n == 0 {
		r.Violate("E5-ENCREFUSE", shortFn(ef), "encData==nil", p.pos(ef.Pos()), "the fragment encryptor no longer tests whether the representation has encryption data", nil)
	}
}

// offsetArgRule (C02): the offset handed to the availability test is, on every path, the configured
// availabilityTimeOffset (or the caller's own parameter): no kind of representation gets another offset
// on the server than the one the MPD declares for it.
func offsetArgRule(p *Program, r *Reporter) {
	r.Rule("E4-ATOARG", "the offset argument of the availability test is the configured offset on every path", 3)
	ctv := p.mustFunc(r, pkgApp, "CheckTimeValidity")
	if ctv == nil {
		return
	}
	idx := -1
	for i, prm := range ctv.Params {
		if prm.Name() == "availabilityTimeOffsetS" {
			idx = i
		}
	}
	if idx < 0 {
		r.Broken("CheckTimeValidity has no availabilityTimeOffsetS parameter")
		return
	}
	isAto := func(v ssa.Value) bool {
		if c, ok := v.(*ssa.Call); ok && c.Call.StaticCallee() != nil && c.Call.StaticCallee().Name() == "getAvailabilityTimeOffsetS" {
			return true
		}
		if _, ok := v.(*ssa.Parameter); ok {
			return true // handed in by the caller, checked there
		}
		f, ok := loadedField(v)
		return ok && strings.HasPrefix(f, "app.ResponseConfig.AvailabilityTimeOffsetS")
	}
	for _, s := range callsTo(p, ctv) {
		arg := s.Common().Args[idx]
		r.Decide(allPathsDepends(arg, isAto, map[ssa.Value]bool{}), "E4-ATOARG", shortFn(s.Parent()), "CheckTimeValidity.offset", p.pos(s.Pos()), "the configured offset on every path",
			"on some path the availability test gets another offset than the configured one (e.g. zero for one kind of representation) while the MPD declares the configured offset for it: the newest declared segment is refused as too early", nil)
	}
}
