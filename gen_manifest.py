#!/usr/bin/env python3
"""Generates MANIFEST.json from the table below (single source of truth)."""
import json

CLAIMED = {
 "C01": dict(
   text="Static dependence analysis of structural necessary conditions: the $Number$ and the $Time$ lookup fill the segment metadata from the same sources (original time/number/duration from the selected VoD segment, timescale from the representation; new time by number from VoD start, loop duration and requested number; new number by time from configured start number, loop duration and requested time); the served segment is rewritten from that metadata (sequence number from the new number, decode time and sidx time from the new time) and embedded TTML timestamps are shifted by the very value the decode time is shifted by. The arithmetic itself (which VoD segment, exact times, contiguity across wraps), sample identity and byte-identical thumbnails are not decided.",
   note="Dependence slices over-approximate: a reported missing dependence is definite, a present one is not a proof of the right formula. This is the only structural clause of C01 within reach; the value clauses remain not applicable to static analysis.",
   technique="static analysis: backward dependence slices over SSA (sibling agreement on metadata sources, must-depend rules on the rewrite)",
   ref="DESIGN.md §11.8 C01"),
 "C03": dict(
   text="Static dependence analysis of structural necessary conditions of audio re-segmentation: the audio times the MPD declares and the times at which audio segments are cut are produced by the same boundary function (calcAudioTimeFromRef), whose arguments depend on the reference entries/segment, the reference timescale, the audio representation's frame duration and timescale; every time the MPD emits (first t, every d) and both recipe boundaries are results of that function; the served audio segment's time, duration and number come from the recipe. That segments abut, frame counts, frame identity, padding and the equality of declared and measured frame duration are not decided.",
   note="Dependence slices over-approximate; the two sides read the frame duration from different fields by design, so their equality is not part of the rule.",
   technique="static analysis: callee identity + dependence slices over SSA (sibling agreement between MPD side and segment side)",
   ref="DESIGN.md §11.8 C03"),
 "C12": dict(
   text="Static analysis of structural necessary conditions of generated time subtitles: the stpp and wvtt generators receive number, decode time and duration that depend on the reference video segment's metadata and timescale, a UTC time that also depends on the availability start time, and the very same values for both formats; the millisecond timescale is one constant at all its sites (MPD template, timeline conversion, init segments, segment time conversion); the subtitle adaptation set's start number, duration and SegmentTimeline are derived from the video adaptation set's. Which cues a segment contains, their clipping, order and text are not decided.",
   note="Dependence slices over-approximate; constants compared after compiler folding.",
   technique="static analysis: dependence slices over SSA + constant agreement across sites",
   ref="DESIGN.md §11.8 C12"),
 "C02": dict(
   text="Static dependence analysis (backward slices over SSA with all-callers parameter semantics) of agreement clauses between the MPD generator and the segment server: at every call of the availability test, in every addressing mode, the availability time depends on availabilityStartTime, the window on timeShiftBufferDepth, the offset on availabilityTimeOffset and 'now' on the request time; every startNumber the MPD generator stores depends on the configured start number that the server's number->segment mapping subtracts; the SegmentTimeline generator's first number and last-entry bound depend on the window times and on the availability time offset. A missing dependence is definite (the slice over-approximates). Numeric equality of declared and served times, durations and numbers is not decided.",
   note="Explicit data dependence only (no control dependence); dependence is over-approximated, so silence is not a proof of agreement; start-up code is assumed not to see request configuration.",
   technique="static analysis: inter-procedural backward dependence slices over SSA (must-depend rules)",
   ref="DESIGN.md §2 E4, §3 C02"),
 "C04": dict(
   text="Static analysis of structural necessary conditions of the availability answers: (a) every error that may carry not-found / too-early / gone is returned on all non-nil paths of every function between the segment lookup and the handler, wrapped only with %w, and the handler's errors.Is/As branches answer 404/425/410; (b) every call of the availability test gets arguments that depend on start time, tsbd, ato and the request time, and the remaining time in the 425 answer depends on availability time, now and ato; (c) in every copy of the number->segment wrap arithmetic the index is proven in range (numbers below startNumber are refused first). Transition instants, monotonicity and the tsbd margin are not decided.",
   note="Errors are assumed to travel through returns and fmt.Errorf only; correlated-flag idiom recognised; interval reasoning as in C08.",
   technique="static analysis: SSA path rule (sentinel errors returned) + status table rule + dependence slices + interval rule on wrap index",
   ref="DESIGN.md §2 E4/E5, §3 C04"),
 "C05": dict(
   text="Static analysis of structural necessary conditions: no operation on the data path from the newest listed segment to the stored publishTime, nor in the comparison deciding 'after the stop time', rounds to whole seconds (backward slice over SSA; roundings accepted only on millisecond-scaled operands); every successful return of the MPD generator is decided by the after-stop test, whose true side is dominated by the call making the MPD static with a duration depending on stop and start time; the newest-segment record used for publishTime is updated wherever a timeline entry with a new duration is created. Monotonicity of window edges and publishTime<->content identity are not decided.",
   note="Explicit data flow only; integer division is not treated as rounding; the millisecond-scaled idiom is recognised syntactically on the rounded operand (product with a constant >= 1000).",
   technique="static analysis: backward slices over SSA (no-coarse-rounding rule) + dominance/control rule on returns + paired-update rule",
   ref="DESIGN.md §3 C05"),
 "C06": dict(
   text="Static analysis of structural necessary conditions in splitPeriod: the multiple-of-segment-duration test fails with an error, dominates the creation of every period and is control-dependent (modulo error exits) on nothing but the periods-per-hour presence test; the period-continuity descriptor has a single creation site that is control-dependent on the continuity flag, the period/adaptation-set loops and nothing else; the divisors of the period arithmetic are proven non-zero for every request (E3-A); the per-period startNumber depends on the configured start number. Tiling, ids, one-period-per-segment and byte equality are not decided.",
   note="Control dependence on the SSA CFG with error-only exits pruned; natural loops from dominance; E3-A assumptions as for C08.",
   technique="static analysis: dominance + control-dependence rules over SSA, interval rule on divisors, dependence slice on startNumber",
   ref="DESIGN.md §3 C06"),
 "C07": dict(
   text="Static lock-discipline and aliasing analysis of the livesim2 server: every write to server-lifetime state (including bytes that library objects keep aliasing) by request-serving code, and every access that may run in parallel with it, must hold the owning mutex; no handler-reachable source of non-determinism; every early-exit range over a server map is a reviewed instance; sync.Pool objects are not used after Put. Necessary conditions of purity and race-freedom for all histories and interleavings; byte equality of responses is not decided.",
   note="Origin/alias analysis is field-based and type-directed (no points-to analysis available); library aliasing and mutators are the listed ones; VTA call graph; known findings: unsynchronised ingest-manager tables.",
   technique="static analysis: must-lockset dataflow + origin/alias analysis over SSA, thread classes from the call graph",
   ref="DESIGN.md §2 E2, §3 C07"),
 "C19": dict(
   text="Static lock-discipline analysis of the ingest receiver: every access to receiver/channel state that concurrently running code writes must hold the owning mutex; inserts into the channel and stream tables happen in the same critical section as the existence test; every lock is released on all exits; fields touched only by the per-channel goroutine are exclusive. Decides these necessary conditions for all interleavings; equivalence to a sequential order is not decided.",
   note="Thread classes from the call graph (replicated HTTP handlers, one goroutine per channel object); origin analysis instead of points-to; known findings: channel fields written by handlers without the channel mutex.",
   technique="static analysis: must-lockset dataflow over SSA + get-or-create typestate on shared maps",
   ref="DESIGN.md §2 E2, §3 C19"),
 "C20": dict(
   text="Static lock-discipline analysis of the request limiter: all accesses to its mutable fields hold the mutex on every path (entry locksets from all call sites), count/compare/reset are one critical section (single acquisition site reachable from Inc), every lock is released on every exit. Decides these necessary conditions for all interleavings; the quota arithmetic and address handling are not decided.",
   note="Trusts sync.Mutex semantics, go/ssa, VTA call graph; the limiter is reached only through the server object and the middleware closure.",
   technique="static analysis: must-lockset dataflow over SSA + atomic-section rule",
   ref="DESIGN.md §2 E2, §3 C20"),
 "C08": dict(
   text="Static fault-site analysis over all repository code reachable from the HTTP handlers and goroutine roots of both servers: every integer division, constant/direct index or slice bound, slice-to-array conversion, explicit panic, unchecked type assertion, dereference of a nil-tested pointer, request-sized loop cursor and handler-side channel operation whose faulting operand is request-controlled must be excluded by a dominating guard, interval/length fact, validated-field fact or call-site proof. Decides that structural clause for every input; does not decide message wording, timing, or faults inside library code.",
   note="Trusts go/types, go/ssa, VTA call graph; explicit data flow only; integer overflow not modelled except for the chunk-parser cursor; reviewed exceptions are listed in the evidence with their reasons.",
   technique="static analysis: field-based taint/dependence graph + path-sensitive guard and interval reasoning over SSA (fault classes A-F)",
   ref="DESIGN.md §2 E3, §3 C08"),
 "C09": dict(
   text="Static analysis of structural necessary conditions of chunked delivery: every call of the chunk writer in the pacing loop is control-dependent on a comparison 'chunk end < now' (operand roles checked: the end side depends on the accumulated chunk durations, the segment's media time and the availability start time, the other side on the request time) or follows a sleep whose duration depends on all of them; the writer flushes before every successful return; durations recorded for chunks closed inside the sample loop depend on the sample durations; the chunk duration used as divisor is proven positive; chunks are written only after the shared segment generator (with its availability test) succeeded; the first chunk gets the styp, later ones none. Sample equality, contiguity and the per-chunk time bound are not decided.",
   note="time.Sleep is trusted; dependence slices over-approximate (a missing dependence is definite); E3-A assumptions as for C08.",
   technique="static analysis: dominance/control rules + dependence slices over SSA, interval rule on divisors",
   ref="DESIGN.md §3 C09"),
 "C10": dict(
   text="Static analysis of structural necessary conditions: the licence handler and the encryptor derive the key from the key id through the same function, whose constants no other function uses, and the stored key is derived from the key id stored beside it; the key id in the MPD and in the init segment come from the same derivation, which either provably ignores its argument or gets the same source at both sites; the CPIX content key is selected at all three sites (MPD, init, fragments) through the same lookup keyed by the content type of the object being processed, never the reference representation's; every fragment encryption and on-the-fly init protection is dominated by a non-nil test of the representation's encryption data and every ContentProtection element by the pre-encrypted test. Decrypting to the clear segment is not decided.",
   note="'ignores its argument' is decided by an over-approximating slice (library state objects modelled through their method calls, copy/stores into local slices followed); mp4ff trusted.",
   technique="static analysis: dependence slices over SSA (sibling agreement on callee identity and argument sources), who-may-use rule on constants, dominance rule on encryption calls",
   ref="DESIGN.md §3 C10"),
 "C11": dict(
   text="Static analysis of structural necessary conditions of the patch service: the handler's errors.Is branches answer 425 (same publishTime) and 410 (beyond time-to-live), each sentinel is returned under its defining test and reaches the handler unchanged, and after an error answer the handler touches the ResponseWriter no more; the patch's originalPublishTime/publishTime attributes are the publishTime attributes of the old/new document; writer/reader agreement on mandatory ids: for every element kind in the differ's id switch the MPD generator stores an id under no condition other than 'patch requested'/'id absent'/loops (Representation ids come from the VoD MPD: reviewed exception); no store to MPD.publishTime can follow the call that builds the patch location. Patch application reproducing the new MPD is not decided.",
   note="etree/XML semantics not modelled; control dependence with error-only exits pruned.",
   technique="static analysis: status-table and sentinel path rules, typestate walk (respond once), writer/reader table agreement with control-dependence rule, CFG ordering rule",
   ref="DESIGN.md §3 C11"),
 "C13": dict(
   text="Static analysis of structural necessary conditions of SCTE-35 insertion: the events-per-minute validator's error is returned on all non-nil paths in the configuration check and in the event constructor; the constructor call is control-dependent on contentType == video and on the setting being present, and its interval arguments are read from this segment's own start time, duration and timescale; the MPD's InbandEventStream append is control-dependent on exactly 'video' and 'setting present' (and loops) and uses the scheme constant the events carry; pkg/scte35 touches no package-level variable written after initialisation (no state between calls). Offsets, exactly-once per minute, PTS wrap and CRC are not decided.",
   note="Intra-procedural dependence for the interval arguments (a hand-off of the whole metadata struct to a helper counts as use); control dependence with error-only exits pruned.",
   technique="static analysis: control-dependence rules, errors-returned path rule, intra-procedural dependence slices, package purity query over SSA",
   ref="DESIGN.md §3 C13"),
 "C14": dict(
   text="Static analysis of structural necessary conditions of fault injection: the BaseURL format written into the MPD equals the prefix the request parser tests plus number and slash, and the parser strips exactly that prefix; every loss state the pattern parser can store has its own handler arm with the documented effect (served / 404 / sleep 2 s then served / sleep 10 s then 503); divisors and indices of the cycle arithmetic are proven safe for every request (E3-A/B) on top of validated-field facts (cycle >= 1, rsq >= 0, code 400..599); the cycle-start instant handed to the timeline generator depends on the availability start time, the hit index on the start number, and the hit test uses no value carried over from the previous pattern. Which request of a cycle is hit and StateAt's interval boundaries are not decided.",
   note="Constants resolved through go/types; E3 assumptions as for C08; intra-procedural dependence for the hit test.",
   technique="static analysis: constant agreement (writer/reader), switch exhaustiveness over stored constants, interval/guard rules, dependence slices, loop-carried value query over SSA",
   ref="DESIGN.md §3 C14"),
 "C15": dict(
   text="Static analysis of structural necessary conditions of the representation-metadata cache: persisted-or-rederived — every RepData/Segment field read by request-serving code is either persisted by encoding/json (exported, tag not '-') or stored by the re-derivation step that the cache-load path calls after decoding; publication after validation — a representation is entered into the served table only after the loader's error test, the zero-segment test and the audio sample-duration test, the MPD last (no error exit reachable afterwards), and failed consolidation deletes the asset; admission — the integrality test and the equal-duration test end in an error and the latter is reached by clear representations of the reference content type; the gzip metadata stream is read to EOF with io.ReadAll before decoding and every error of the read/decode chain is returned. Byte equality scan vs cache, idempotent writing and contiguity are not decided.",
   note="'Re-derived' is path-insensitive (a store in the re-derivation step or its callees); encoding/json semantics assumed; serving phase from the VTA call graph.",
   technique="static analysis: struct-tag/field read-write query over SSA (persisted-or-rederived), dominance and reachability rules on registration stores, path-condition sets, errors-returned path rule",
   ref="DESIGN.md §2 E6, §3 C15"),
 "C16": dict(
   text="Static analysis of structural necessary conditions of the CMAF-ingest sender: request typestate — every *http.Request the ingester creates passes setReqHeaders before Client.Do/sendRequest, and setReqHeaders sets the ingest version header unconditionally, a content type per media kind and credentials exactly when both are configured; no media send unless the init error counter (incremented on the error side of the init send) is zero; every select of the session loop has a <-ctx.Done() arm, a step request cannot block on a finished session, and the delete handler's successful answers are dominated by a call of the session's cancel function; each representation's $Time$ comes from timeline entries generated for its own id and segments come from writeSegment, the generator the HTTP handler uses; session tables/state are accessed under a lock wherever concurrent API calls or the session goroutine write them (E2; unsynchronised today: known findings). Numbering, byte equality, lmsg, duration and failing receivers are not decided.",
   note="net/http trusted; E2 assumptions as for C07; the E2 findings are the ones also listed under C07.",
   technique="static analysis: typestate/dominance rules on request values, control-dependence rules, select-arm query, dependence on own representation id, must-lockset analysis (E2)",
   ref="DESIGN.md §3 C16"),
 "C17": dict(
   text="Static analysis of structural necessary conditions in the ingest receiver: atomic publication — the timeline MPD's final name is only the destination of os.Rename, and on every path to that Rename the temporary file was created, the document written without error and the file closed, in that order; monotone newest number — every store to latestSeqNr is dominated by comparisons giving stored >= new > old; a segment is counted for its sequence number only on the nil side of the track buffer's error; no store to the segment's sequence number can follow its use in the name of the file stored or deleted; the timeline generator, its counters and buffers are accessed by the channel goroutine only or under its mutex (E2); divisors in everything the channel goroutine reaches are proven non-zero for every upload (E3-A). Contiguity/completeness of the listed range, stored content and buffer bounds are not decided.",
   note="os.Rename atomicity assumed; E2/E3 assumptions as for C19/C08.",
   technique="static analysis: dominance/typestate rules on file operations, dominating-comparison rule on a monotone store, CFG ordering rule, must-lockset ownership, interval rule on divisors",
   ref="DESIGN.md §3 C17"),
 "C18": dict(
   text="Static analysis (SSA control-flow walk + range/guard analysis) of two structural necessary conditions: every callback/read error is returned on all non-nil paths, and the box-walk cursor provably advances and cannot wrap. Decides those clauses for every input and read schedule; does not decide output equality.",
   note="Trusts go/types, go/ssa; VTA call graph for reachability; integer overflow only modelled where a rule says so.",
   technique="static analysis: SSA path rule (errors-returned) + guard/interval rule on loop cursor",
   ref="DESIGN.md §3 C18"),
}

NOT_APPLICABLE = {
}

PENDING = "check under construction in this round (design in DESIGN.md §3); not claimed until its rules run clean on the tree"

ALL = ["C%02d" % i for i in range(1, 21)]

# Addenda: clauses added after the table above was written (appended to text / technique).
UNITS_TEXT = " Units (E7): within the functions of this property no two quantities of known, different units (seconds, milliseconds, nanoseconds, media ticks, timescale; from the repository's S/MS/Timescale naming convention and a table of tick-valued fields) are added, subtracted, compared, stored or passed where another unit is expected."
UNITS_TECH = "; unit (dimension) inference over SSA"
ADD_TEXT = {
 "C01": UNITS_TEXT, "C03": UNITS_TEXT, "C05": UNITS_TEXT, "C12": UNITS_TEXT,
 "C02": UNITS_TEXT + " A startNumber computed from the 'no segment yet' field is stored under a direct test of that field. The offset handed to the timeline generator is computed from the configured availabilityTimeOffset on every successful path. The offset argument of every availability test is the configured offset on every path.",
 "C04": UNITS_TEXT + " Each copy of the number-to-segment mapping refuses numbers below startNumber by a signed test whose failing side is an error exit. Segment-serving calls of the handler lie behind the 'now is before the start time' refusal; the too-early test compares unrounded times.",
 "C06": UNITS_TEXT + " The bounds of the period loop read the window edges and the period duration and nothing else. Comparisons with the period bounds in the timeline cut have the half-open forms; the period numbers are computed from the same whole-second period duration as Period@start.",
 "C07": " Request-serving code stores nothing into a sync.Map.",
 "C08": " Also: make with a request-controlled size proven non-negative; results of etree lookups that may be nil tested before use (also through a callee); library functions that panic on bad input get no unvalidated request value; function values called out of a map lookup are safe because no entry is deleted.",
 "C09": UNITS_TEXT + " The chunk duration handed to the splitter depends on the segment duration and, of all URL options, on availabilityTimeOffset only.",
 "C10": " All sites that append a chunk to the splitter's result apply the same callbacks to it first (sibling agreement). Every path to a chunk write passes the encryption call or the no-DRM edge. The encryptor fails for a representation without encryption data; the licence handler writes nothing after an error answer.",
 "C11": " The queries of the two regenerated MPDs are cut out of the request's raw query; no time value is re-formatted into them. In the differ's child-list walk the insertion anchor changes on every edge on which the cursor into the new list advances. add/replace/remove operations are written for the added/changed/removed attribute lists respectively.",
 "C13": UNITS_TEXT + " The chunk splitter hands the event boxes of its source segment over to a chunk.",
 "C14": UNITS_TEXT + " The second handed to the traffic-pattern lookup is computed without rounding up or to nearest. The traffic interval is selected by a strict comparison (half-open intervals). The second handed to the traffic lookup does not depend on the configured start time; each status-code pattern starts from a fresh value.",
 "C15": " The segment scan is reachable from the cache read only through the 'no file found' edge; a field that is not persisted is not derived solely under a test that a persisted field is still unset. Files opened for writing by the metadata writer are truncated. Error results of repository calls below the loader are returned on every non-nil path (ten reviewed exceptions).",
 "C16": UNITS_TEXT + " The instant handed to the segment generator is, on every path, a result of the availability-time function, which rounds up to whole milliseconds.",
 "C18": " Where the parser reads with io.ReadFull/io.ReadAtLeast, io.ErrUnexpectedEOF is recognised. Inside the parse loop the init flag is only set to true and the chunk record is not replaced as a whole.",
 "C17": " Temporary and final MPD name are joined onto the same directory; removed and created segment files are named by the same sequence-number field.",
 "C19": " The hand-over of segment data to the channel goroutine is a send that cannot be skipped; a get-or-create function returns the object that is in the table.",
 "C20": " A new interval starts at the time of the request that finds the old one elapsed, and the counters are replaced only under a test of request time, reset time and interval. The header counter is the value returned by the Inc call that counted the request; the forwarded client address is not cut at a colon by hand. No method reachable from Inc releases the mutex and takes it again.",
}
ADD_TECH = {k: UNITS_TECH for k in ("C01", "C02", "C03", "C04", "C05", "C06", "C09", "C12", "C13", "C14", "C16")}
for _k, _v in ADD_TEXT.items():
    CLAIMED[_k]["text"] += _v
for _k, _v in ADD_TECH.items():
    CLAIMED[_k]["technique"] += _v

def main():
    checks = []
    for pid in ALL:
        if pid in CLAIMED:
            c = CLAIMED[pid]
            checks.append({
                "property_id": pid,
                "quick_cmd": "./check.sh %s quick" % pid,
                "thorough_cmd": "./check.sh %s thorough" % pid,
                "evidence_file": "/verif/evidence/%s.json" % pid,
                "replay_cmd_template": "./explain.sh {path}",
                "engine": "lsverif",
                "level_claimed": {"category": "other", "text": c["text"], "design_ref": c["ref"]},
                "level_note": c["note"],
                "technique": c["technique"],
            })
    na = []
    for pid in ALL:
        if pid in CLAIMED:
            continue
        na.append({"property_id": pid, "reason": NOT_APPLICABLE.get(pid, PENDING)})
    m = {
        "version": 1,
        "setup_cmd": "./build.sh",
        "hooks": {
            "guard": "verif",
            "enable": "none needed: static analysis reads the source as it is; no hook commits exist",
            "baseline_off_cmd": "cd /repo && go test -vet=off -count=1 -timeout 25m ./...",
            "source_commits": [],
            "add_only": True,
        },
        "engines": [{
            "name": "lsverif",
            "path": "/verif/lsverif",
            "serves_properties": sorted(CLAIMED),
            "kind_free_text": "repository-specific static analyzer on go/packages + go/ssa + VTA call graph (x/tools v0.29.0): control dependence, dominance, taint/dependence graph, guard/interval facts, locksets",
        }],
        "checks": checks,
        "not_applicable": na,
        "notes": "All verdicts are computed statically from /repo's working tree on every run; nothing is executed. Level 'other' = static analysis of structural necessary conditions; each check's evidence lists the clauses decided and the clauses not covered.",
    }
    json.dump(m, open("/verif/MANIFEST.json", "w"), indent=1)
    print("claimed:", sorted(CLAIMED), "n/a:", [x["property_id"] for x in na])

main()
