// Reproduction: publishTime later than the request instant (package app of cmd/livesim2).
// go test -vet=off -run TestProbeC05 ./cmd/livesim2/app
package app

import (
	"context"
	"regexp"
	"testing"
	"time"

	"net/http/httptest"

	"github.com/Dash-Industry-Forum/livesim2/pkg/logging"
)

func TestProbeC05PublishTimeNotInFuture(t *testing.T) {
	cfg := ServerConfig{VodRoot: "testdata/assets", TimeoutS: 0, LogFormat: logging.LogDiscard}
	_ = logging.InitSlog(cfg.LogLevel, cfg.LogFormat)
	s, err := SetupServer(context.Background(), &cfg)
	if err != nil {
		t.Fatal(err)
	}
	re := regexp.MustCompile(`publishTime="([^"]+)"`)
	asset := "WAVE/vectors/cfhd_sets/14.985_29.97_59.94/t1/2022-10-17"
	bad := 0
	for nowMS := 400000; nowMS < 520000; nowMS += 100 {
		w := httptest.NewRecorder()
		s.livesimHandlerFunc(w, httptest.NewRequest("GET", "/livesim2/segtimeline_1/"+asset+"/stream.mpd?nowMS="+itoa(nowMS), nil))
		if w.Code != 200 {
			t.Fatalf("status %d: %s", w.Code, w.Body.String())
		}
		m := re.FindStringSubmatch(w.Body.String())
		if m == nil {
			t.Fatal("no publishTime")
		}
		pt, err := time.Parse(time.RFC3339, m[1])
		if err != nil {
			t.Fatal(err)
		}
		if pt.UnixMilli() > int64(nowMS) {
			bad++
			if bad < 4 {
				t.Errorf("nowMS=%d publishTime=%s (%d ms) is later than the request instant", nowMS, m[1], pt.UnixMilli())
			}
		}
	}
	if bad > 0 {
		t.Errorf("%d instants with publishTime in the future", bad)
	}
}

func itoa(i int) string { return time.Duration(i).String()[:0] + fmtInt(i) }
func fmtInt(i int) string {
	if i == 0 {
		return "0"
	}
	s := ""
	for i > 0 {
		s = string(rune('0'+i%10)) + s
		i /= 10
	}
	return s
}
