package main

import (
	"fmt"
	"go/constant"
	"go/token"
	"go/types"
	"strings"

	"golang.org/x/tools/go/ssa"
)

func init() { register("C14", checkC14) }

// constsOfType maps the values of the package-level constants of the named type to their names.
func constsOfType(p *Program, pkgPath, typeName string) map[int64]string {
	out := map[int64]string{}
	for _, pk := range p.SSA.AllPackages() {
		if pk.Pkg.Path() != pkgPath {
			continue
		}
		sc := pk.Pkg.Scope()
		for _, n := range sc.Names() {
			c, ok := sc.Lookup(n).(*types.Const)
			if !ok {
				continue
			}
			if nt, ok := c.Type().(*types.Named); ok && nt.Obj().Name() == typeName {
				if v, ok := constant.Int64Val(c.Val()); ok {
					out[v] = n
				}
			}
		}
	}
	return out
}

// constValuesReaching: the integer constants that may flow into v through phis.
func constValuesReaching(v ssa.Value, seen map[ssa.Value]bool, out map[int64]bool) {
	if seen[v] {
		return
	}
	seen[v] = true
	switch x := v.(type) {
	case *ssa.Const:
		if k, ok := constInt(x); ok {
			out[k] = true
		}
	case *ssa.Phi:
		for _, e := range x.Edges {
			constValuesReaching(e, seen, out)
		}
	case *ssa.Call:
		// a helper of the repository that returns the value: every constant it can return
		if callee := x.Call.StaticCallee(); callee != nil && len(callee.Blocks) > 0 {
			helperConstResults(callee, 0, seen, out)
		}
	case *ssa.Extract:
		if c, ok := x.Tuple.(*ssa.Call); ok {
			if callee := c.Call.StaticCallee(); callee != nil && len(callee.Blocks) > 0 {
				helperConstResults(callee, x.Index, seen, out)
			}
		}
	case *ssa.UnOp:
		if al, ok := x.X.(*ssa.Alloc); ok && x.Op == token.MUL && al.Referrers() != nil {
			for _, ref := range *al.Referrers() {
				if st, ok := ref.(*ssa.Store); ok && st.Addr == ssa.Value(al) {
					constValuesReaching(st.Val, seen, out)
				}
			}
		}
	case *ssa.Convert:
		constValuesReaching(x.X, seen, out)
	case *ssa.ChangeType:
		constValuesReaching(x.X, seen, out)
	}
}

func helperConstResults(callee *ssa.Function, idx int, seen map[ssa.Value]bool, out map[int64]bool) {
	if summaryProgram == nil || !summaryProgram.isRepoFunc(callee) {
		return
	}
	for _, b := range callee.Blocks {
		if ret, ok := b.Instrs[len(b.Instrs)-1].(*ssa.Return); ok && idx < len(ret.Results) {
			constValuesReaching(ret.Results[idx], seen, out)
		}
	}
}

func checkC14(p *Program, r *Reporter) {
	unitsRuleByName(p, r, "calcStatusCode", "LossItvls.StateAt")
	r.Explanation = "Static analysis of structural necessary conditions of C14: (a) the BaseURL prefix the MPD generator writes is the prefix the request parser tests and strips; (b) every loss state the pattern parser can store has its own arm in the handler, with the documented effect (up: served, down: 404, slow: sleep then served, hang: sleep then 503); " +
		"(c) the cycle arithmetic of traffic patterns and status-code patterns cannot divide by zero and the BaseURL index is bounded for every request (E3-A/B2), on top of the validated-field facts for cycle >= 1, rsq >= 0, code in 400..599; " +
		"(d) the cycle-start instant handed to the timeline generator depends on the availability start time and the hit index on the start number; the hit test of one pattern does not use values carried over from the previous pattern of the same request. " +
		"Which request of a cycle is hit and which second is in which state are not decided."
	r.NotCovered = "the exact set of hit requests over time, interval boundaries of StateAt (off-by-one within a cycle), cycles not divisible by the segment duration"
	r.Assumptions = []string{"E3 assumptions as in C08", "dependence slices over-approximate (a missing dependence is definite)"}
	// (a) BaseURL prefix agreement
	r.Rule("E5-BASEURL", "BaseURL written into the MPD starts with the prefix the request parser strips", 2)
	bu := p.mustFunc(r, pkgApp, "baseURL")
	ep := p.mustFunc(r, pkgApp, "extractPattern")
	h := p.mustFunc(r, pkgApp, "(*Server).livesimHandlerFunc")
	if bu == nil || ep == nil || h == nil {
		return
	}
	format := ""
	for _, b := range bu.Blocks {
		for _, in := range b.Instrs {
			if c, ok := isCallTo(in, "fmt.Sprintf"); ok {
				format, _ = constString(c.Call.Args[0])
			}
		}
	}
	prefix, strip := "", int64(-1)
	for _, b := range ep.Blocks {
		for _, in := range b.Instrs {
			if c, ok := isCallTo(in, "strings.HasPrefix"); ok {
				prefix, _ = constString(c.Call.Args[1])
			}
			if sl, ok := in.(*ssa.Slice); ok && sl.Low != nil && sl.High == nil {
				if _, isStr := sl.X.Type().Underlying().(*types.Basic); isStr {
					if k, ok := constInt(sl.Low); ok {
						strip = k
					}
				}
			}
		}
	}
	r.Decide(prefix != "" && format == prefix+"%d/", "E5-BASEURL", shortFn(bu), "format-vs-prefix", p.pos(bu.Pos()), fmt.Sprintf("writer format %q = parser prefix %q + number + slash", format, prefix),
		fmt.Sprintf("the MPD generator writes BaseURLs with format %q but the request parser expects prefix %q followed by the pattern number: requests through a BaseURL are not recognised", format, prefix), nil)
	r.Decide(strip == int64(len(prefix)) && prefix != "", "E5-BASEURL", shortFn(ep), "strip-length", p.pos(ep.Pos()), "the parser strips exactly the prefix",
		fmt.Sprintf("the parser tests prefix %q but strips %d bytes before parsing the pattern number", prefix, strip), nil)
	// (b) loss states
	r.Rule("E5-LOSSSTATE", "every loss state the pattern parser stores has its own handler arm with the documented effect", 4)
	names := constsOfType(p, pkgApp, "lossState")
	produced := map[int64]bool{}
	cli := p.mustFunc(r, pkgApp, "CreateLossItvls")
	if cli != nil {
		for _, cf := range cluster(cli) {
			for _, b := range cf.Blocks {
				for _, in := range b.Instrs {
					if st, ok := in.(*ssa.Store); ok {
						if f, ok := fieldOfAddr(st.Addr); ok && f == "app.LossItvl.state" {
							constValuesReaching(st.Val, map[ssa.Value]bool{}, produced)
						}
					}
				}
			}
		}
	}
	delete(produced, 0) // lossUnknown is never stored: guarded by state != lossUnknown
	if len(produced) < 4 {
		r.Broken("CreateLossItvls: only %d loss states recognised", len(produced))
	}
	// arms in the handler: comparisons of the StateAt result with constants
	arms := map[int64]*ssa.BasicBlock{}
	var hBlocks []*ssa.BasicBlock
	for _, cf := range cluster(h) {
		hBlocks = append(hBlocks, cf.Blocks...)
	}
	for _, b := range hBlocks {
		ifi, ok := b.Instrs[len(b.Instrs)-1].(*ssa.If)
		if !ok {
			continue
		}
		bo, ok := ifi.Cond.(*ssa.BinOp)
		if !ok || bo.Op != token.EQL {
			continue
		}
		c, ok := bo.X.(*ssa.Call)
		if !ok || c.Call.StaticCallee() == nil || c.Call.StaticCallee().Name() != "StateAt" {
			continue
		}
		if k, ok := constInt(bo.Y); ok {
			arms[k] = b.Succs[0]
		}
	}
	armEffect := func(b *ssa.BasicBlock) (sleep string, status int64) {
		status = -1
		for _, in := range b.Instrs {
			if c, ok := isCallTo(in, "time.Sleep"); ok {
				if k, ok := constInt(c.Call.Args[0]); ok {
					sleep = fmt.Sprintf("%ds", k/1e9)
				}
			}
			if c, ok := isCallTo(in, "net/http.Error"); ok {
				if k, ok := constInt(c.Call.Args[2]); ok {
					status = k
				}
			}
		}
		return
	}
	wantEffect := map[string]struct {
		sleep  string
		status int64
	}{"lossNo": {"", -1}, "loss404": {"", 404}, "lossSlow": {"2s", -1}, "lossHang": {"10s", 503}}
	for k := range produced {
		name := names[k]
		arm, ok := arms[k]
		if !ok {
			r.Violate("E5-LOSSSTATE", shortFn(h), "arm:"+name, p.pos(h.Pos()), fmt.Sprintf("the pattern parser can store loss state %s (%d) but the handler has no arm for it: such intervals answer 500 'strange loss state'", name, k), nil)
			continue
		}
		sl, st := armEffect(arm)
		w, known := wantEffect[name]
		switch {
		case !known:
			r.Violate("E5-LOSSSTATE", shortFn(h), "arm:"+name, p.pos(instrPos(arm.Instrs[0])), "a loss state without a documented effect in the reviewed table", nil)
		case sl != w.sleep || st != w.status:
			r.Violate("E5-LOSSSTATE", shortFn(h), "arm:"+name, p.pos(instrPos(arm.Instrs[0])), fmt.Sprintf("arm for %s sleeps %q and answers %d; documented: sleep %q, status %d (-1 = served normally)", name, sl, st, w.sleep, w.status), nil)
		default:
			r.Discharge("E5-LOSSSTATE", shortFn(h), "arm:"+name, p.pos(instrPos(arm.Instrs[0])), fmt.Sprintf("sleep %q, status %d (-1 = served normally)", sl, st))
		}
	}
	// (c) arithmetic + validated fields
	e := sharedE3(p, r)
	var fns []*ssa.Function
	for _, n := range []string{"LossItvls.StateAt", "LossItvls.CycleDurS", "extractPattern", "calcStatusCode", "findSegStartTime", "findLastSegNr", "CreateLossItvls"} {
		if fn := p.mustFunc(r, pkgApp, n); fn != nil {
			fns = append(fns, fn)
		}
	}
	fns = append(fns, h)
	r.Rule("E3-A", "cycle arithmetic: divisors proven non-zero for every request", 2)
	e.classA("E3-A", fns)
	r.Rule("E3-B1", "", 0)
	r.Rule("E3-B1p", "", 0)
	r.Rule("E3-B2", "BaseURL / pattern index bounded", 1)
	r.Rule("E3-B4", "", 0)
	r.Rule("E3-Bx", "", 0)
	e.classB("E3-B", fns)
	r.Rule("FIELD-FACT", "status-code pattern fields validated at parse time (cycle >= 1, rsq >= 0, code in 400..599)", 3)
	buildFieldFacts(p, r, map[string]bool{"app.SegStatusCodes.Cycle": true, "app.SegStatusCodes.Rsq": true, "app.SegStatusCodes.Code": true})
	if pss := p.lookupFunc(pkgApp, "(*strConvAccErr).ParseSegStatusCodes"); pss != nil {
		freshPerItemRule(p, r, pss, "app.SegStatusCodes")
	}
	if sa := p.mustFunc(r, pkgApp, "LossItvls.StateAt"); sa != nil {
		wholeSecondRule(p, r, sa)
		halfOpenRule(p, r, sa)
	}
	// (d) dependences in calcStatusCode
	csc := p.mustFunc(r, pkgApp, "calcStatusCode")
	fls := p.mustFunc(r, pkgApp, "findLastSegNr")
	if csc == nil || fls == nil {
		return
	}
	r.Rule("E4-CYCLE", "cycle start handed to the timeline generator is wall-clock time; hit index counts from the start number; no carry-over between patterns", 3)
	for _, s := range callsTo(p, fls) {
		if s.Parent() != csc {
			continue
		}
		q := newDepQueryLocal(p, onField("app.ResponseConfig.StartTimeS"))
		q.intra = true
		r.Decide(q.depends(s.Common().Args[2], 0), "E4-CYCLE", shortFn(csc), "findLastSegNr.nowMS<-StartTimeS", p.pos(s.Pos()), "the instant depends on the availability start time",
			"the cycle-start instant given to the timeline generator (which expects wall-clock time) cannot depend on the availability start time: with a non-zero start time the pattern hits other segments or fails", nil)
	}
	// the hit comparison
	var hit *ssa.BinOp
	for _, b := range csc.Blocks {
		for _, in := range b.Instrs {
			bo, ok := in.(*ssa.BinOp)
			if !ok || bo.Op != token.EQL {
				continue
			}
			for _, side := range []ssa.Value{bo.X, bo.Y} {
				if f, ok := loadedField(side); ok && f == "app.SegStatusCodes.Rsq" {
					hit = bo
				}
			}
		}
	}
	if hit == nil {
		r.Violate("E4-CYCLE", shortFn(csc), "hit-test", p.pos(csc.Pos()), "no comparison with the configured relative sequence number found", nil)
		return
	}
	// the configured start number: a load of ResponseConfig.StartNr (the query follows the getter's result into it)
	q := newDepQueryLocal(p, onField("app.ResponseConfig.StartNr"))
	r.Decide(q.depends(hit, 0), "E4-CYCLE", shortFn(csc), "hit-test<-startNr", p.pos(hit.Pos()), "the hit index counts from the configured start number",
		"the hit index cannot depend on the configured start number: with snr_N other segments are hit", nil)
	// loop-carried values
	var header *ssa.BasicBlock
	for b := hit.Block(); b != nil; b = b.Idom() {
		if loopExitTest(b) && naturalLoop(b)[hit.Block()] {
			header = b
			break
		}
	}
	if header == nil {
		r.Violate("E4-CYCLE", shortFn(csc), "hit-test-loop", p.pos(hit.Pos()), "the hit test is not inside the loop over the configured patterns", nil)
		return
	}
	var carried []string
	seen := map[ssa.Value]bool{}
	sliceVisitIntra(p, hit, func(v ssa.Value) {
		ph, ok := v.(*ssa.Phi)
		if !ok || seen[v] || ph.Block() != header {
			return
		}
		seen[v] = true
		// the range index: phi(-1 or 0, index+1) used by the loop test
		isIndex := false
		if ifi, ok := header.Instrs[len(header.Instrs)-1].(*ssa.If); ok {
			if bo, ok := ifi.Cond.(*ssa.BinOp); ok && (bo.X == v || bo.Y == v) {
				isIndex = true
			}
			if bo, ok := ifi.Cond.(*ssa.BinOp); ok {
				if add, ok := bo.X.(*ssa.BinOp); ok && add.X == v {
					isIndex = true
				}
			}
		}
		if !isIndex {
			carried = append(carried, ph.Comment+" ("+ph.Name()+")")
		}
	})
	r.Decide(len(carried) == 0, "E4-CYCLE", shortFn(csc), "hit-test-loop-carried", p.pos(hit.Pos()), "the hit test of a pattern uses nothing computed for an earlier pattern",
		"the hit test uses the loop-carried variable(s) "+strings.Join(carried, ", ")+": with several patterns the result for one depends on the ones before it", nil)
}

// sliceVisitIntra: backward slice within one function (calls depend on their arguments).
func sliceVisitIntra(p *Program, v ssa.Value, visit func(ssa.Value)) {
	q := newDepQuery(p, func(x ssa.Value) bool { visit(x); return false })
	q.exploreAll = true
	q.noParams = true
	q.intra = true
	q.budget = 200000
	q.depends(v, 0)
}
