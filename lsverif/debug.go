package main

import (
	"go/types"
	"golang.org/x/tools/go/ssa"
	"fmt"
	"os"
	"strings"
)

// debugDump prints the SSA of functions whose full name contains arg.
func debugDump(p *Program, arg string) int {
	n := 0
	for _, fn := range p.allRepoFuncs() {
		if strings.Contains(fn.String(), arg) {
			fn.WriteTo(os.Stdout)
			n++
		}
	}
	fmt.Printf("%d functions\n", n)
	return 0
}

// debugTaint prints the taint trail of field nodes whose name contains arg.
func debugTaint(p *Program, arg string) int {
	for _, g := range buildTaint(p).gs {
	fmt.Println("== graph", g.side, len(g.nodes), "nodes")
	for i, n := range g.nodes {
		f, ok := n.(fieldNode)
		if !ok || !strings.Contains(string(f), arg) {
			continue
		}
		fmt.Printf("%s tainted=%v\n", f, g.tainted[i])
		if g.tainted[i] {
			k := 0
			for n := i; n >= 0 && k < 40; n = int(g.taintBy[n]) {
				fmt.Printf("    <- %s\n", g.nodeString(n))
				k++
			}
		}
	}
	}
	return 0
}

// debugRange prints rangeAt for every integer value of functions matching arg.
func debugRange(p *Program, arg string) int {
	ff := buildFieldFacts(p, nil, nil)
	rg := newRanger(p, ff)
	for _, fn := range p.allRepoFuncs() {
		if !strings.Contains(fn.String(), arg) {
			continue
		}
		for _, b := range fn.Blocks {
			for _, in := range b.Instrs {
				v, ok := in.(ssa.Value)
				if !ok {
					continue
				}
				if bt, ok := v.Type().Underlying().(*types.Basic); !ok || bt.Info()&types.IsInteger == 0 {
					continue
				}
				r := rg.rangeAt(v, b, 0)
				fmt.Printf("b%d %s = %s : %s sym=%v %s%+d\n", b.Index, v.Name(), v.String(), r, r.hasSym, r.symKey, r.symOff)
			}
		}
	}
	return 0
}

// debugAccesses lists E2 accesses whose field contains arg.
func debugAccesses(p *Program, arg string) int {
	e := sharedE2(p)
	fmt.Println("state types:", len(e.stateTypes))
	for _, a := range e.accesses {
		if strings.Contains(a.field, arg) {
			fmt.Printf("%s %s in %s at %s classes=%v locks=%v\n", a.kind(), a.field, shortFn(a.fn), p.pos(instrPos(a.instr)), a.classes, a.locks)
		}
	}
	n := 0
	for fn, cl := range e.classOf {
		if strings.Contains(fn.String(), arg) {
			fmt.Println("class", shortFn(fn), cl)
			n++
		}
	}
	return 0
}

// debugDep: arg "func|valueName|field": explains why the value depends on the field.
func debugDep(p *Program, arg string) int {
	parts := strings.Split(arg, "|")
	if len(parts) != 3 {
		fmt.Println("usage: -prop dep -arg 'func|tNN|pkg.Type.Field'")
		return 2
	}
	for _, fn := range p.allRepoFuncs() {
		if !strings.HasSuffix(fn.String(), parts[0]) {
			continue
		}
		for _, b := range fn.Blocks {
			for _, in := range b.Instrs {
				v, ok := in.(ssa.Value)
				if !ok || v.Name() != parts[1] {
					continue
				}
				q := newDepQuery(p, onField(parts[2]))
				q.noParams = os.Getenv("LSVERIF_NOPARAMS") != ""
				res := q.depends(v, 0)
				fmt.Println(fn, v.Name(), "=", v, "depends:", res)
				for _, s := range q.explain(v, 60) {
					fmt.Println("   <-", s)
				}
			}
		}
	}
	return 0
}

// debugOrigin: arg "func|tNN": origin verdict of a value.
func debugOrigin(p *Program, arg string) int {
	parts := strings.Split(arg, "|")
	e := sharedE2(p)
	for _, fn := range p.allRepoFuncs() {
		if !strings.HasSuffix(fn.String(), parts[0]) {
			continue
		}
		for _, b := range fn.Blocks {
			for _, in := range b.Instrs {
				if v, ok := in.(ssa.Value); ok && (len(parts) < 2 || v.Name() == parts[1]) {
					fmt.Printf("%s %s = %s : %s\n", shortFn(fn), v.Name(), v.String(), e.origin(v, 0))
				}
			}
		}
	}
	return 0
}

func debugUnits(p *Program, arg string) int {
	ua := newUnitAnalysis(p)
	fns := p.allRepoFuncs()
	k, n := ua.knownIn(fns)
	fmt.Printf("numeric values: %d, with a known unit: %d\n", n, k)
	for _, c := range ua.conflicts(fns) {
		if arg != "" && !strings.Contains(shortFn(c.fn), arg) {
			continue
		}
		fmt.Printf("%s: %s: %s [%s]\n", p.pos(c.pos), shortFn(c.fn), c.what, c.key)
	}
	return 0
}

// debugErrDisc lists, for every repository function that itself returns an error, the error results of
// calls to repository functions that are not returned on their non-nil path.
func debugErrDisc(p *Program, arg string) int {
	tot, bad := 0, 0
	for _, fn := range p.allRepoFuncs() {
		res := fn.Signature.Results()
		retErr := false
		for i := 0; i < res.Len(); i++ {
			if isErrorType(res.At(i).Type()) {
				retErr = true
			}
		}
		if !retErr {
			continue
		}
		for _, b := range fn.Blocks {
			for _, in := range b.Instrs {
				c, ok := in.(*ssa.Call)
				if !ok {
					continue
				}
				callee := c.Call.StaticCallee()
				if callee == nil || !p.isRepoFunc(callee) {
					continue
				}
				for _, e := range errorValuesOfCall(c) {
					tot++
					if e == nil {
						bad++
						fmt.Printf("%s: %s: error of %s discarded\n", p.pos(instrPos(c)), shortFn(fn), shortFn(callee))
						continue
					}
					if ok, why := errorReturnedWhenNonNil(e); !ok {
						bad++
						fmt.Printf("%s: %s: error of %s: %s\n", p.pos(instrPos(c)), shortFn(fn), shortFn(callee), why)
					}
				}
			}
		}
	}
	fmt.Println("error results of repository calls in error-returning functions:", tot, "not returned:", bad)
	return 0
}
