package main

import (
	"fmt"
	"go/token"
	"strings"

	"golang.org/x/tools/go/ssa"
)

func init() { register("C17", checkC17) }

func checkC17(p *Program, r *Reporter) {
	r.Explanation = "Static analysis of structural necessary conditions of C17 in the ingest receiver: (a) atomic publication: the final name of the timeline MPD is only ever the destination of os.Rename; on every path to that Rename the temporary file was created, the document written without error and the file closed, in that order; " +
		"(b) monotone newest number: every store to the generator's latestSeqNr is dominated by comparisons from which stored >= new > old follows; (c) a segment is counted for its sequence number only after the track buffer accepted it; " +
		"(d) the sequence number used to name the stored file and to name the file to delete is final: no store to it can follow those uses; (e) the timeline generator, its counters and track buffers are touched by the channel goroutine only (E2), and that goroutine cannot divide by zero on uploaded data (E3-A). " +
		"Contiguity/completeness of the listed range, stored content, buffer bounds and index safety of the circular buffers are not decided."
	r.NotCovered = "contiguity and completeness of the listed range for arbitrary arrival orders, equality of stored and uploaded bytes, bounds of storage and buffers, index safety of circular buffers"
	r.Assumptions = []string{"os.Rename within one directory is atomic", "E2/E3 assumptions as in C19/C08"}
	if shf := p.mustFunc(r, pkgRecv, "(*Receiver).SegmentHandlerFunc"); shf != nil {
		sameNumberRule(p, r, shf)
	}
	gen := p.mustFunc(r, pkgRecv, "(*segmentTimelineGenerator).generateSegmentTimelineNrMPD")
	asd := p.mustFunc(r, pkgRecv, "(*segmentTimelineGenerator).addSegmentData")
	run := p.mustFunc(r, pkgRecv, "(*channel).run")
	if gen == nil || asd == nil || run == nil {
		return
	}
	finalName := "manifest_timeline_nr.mpd"
	// (a) atomic publication
	r.Rule("E5-ATOMIC", "timeline MPD published by rename of a completely written and closed temporary file", 1)
	pathUsesFinalName := func(v ssa.Value) (uses bool, suffixed bool) {
		sliceVisitIntra(p, v, func(x ssa.Value) {
			if s, ok := constString(x); ok {
				if s == finalName {
					uses = true
				}
				if strings.HasPrefix(s, finalName) && s != finalName {
					suffixed = true
				}
			}
			// finalName + ".tmp" folded or concatenated
			if bo, ok := x.(*ssa.BinOp); ok && bo.Op == token.ADD {
				if s, ok := constString(bo.X); ok && s == finalName {
					suffixed = true
				}
			}
		})
		return
	}
	var rename *ssa.Call
	for _, fn := range pkgFuncs(p, pkgRecv) {
		for _, b := range fn.Blocks {
			for _, in := range b.Instrs {
				c, ok := in.(*ssa.Call)
				if !ok || c.Call.StaticCallee() == nil {
					continue
				}
				switch c.Call.StaticCallee().String() {
				case "os.Create", "os.OpenFile", "os.WriteFile":
					uses, suffixed := pathUsesFinalName(c.Call.Args[0])
					if uses || suffixed {
						r.Decide(suffixed, "E5-ATOMIC", shortFn(fn), "open:"+c.Call.StaticCallee().Name(), p.pos(c.Pos()), "opens the temporary name only",
							"the published MPD file is opened for writing in place: a reader can see a partially written document", nil)
					}
				case "os.Rename":
					uses, suffixed := pathUsesFinalName(c.Call.Args[1])
					if uses && !suffixed && fn == gen {
						rename = c
					}
				}
			}
		}
	}
	// writesCompletely: function fn creates the file named by value `path`, writes the document with its error
	// returned, and closes the file (deferred, or before every success return). Returns the create call.
	isCloseCall := func(in ssa.Instruction) bool {
		var cc *ssa.CallCommon
		switch x := in.(type) {
		case *ssa.Call:
			cc = &x.Call
		case *ssa.Defer:
			cc = &x.Call
		default:
			return false
		}
		callee := cc.StaticCallee()
		return callee != nil && (callee.Name() == "finalClose" || callee.String() == "(*os.File).Close")
	}
	writesCompletely := func(fn *ssa.Function, isPath func(ssa.Value) bool) (bool, string) {
		var create, write *ssa.Call
		deferredClose := false
		var closes []ssa.Instruction
		for _, b := range fn.Blocks {
			for _, in := range b.Instrs {
				if c, ok := in.(*ssa.Call); ok && c.Call.StaticCallee() != nil {
					switch {
					case c.Call.StaticCallee().String() == "os.Create" && isPath(c.Call.Args[0]):
						create = c
					case c.Call.StaticCallee().Name() == "Write" && strings.Contains(c.Call.StaticCallee().String(), "dash-mpd/mpd.MPD"):
						write = c
					}
				}
				if isCloseCall(in) {
					if _, isDefer := in.(*ssa.Defer); isDefer {
						deferredClose = true
					} else {
						closes = append(closes, in)
					}
				}
			}
		}
		if create == nil {
			return false, "no os.Create of the temporary file"
		}
		if write == nil || !instrDominates(create, write) {
			return false, "the document is not written after the file was created"
		}
		for _, e := range errorValuesOfCall(write) {
			if e == nil {
				return false, "the error of writing the document is discarded"
			}
			if ok, why := errorReturnedWhenNonNil(e); !ok {
				return false, "the error of writing the document is not returned: " + why
			}
		}
		if deferredClose {
			return true, "created, written (error returned), closed by a deferred call"
		}
		// explicit close before every success return
		for _, b := range fn.Blocks {
			ret, ok := b.Instrs[len(b.Instrs)-1].(*ssa.Return)
			if !ok {
				continue
			}
			last := ret.Results[len(ret.Results)-1]
			if !isNilConst(last) {
				continue
			}
			closed := false
			for _, c := range closes {
				if instrDominates(c, ret) && instrDominates(write, c) {
					closed = true
				}
			}
			if !closed {
				return false, "a successful return is reachable without closing the file"
			}
		}
		return true, "created, written (error returned), closed before returning"
	}
	if rename == nil {
		r.Violate("E5-ATOMIC", shortFn(gen), "rename", p.pos(gen.Pos()), "the timeline MPD is no longer published by os.Rename onto its final name", nil)
	} else {
		// the temporary file lives in the directory of the file it replaces: both names are joined onto the
		// same directory value (another directory is shared with other channels, and a rename across
		// directories is no longer the replace-in-place the readers rely on)
		dirOf := func(v ssa.Value) ssa.Value {
			for i := 0; i < 4; i++ {
				c, ok := v.(*ssa.Call)
				if !ok || c.Call.StaticCallee() == nil || c.Call.StaticCallee().String() != "path/filepath.Join" || len(c.Call.Args) == 0 {
					return nil
				}
				// variadic: the first element stored into the argument slice
				var first ssa.Value
				sl, ok := c.Call.Args[0].(*ssa.Slice)
				if !ok {
					return nil
				}
				al, ok := sl.X.(*ssa.Alloc)
				if !ok || al.Referrers() == nil {
					return nil
				}
				for _, ref := range *al.Referrers() {
					if ia, ok := ref.(*ssa.IndexAddr); ok && ia.Referrers() != nil {
						if k, isC := constInt(ia.Index); isC && k == 0 {
							for _, r2 := range *ia.Referrers() {
								if st, ok := r2.(*ssa.Store); ok {
									first = st.Val
								}
							}
						}
					}
				}
				return first
			}
			return nil
		}
		if len(rename.Call.Args) == 2 {
			d1, d2 := dirOf(rename.Call.Args[0]), dirOf(rename.Call.Args[1])
			if d1 != nil && d2 != nil {
				r.Decide(sameValue(d1, d2), "E5-ATOMIC", shortFn(gen), "same-directory", p.pos(rename.Pos()), "temporary and final name are joined onto the same directory",
					"the temporary file is created in another directory than the file it replaces ("+roleKey(d1)+" vs "+roleKey(d2)+"): a directory shared by several channels makes their writers overwrite each other's temporary file", nil)
			}
		}
		isTmp := func(v ssa.Value) bool { _, suffixed := pathUsesFinalName(v); return suffixed }
		done := false
		// a helper that receives the temporary name, called on every path to the rename, its error tested
		for _, b := range gen.Blocks {
			for _, in := range b.Instrs {
				c, ok := in.(*ssa.Call)
				if !ok || c.Call.StaticCallee() == nil || !p.isRepoFunc(c.Call.StaticCallee()) || len(c.Call.StaticCallee().Blocks) == 0 {
					continue
				}
				callee := c.Call.StaticCallee()
				for ai, a := range c.Call.Args {
					if !isTmp(a) || ai >= len(callee.Params) {
						continue
					}
					prm := callee.Params[ai]
					okW, whyW := writesCompletely(callee, func(v ssa.Value) bool { return v == ssa.Value(prm) })
					if !okW {
						continue
					}
					onNilSide := false
					for _, e := range errorValuesOfCall(c) {
						for _, cd := range condsAt(rename) {
							if is, nonNilOnTrue := nilTest(cd.V, e); is && nonNilOnTrue != cd.Pos {
								onNilSide = true
							}
						}
					}
					if instrDominates(c, rename) && onNilSide {
						done = true
						r.Discharge("E5-ATOMIC", shortFn(gen), "written-before-rename", p.pos(rename.Pos()), "the rename follows a successful call of "+shortFn(callee)+" on the temporary name: "+whyW)
					}
				}
			}
		}
		if !done {
			okW, whyW := writesCompletely(gen, isTmp)
			onNilSide := false
			for _, b := range gen.Blocks {
				for _, in := range b.Instrs {
					if c, ok := in.(*ssa.Call); ok && c.Call.StaticCallee() != nil && c.Call.StaticCallee().Name() == "Write" && strings.Contains(c.Call.StaticCallee().String(), "dash-mpd/mpd.MPD") {
						for _, e := range errorValuesOfCall(c) {
							for _, cd := range condsAt(rename) {
								if is, nonNilOnTrue := nilTest(cd.V, e); is && nonNilOnTrue != cd.Pos {
									onNilSide = true
								}
							}
						}
						if !instrDominates(c, rename) {
							onNilSide = false
						}
					}
				}
			}
			closedBefore := false
			for _, b := range gen.Blocks {
				for _, in := range b.Instrs {
					if isCloseCall(in) {
						if _, isDefer := in.(*ssa.Defer); !isDefer && instrDominates(in, rename) {
							closedBefore = true
						}
					}
				}
			}
			switch {
			case !okW:
				r.Violate("E5-ATOMIC", shortFn(gen), "written-before-rename", p.pos(rename.Pos()), "the temporary file is not completely written before the rename: "+whyW, nil)
			case !onNilSide:
				r.Violate("E5-ATOMIC", shortFn(gen), "written-before-rename", p.pos(rename.Pos()), "the rename is reachable although writing the document failed or did not happen: a truncated MPD is published", nil)
			case !closedBefore:
				r.Violate("E5-ATOMIC", shortFn(gen), "written-before-rename", p.pos(rename.Pos()), "the temporary file is not closed between writing and renaming on every path (a deferred close runs after the rename)", nil)
			default:
				r.Discharge("E5-ATOMIC", shortFn(gen), "written-before-rename", p.pos(rename.Pos()), "created, written without error and closed on every path to the rename")
			}
		}
	}
	// (b) monotone latestSeqNr
	r.Rule("E5-MONOTONE", "newest listed number never decreases: every store to latestSeqNr is dominated by stored >= new > old", 1)
	nStores := 0
	for _, fn := range pkgFuncs(p, pkgRecv) {
		if _, serving := p.reachH[fn]; !serving {
			continue
		}
		for _, b := range fn.Blocks {
			for _, in := range b.Instrs {
				st, ok := in.(*ssa.Store)
				if !ok {
					continue
				}
				if f, ok := fieldOfAddr(st.Addr); !ok || f != "recv.segmentTimelineGenerator.latestSeqNr" {
					continue
				}
				nStores++
				newGtOld, storedGeNew := false, false
				var newV ssa.Value
				for _, cd := range condsAt(st) {
					bo, ok := cd.V.(*ssa.BinOp)
					if !ok {
						continue
					}
					// !(new <= old)  or  (new > old)
					if (bo.Op == token.LEQ && !cd.Pos) || (bo.Op == token.GTR && cd.Pos) {
						if f, ok := loadedField(bo.Y); ok && f == "recv.segmentTimelineGenerator.latestSeqNr" {
							newGtOld = true
							newV = bo.X
						}
					}
				}
				for _, cd := range condsAt(st) {
					bo, ok := cd.V.(*ssa.BinOp)
					if !ok || newV == nil {
						continue
					}
					// !(new > stored) or (new <= stored)
					if ((bo.Op == token.GTR && !cd.Pos) || (bo.Op == token.LEQ && cd.Pos)) && bo.X == newV && bo.Y == st.Val {
						storedGeNew = true
					}
					if newV == st.Val {
						storedGeNew = true
					}
				}
				r.Decide(newGtOld && storedGeNew, "E5-MONOTONE", shortFn(fn), "store:latestSeqNr", p.pos(st.Pos()), "dominated by new > old and new <= stored",
					fmt.Sprintf("the newest listed number can decrease: the store is not dominated by comparisons giving stored >= new > old (new>old: %v, stored>=new: %v)", newGtOld, storedGeNew), nil)
			}
		}
	}
	if nStores == 0 {
		r.Broken("no serving-phase store to latestSeqNr found")
	}
	// (c) counted after accepted
	r.Rule("E5-COUNTED", "a segment is counted for its sequence number only after the track buffer accepted it", 1)
	var bufAdd *ssa.Call
	for _, b := range asd.Blocks {
		for _, in := range b.Instrs {
			if c, ok := in.(*ssa.Call); ok && c.Call.StaticCallee() != nil && shortFn(c.Call.StaticCallee()) == "(*recv.segDataBuffer).add" {
				bufAdd = c
			}
		}
	}
	nCnt := 0
	for _, b := range asd.Blocks {
		for _, in := range b.Instrs {
			c, ok := in.(*ssa.Call)
			if !ok || c.Call.StaticCallee() == nil || shortFn(c.Call.StaticCallee()) != "(*recv.seqCounters).add" {
				continue
			}
			nCnt++
			ok2 := false
			if bufAdd != nil {
				for _, cd := range condsAt(c) {
					if is, nonNilOnTrue := nilTest(cd.V, bufAdd); is && nonNilOnTrue != cd.Pos {
						ok2 = true
					}
				}
			}
			r.Decide(ok2, "E5-COUNTED", shortFn(asd), "call:seqCounters.add", p.pos(c.Pos()), "dominated by the nil side of the track buffer's error",
				"the completeness counter is incremented although the track buffer may have rejected the item: the MPD can list a number for which a track has no stored segment", nil)
		}
	}
	if nCnt == 0 {
		r.Violate("E5-COUNTED", shortFn(asd), "call:seqCounters.add", p.pos(asd.Pos()), "addSegmentData no longer counts the segment", nil)
	}
	// (d) sequence number final before it names files
	r.Rule("E5-SEQFINAL", "no store to the segment's sequence number can follow its use in the stored file's name or in the name of the file to delete", 1)
	nUses := 0
	for _, fn := range pkgFuncs(p, pkgRecv) {
		if !strings.Contains(shortFn(fn), "SegmentHandlerFunc") {
			continue
		}
		ff := factsOf(fn)
		var stores []*ssa.Store
		for _, b := range fn.Blocks {
			for _, in := range b.Instrs {
				if st, ok := in.(*ssa.Store); ok {
					if f, ok := fieldOfAddr(st.Addr); ok && f == "recv.recSegData.seqNr" {
						stores = append(stores, st)
					}
				}
			}
		}
		for _, b := range fn.Blocks {
			for _, in := range b.Instrs {
				c, ok := in.(*ssa.Call)
				if !ok || c.Call.StaticCallee() == nil {
					continue
				}
				n := c.Call.StaticCallee().String()
				if n != "os.Remove" && n != "os.Create" {
					continue
				}
				var loads []ssa.Instruction
				sliceVisitIntra(p, c.Call.Args[0], func(x ssa.Value) {
					if f, ok := loadedField(x); ok && f == "recv.recSegData.seqNr" {
						if li, ok := x.(ssa.Instruction); ok {
							loads = append(loads, li)
						}
					}
				})
				if len(loads) == 0 {
					continue
				}
				nUses++
				bad := ""
				for _, l := range loads {
					for _, st := range stores {
						after := false
						if st.Block() == l.Block() {
							after = instrIndex(st) > instrIndex(l)
						} else {
							after = ff.blockReaches(l.Block(), st.Block())
						}
						if after {
							bad = p.pos(st.Pos())
						}
					}
				}
				r.Decide(bad == "", "E5-SEQFINAL", shortFn(fn), "path:"+c.Call.StaticCallee().Name(), p.pos(c.Pos()), "the sequence number is final when the file name is built",
					"the sequence number is rewritten at "+bad+" after it was used to build this file name: the file stored or deleted is not the one of the final number", nil)
			}
		}
	}
	if nUses == 0 {
		r.Broken("no file name built from the segment's sequence number found in the upload handler")
	}
	trackPathRule(p, r)
	// (e) ownership and arithmetic
	e2 := sharedE2(p)
	r.Rule("E2-OWNER", "timeline generator, counters and track buffers: touched by the channel goroutine only, or under its mutex", 0)
	e2.ruleRace(r, "E2-OWNER", func(tid string) bool {
		return tid == "recv.segmentTimelineGenerator" || tid == "recv.seqCounters" || tid == "recv.segDataBuffer" || tid == "recv.seqCounter"
	})
	n := 0
	for _, a := range e2.accesses {
		tid := a.field[:strings.LastIndex(a.field, ".")]
		if tid == "recv.segmentTimelineGenerator" || tid == "recv.seqCounters" || tid == "recv.segDataBuffer" {
			n++
		}
	}
	r.Extra["generator_state_accesses_analysed"] = n
	if n < 10 {
		r.Broken("only %d accesses to generator state analysed (floor 10)", n)
	}
	e := sharedE3(p, r)
	var fns []*ssa.Function
	for fn := range p.reachableFrom(run) {
		if p.isRepoFunc(fn) && sideOfPkg(calleePkgPath(fn)) != "livesim" && calleePkgPath(fn) != pkgApp {
			fns = append(fns, fn)
		}
	}
	r.Rule("E3-A", "channel goroutine: divisors proven non-zero for every upload", 4)
	e.classA("E3-A", fns)
}

// valueReadsFieldDeep: the function-local slice of v (closure variables and their bindings included) loads the field.
func valueReadsFieldDeep(p *Program, v ssa.Value, field string) bool {
	q := newDepQueryLocal(p, onField(field))
	q.intra = true
	return q.depends(v, 0)
}

// trackPathRule: per-segment files of the upload handler live in the directory of the segment's track.
func trackPathRule(p *Program, r *Reporter) {
// media files are stored under their track: every file the upload handler creates, removes or renames to,
// whose name is built from the segment's sequence number, is also built from the track directory
r.Rule("E4-TRACKPATH", "files named after a segment number live in the directory of the segment's track", 1)
nPaths := 0
for _, fn := range pkgFuncs(p, pkgRecv) {
	if !strings.Contains(shortFn(fn), "SegmentHandlerFunc") {
		continue
	}
	for _, b := range fn.Blocks {
		for _, in := range b.Instrs {
			c, ok := in.(*ssa.Call)
			if !ok || c.Call.StaticCallee() == nil {
				continue
			}
			var paths []ssa.Value
			switch c.Call.StaticCallee().String() {
			case "os.Create", "os.Remove", "os.OpenFile", "os.WriteFile":
				paths = []ssa.Value{c.Call.Args[0]}
			case "os.Rename":
				paths = []ssa.Value{c.Call.Args[0], c.Call.Args[1]}
			default:
				continue
			}
			for i, pv := range paths {
				if !valueReadsFieldDeep(p, pv, "recv.recSegData.seqNr") {
					continue // not a per-segment file (MPD, init, raw data)
				}
				nPaths++
				okT := valueReadsFieldDeep(p, pv, "recv.stream.trDir")
				r.Decide(okT, "E4-TRACKPATH", shortFn(fn), fmt.Sprintf("path:%s#%d", c.Call.StaticCallee().Name(), i), p.pos(c.Pos()), "the path is built from the track directory",
					"a file named after the segment number is not placed in the track's directory: two tracks of a channel that upload the same number use the same file", nil)
			}
		}
	}
}
if nPaths == 0 {
	r.Broken("no per-segment file path found in the upload handler")
}
}
