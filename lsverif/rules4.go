package main

// Small structural rules added after the fourth round of seeded changes. Each decides one necessary
// condition named in its rule text; none decides behaviour.

import (
	"go/token"
	"go/types"
	"strings"

	"golang.org/x/tools/go/ssa"
)

func isUnsignedType(t types.Type) bool {
	b, ok := t.Underlying().(*types.Basic)
	return ok && b.Info()&types.IsUnsigned != 0
}

// belowStartRule (C04): each copy of the number -> segment mapping refuses numbers below the start number
// with a test "n - startNr < 0" that can actually fire: the tested difference is a signed integer, depends
// on the requested number and on the configured start number, and the true side leaves with an error.
func belowStartRule(p *Program, r *Reporter, fns []*ssa.Function) {
	r.Rule("E5-BELOWSTART", "numbers below startNumber are refused by a signed 'n - startNr < 0' test whose true side is an error exit", 3)
	for _, fn := range fns {
		var nrPrm *ssa.Parameter
		for _, prm := range fn.Params {
			if prm.Name() == "nr" {
				nrPrm = prm
			}
		}
		if nrPrm == nil {
			r.Broken("%s has no nr parameter", shortFn(fn))
			continue
		}
		good, dead := 0, ""
		cl := cluster(fn)
		// the blocks entered when a boolean value is false/true, wherever that value is branched on
		// (directly, or after it was returned by a helper of the cluster)
		var branchTargets func(v ssa.Value, when bool, depth int) []*ssa.BasicBlock
		branchTargets = func(v ssa.Value, when bool, depth int) []*ssa.BasicBlock {
			var out []*ssa.BasicBlock
			if v.Referrers() == nil || depth > 3 {
				return nil
			}
			for _, ref := range *v.Referrers() {
				switch x := ref.(type) {
				case *ssa.If:
					if when {
						out = append(out, x.Block().Succs[0])
					} else {
						out = append(out, x.Block().Succs[1])
					}
				case *ssa.UnOp:
					if x.Op == token.NOT {
						out = append(out, branchTargets(x, !when, depth+1)...)
					}
				case *ssa.Return:
					h := x.Parent()
					for j, res := range x.Results {
						if res != v {
							continue
						}
						for _, site := range callsTo(p, h) {
							call, ok := site.(*ssa.Call)
							if !ok || !inClusterList(cl, call.Parent()) || call.Referrers() == nil {
								continue
							}
							if h.Signature.Results().Len() == 1 {
								out = append(out, branchTargets(call, when, depth+1)...)
								continue
							}
							for _, r2 := range *call.Referrers() {
								if ex, ok := r2.(*ssa.Extract); ok && ex.Index == j {
									out = append(out, branchTargets(ex, when, depth+1)...)
								}
							}
						}
					}
				}
			}
			return out
		}
		for _, c := range cl {
			for _, b := range c.Blocks {
				for _, in := range b.Instrs {
					bo, ok := in.(*ssa.BinOp)
					if !ok {
						continue
					}
					var x ssa.Value
					negWhen := true // the comparison is true for negative differences
					switch {
					case bo.Op == token.LSS && isZeroConst(bo.Y):
						x = bo.X
					case bo.Op == token.GTR && isZeroConst(bo.X):
						x = bo.Y
					case bo.Op == token.GEQ && isZeroConst(bo.Y):
						x, negWhen = bo.X, false
					case bo.Op == token.LEQ && isZeroConst(bo.X):
						x, negWhen = bo.Y, false
					default:
						continue
					}
					dep := localDependsOnParam(p, x, nrPrm)
					if !dep {
						// inside a helper: the helper's own parameter bound to nr
						q := newDepQuery(p, onParam(nrPrm))
						q.noParams = true
						dep = q.depends(x, 0)
					}
					if !dep || !valueDependsOnField(p, x, "app.ResponseConfig.StartNr") {
						continue
					}
					if isUnsignedType(x.Type()) {
						dead = p.pos(bo.Pos())
						continue
					}
					for _, fail := range branchTargets(bo, negWhen, 0) {
						if isErrorExit(fail) || factsOf(fail.Parent()).errOnly[fail] {
							good++
						}
					}
				}
			}
		}
		switch {
		case good > 0:
			r.Discharge("E5-BELOWSTART", shortFn(fn), "guard:nr-startNr<0", p.pos(fn.Pos()), "signed difference tested, failing side is an error exit")
		case dead != "":
			r.Violate("E5-BELOWSTART", shortFn(fn), "guard:nr-startNr<0", dead, "the test for numbers below startNumber compares an unsigned value with 0 and can never fire: such requests are mapped to a far-away segment instead of being refused", nil)
		default:
			r.Violate("E5-BELOWSTART", shortFn(fn), "guard:nr-startNr<0", p.pos(fn.Pos()), "no test refuses numbers below the configured start number", nil)
		}
	}
}

func isZeroConst(v ssa.Value) bool {
	k, ok := constInt(v)
	return ok && k == 0
}

// callsIn lists the static calls to functions named pkg.name (e.g. "io.ReadFull") in the given functions.
func callsIn(fns []*ssa.Function, full ...string) []*ssa.Call {
	var out []*ssa.Call
	for _, fn := range fns {
		for _, b := range fn.Blocks {
			for _, in := range b.Instrs {
				c, ok := in.(*ssa.Call)
				if !ok || c.Call.StaticCallee() == nil {
					continue
				}
				for _, f := range full {
					if c.Call.StaticCallee().String() == f {
						out = append(out, c)
					}
				}
			}
		}
	}
	return out
}

// readFullRule (C18): io.ReadFull and io.ReadAtLeast report a stream that ends inside the requested
// range as io.ErrUnexpectedEOF, never as io.EOF with data. A caller that treats only io.EOF as the end
// of input turns a truncated stream into an error and loses the bytes read so far.
func readFullRule(p *Program, r *Reporter, fns []*ssa.Function) {
	r.Rule("E5-READFULL", "where the parser reads with io.ReadFull/io.ReadAtLeast, io.ErrUnexpectedEOF is recognised as end of input", 0)
	calls := callsIn(fns, "io.ReadFull", "io.ReadAtLeast")
	if len(calls) == 0 {
		return
	}
	recognised := false
	for _, fn := range fns {
		for _, b := range fn.Blocks {
			for _, in := range b.Instrs {
				if u, ok := in.(*ssa.UnOp); ok && u.Op == token.MUL {
					if g, ok := u.X.(*ssa.Global); ok && g.Pkg != nil && g.Pkg.Pkg.Path() == "io" && g.Name() == "ErrUnexpectedEOF" {
						recognised = true
					}
				}
			}
		}
	}
	for _, c := range calls {
		r.Decide(recognised, "E5-READFULL", shortFn(c.Parent()), "call:"+c.Call.StaticCallee().Name(), p.pos(c.Pos()), "io.ErrUnexpectedEOF is handled in the parser",
			"the parser reads with "+c.Call.StaticCallee().String()+" but nowhere recognises io.ErrUnexpectedEOF: a stream that ends inside a box is reported as an error and its trailing bytes are not delivered", nil)
	}
}

// noDropRule (C19): a hand-over of received segment data to the channel goroutine must not be droppable:
// a send that is an arm of a select with a default branch (or with a timer arm) silently loses the data
// of an upload that has been stored and acknowledged.
func noDropRule(p *Program, r *Reporter, fns []*ssa.Function, chanField string) {
	r.Rule("E5-NODROP", "segment data is handed to the channel goroutine by a send that cannot be skipped", 1)
	n := 0
	for _, fn := range fns {
		for _, b := range fn.Blocks {
			for _, in := range b.Instrs {
				switch x := in.(type) {
				case *ssa.Send:
					if f, ok := loadedField(x.Chan); ok && f == chanField {
						n++
						r.Discharge("E5-NODROP", shortFn(fn), "send:"+chanField, p.pos(x.Pos()), "plain blocking send")
					}
				case *ssa.Select:
					for _, st := range x.States {
						if st.Dir != types.SendOnly {
							continue
						}
						if f, ok := loadedField(st.Chan); ok && f == chanField {
							n++
							others := 0
							for _, o := range x.States {
								if o == st {
									continue
								}
								// an arm that waits for cancellation ends the hand-over only when the receiver shuts down
								if c, ok := o.Chan.(*ssa.Call); ok && o.Dir == types.RecvOnly && c.Call.IsInvoke() && c.Call.Method.Name() == "Done" {
									continue
								}
								others++
							}
							r.Decide(x.Blocking && others == 0, "E5-NODROP", shortFn(fn), "send:"+chanField, p.pos(x.Pos()), "blocking select with the send as only arm",
								"the hand-over is one arm of a select that can take another way (default branch or another channel): when the channel goroutine is busy the data of a stored, acknowledged upload is dropped", nil)
						}
					}
				}
			}
		}
	}
	if n == 0 {
		r.Broken("no send on %s found", chanField)
	}
}

// errReturnedAt: the error result of every call to callee inside caller is returned on all non-nil paths.
func roundingCallsInSlice(p *Program, v ssa.Value) []string {
	var out []string
	seen := map[ssa.Value]bool{}
	sliceVisit(p, v, true, func(x ssa.Value) {
		if seen[x] {
			return
		}
		seen[x] = true
		if c, ok := x.(*ssa.Call); ok && c.Call.StaticCallee() != nil {
			n := c.Call.StaticCallee().String()
			if n == "math.Round" || n == "math.Ceil" || n == "math.RoundToEven" {
				out = append(out, n+" at "+p.pos(c.Pos()))
			}
		}
	})
	return out
}

// wholeSecondRule (C14): the second handed to the traffic-pattern lookup is the request instant floored to
// seconds: no rounding up or to nearest in its computation.
func wholeSecondRule(p *Program, r *Reporter, stateAt *ssa.Function) {
	r.Rule("E4-FLOORSECOND", "the second handed to the traffic-pattern lookup is the request time floored, not rounded", 1)
	for _, s := range callsTo(p, stateAt) {
		args := s.Common().Args
		arg := args[len(args)-1]
		rc := roundingCallsInSlice(p, arg)
		r.Decide(len(rc) == 0, "E4-FLOORSECOND", shortFn(s.Parent()), "StateAt.arg", p.pos(s.Pos()), "no rounding call in the computation of the second",
			"the second handed to StateAt is rounded ("+strings.Join(rc, ", ")+"): in the second half of each second the BaseURL already shows the state of the next second", nil)
	}
}

// tableValueRule (C19): a function that inserts a freshly built object into a shared table and hands an
// object of the table's element type back to its caller must hand back the object that is in the table:
// either the result of a lookup in that table, or the inserted object on a path on which the insert was
// executed. Returning the freshly built object regardless of who won the insert gives the losing request
// a private object that no other request can see.
func tableValueRule(p *Program, r *Reporter, fns []*ssa.Function) {
	r.Rule("E2-TABLEVALUE", "get-or-create functions return the object that is in the table", 0)
	for _, fn := range fns {
		for _, b := range fn.Blocks {
			for _, in := range b.Instrs {
				mu, ok := in.(*ssa.MapUpdate)
				if !ok {
					continue
				}
				tbl, ok := loadedField(mu.Map)
				if !ok {
					continue
				}
				mt, ok := mu.Map.Type().Underlying().(*types.Map)
				if !ok {
					continue
				}
				if _, isPtr := mt.Elem().Underlying().(*types.Pointer); !isPtr {
					continue
				}
				for _, rb := range fn.Blocks {
					ret, ok := rb.Instrs[len(rb.Instrs)-1].(*ssa.Return)
					if !ok || !ret.Pos().IsValid() {
						continue
					}
					for _, res := range ret.Results {
						if !types.Identical(res.Type(), mt.Elem()) || isNilConst(res) {
							continue
						}
						ok := inTable(res, tbl, mu, rb, map[ssa.Value]bool{})
						r.Decide(ok, "E2-TABLEVALUE", shortFn(fn), "return:"+tbl, p.pos(ret.Pos()), "the returned object is the table's entry",
							"the function inserts into "+tbl+" only when the key is absent but returns its own freshly built object in either case: a request that loses the insert works on an object no other request can reach", nil)
					}
				}
			}
		}
	}
}

// inTable: v is a lookup result of table tbl, or the value inserted by mu with mu executed on every path to rb.
func inTable(v ssa.Value, tbl string, mu *ssa.MapUpdate, rb *ssa.BasicBlock, seen map[ssa.Value]bool) bool {
	if seen[v] {
		return true
	}
	seen[v] = true
	switch x := v.(type) {
	case *ssa.Lookup:
		f, ok := loadedField(x.X)
		return ok && f == tbl
	case *ssa.Extract:
		if l, ok := x.Tuple.(*ssa.Lookup); ok && x.Index == 0 {
			f, ok := loadedField(l.X)
			return ok && f == tbl
		}
	case *ssa.Phi:
		for i, e := range x.Edges {
			pred := x.Block().Preds[i]
			if e == mu.Value {
				if !(mu.Block() == pred || mu.Block().Dominates(pred)) {
					return false
				}
				continue
			}
			if !inTable(e, tbl, mu, pred, seen) {
				return false
			}
		}
		return true
	}
	if v == mu.Value {
		return mu.Block() == rb || mu.Block().Dominates(rb)
	}
	return false
}

// alwaysResultOf: on every path v is (a conversion of) result #idx of a call to callee: phi edges and the
// stores of a local variable must all qualify; arithmetic does not.
func alwaysResultOf(v ssa.Value, callee *ssa.Function, idx int, seen map[ssa.Value]bool) bool {
	if seen[v] {
		return true
	}
	seen[v] = true
	switch x := v.(type) {
	case *ssa.Call:
		if idx == 0 && x.Call.StaticCallee() == callee {
			return true
		}
		return helperAlwaysReturns(x.Call.StaticCallee(), 0, callee, idx, seen)
	case *ssa.Extract:
		c, ok := x.Tuple.(*ssa.Call)
		if !ok {
			return false
		}
		if x.Index == idx && c.Call.StaticCallee() == callee {
			return true
		}
		return helperAlwaysReturns(c.Call.StaticCallee(), x.Index, callee, idx, seen)
	case *ssa.Convert:
		return alwaysResultOf(x.X, callee, idx, seen)
	case *ssa.ChangeType:
		return alwaysResultOf(x.X, callee, idx, seen)
	case *ssa.Phi:
		for _, e := range x.Edges {
			if !alwaysResultOf(e, callee, idx, seen) {
				return false
			}
		}
		return true
	case *ssa.UnOp:
		if x.Op != token.MUL {
			return false
		}
		al, ok := x.X.(*ssa.Alloc)
		if !ok || al.Referrers() == nil {
			return false
		}
		n := 0
		for _, ref := range *al.Referrers() {
			if st, ok := ref.(*ssa.Store); ok && st.Addr == ssa.Value(al) {
				n++
				if !alwaysResultOf(st.Val, callee, idx, seen) {
					return false
				}
			}
		}
		return n > 0
	}
	return false
}

// generationInstantRule (C16): the instant for which the session generates segment n is the availability
// time computed for a segment number by the availability function, on every path (first iteration, loop
// back edge, catch-up loop); it is not advanced by a nominal duration, which drifts as soon as segment
// durations vary.
func generationInstantRule(p *Program, r *Reporter, start, sms, cat *ssa.Function) {
	r.Rule("E4-GENINSTANT", "the instant handed to the segment generator is a computed availability time on every path", 1)
	idx := -1
	for i, prm := range sms.Params {
		if prm.Name() == "nowMS" {
			idx = i
		}
	}
	if idx < 0 {
		r.Broken("sendMediaSegments has no nowMS parameter")
		return
	}
	n := 0
	for _, fn := range cluster(start) {
		for _, s := range callsTo(p, sms) {
			if s.Parent() != fn {
				continue
			}
			n++
			arg := s.Common().Args[idx]
			r.Decide(alwaysResultOf(arg, cat, 0, map[ssa.Value]bool{}), "E4-GENINSTANT", shortFn(fn), "sendMediaSegments.nowMS", p.pos(s.Pos()), "result of calcSegmentAvailabilityTime on every path",
				"on some path the generation instant is not a computed availability time (e.g. advanced by a nominal segment duration): with varying segment durations the session asks for a segment before it exists and skips it, or sends one twice", nil)
		}
	}
	if n == 0 {
		r.Broken("no call of sendMediaSegments in the session loop")
	}
}

// appendSiblingsRule (C10): the sites at which a function appends an element to its result list are
// siblings: whatever function-valued parameter (callback) is applied on the way to one append must be
// applied on the way to every other one. A callback that protects each finished chunk but is missing in
// front of the append of the trailing partial chunk leaves that chunk unprotected.
func appendSiblingsRule(p *Program, r *Reporter, fn *ssa.Function, elemSuffix string) {
	r.Rule("E5-APPENDSIBLINGS", "all sites that append a chunk to the result apply the same callbacks to it first", 1)
	type site struct {
		call *ssa.Call
		cbs  map[string]bool
	}
	var sites []*site
	isAppend := func(in ssa.Instruction) bool {
		c, ok := in.(*ssa.Call)
		if !ok {
			return false
		}
		b, ok := c.Call.Value.(*ssa.Builtin)
		if !ok || b.Name() != "append" {
			return false
		}
		sl, ok := c.Type().Underlying().(*types.Slice)
		return ok && strings.HasSuffix(sl.Elem().String(), elemSuffix)
	}
	callbackOf := func(in ssa.Instruction) (string, bool) {
		c, ok := in.(*ssa.Call)
		if !ok || c.Call.IsInvoke() {
			return "", false
		}
		switch v := c.Call.Value.(type) {
		case *ssa.Parameter:
			if _, isSig := v.Type().Underlying().(*types.Signature); isSig {
				return v.Name(), true
			}
		case *ssa.FreeVar:
			if _, isSig := v.Type().Underlying().(*types.Signature); isSig {
				return v.Name(), true
			}
		}
		return "", false
	}
	for _, b := range fn.Blocks {
		for _, in := range b.Instrs {
			if isAppend(in) {
				sites = append(sites, &site{call: in.(*ssa.Call), cbs: map[string]bool{}})
			}
		}
	}
	if len(sites) == 0 {
		r.Broken("%s: no append to a []%s result found", shortFn(fn), elemSuffix)
		return
	}
	for _, s := range sites {
		// backward walk from the append, stopping at any append site
		seen := map[*ssa.BasicBlock]bool{}
		type item struct {
			b    *ssa.BasicBlock
			upTo int // instructions [0, upTo) are visited
		}
		work := []item{{s.call.Block(), instrIndex(s.call)}}
		for len(work) > 0 {
			it := work[0]
			work = work[1:]
			stopped := false
			for i := it.upTo - 1; i >= 0; i-- {
				in := it.b.Instrs[i]
				if isAppend(in) {
					stopped = true
					break
				}
				if name, ok := callbackOf(in); ok {
					s.cbs[name] = true
				}
			}
			if stopped {
				continue
			}
			for _, pr := range it.b.Preds {
				if !seen[pr] {
					seen[pr] = true
					work = append(work, item{pr, len(pr.Instrs)})
				}
			}
		}
	}
	all := map[string]bool{}
	for _, s := range sites {
		for c := range s.cbs {
			all[c] = true
		}
	}
	for _, s := range sites {
		var missing []string
		for c := range all {
			if !s.cbs[c] {
				missing = append(missing, c)
			}
		}
		sortStrings(missing)
		r.Decide(len(missing) == 0, "E5-APPENDSIBLINGS", shortFn(fn), "append:"+elemSuffix, p.pos(s.call.Pos()), "same callbacks as the other append sites",
			"the element appended here does not pass the callback(s) "+strings.Join(missing, ", ")+" that the other append site applies: what they do (e.g. encrypt the fragment) is missing for this element", nil)
	}
}

// helperAlwaysReturns: result #ri of helper h is, on every successful return, result #idx of callee
// (a wrapper around the call; error returns with a zero value are ignored).
func helperAlwaysReturns(h *ssa.Function, ri int, callee *ssa.Function, idx int, seen map[ssa.Value]bool) bool {
	if h == nil || len(h.Blocks) == 0 || h == callee || h.Pkg == nil || callee.Pkg == nil || h.Pkg != callee.Pkg {
		return false
	}
	n := 0
	for _, b := range h.Blocks {
		ret, ok := b.Instrs[len(b.Instrs)-1].(*ssa.Return)
		if !ok || ri >= len(ret.Results) {
			continue
		}
		if isErrorExit(b) {
			continue
		}
		n++
		if !alwaysResultOf(ret.Results[ri], callee, idx, seen) {
			return false
		}
	}
	return n > 0
}

func inClusterList(cl []*ssa.Function, fn *ssa.Function) bool {
	for _, f := range cl {
		if f == fn {
			return true
		}
	}
	return false
}
