#!/bin/bash
# Regenerates /verif/revfix/NN-<hash>.diff: for every "fix:" commit of /repo the patch that takes the
# current HEAD to "HEAD with that one fix reverted" (3-way revert in a scratch worktree). Apply forward.
set -u
WT=$(mktemp -d /tmp/revfix.XXXXXX)
git -C /repo worktree add -q --detach "$WT" HEAD || exit 1
rm -f /verif/revfix/*.diff
i=0
for h in $(git -C /repo log --reverse --format=%h --grep='^fix:'); do
  i=$((i+1))
  f=/verif/revfix/$(printf %02d $i)-$h.diff
  if git -C "$WT" revert -n "$h" >/dev/null 2>&1; then
    git -C "$WT" diff HEAD > "$f"
    echo "$f ok"
  else
    echo "$f CONFLICT (skipped)"
  fi
  git -C "$WT" revert --abort >/dev/null 2>&1
  git -C "$WT" reset -q --hard HEAD
done
git -C /repo worktree remove --force "$WT"
