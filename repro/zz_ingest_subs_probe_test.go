// Reproduction: an ingest session for a SegmentTimeline URL with generated subtitles panics in the
// session goroutine (nil representation in generateTimelineEntries) and takes the process down.
// Run in a child process: go test -vet=off -run TestProbeIngestTimelineSubs ./cmd/livesim2/app
package app

import (
	"context"
	"io"
	"strings"
	"sync"
	"net/http"
	"net/http/httptest"
	"os"
	"os/exec"
	"testing"
	"time"

	"github.com/Dash-Industry-Forum/livesim2/pkg/logging"
)

func TestProbeIngestTimelineSubs(t *testing.T) {
	if os.Getenv("PROBE_CHILD") == "1" {
		cfg := ServerConfig{VodRoot: "testdata/assets", TimeoutS: 0, LogFormat: logging.LogDiscard}
		_ = logging.InitSlog(cfg.LogLevel, cfg.LogFormat)
		s, err := SetupServer(context.Background(), &cfg)
		if err != nil {
			t.Fatal(err)
		}
		s.cmafMgr.Start()
		var mu sync.Mutex
		var paths []string
		rec := httptest.NewServer(http.HandlerFunc(func(w http.ResponseWriter, r *http.Request) {
			_, _ = io.Copy(io.Discard, r.Body)
			mu.Lock()
			paths = append(paths, r.URL.Path)
			mu.Unlock()
			w.WriteHeader(200)
		}))
		defer rec.Close()
		now := 100000
		nr, err := s.cmafMgr.NewCmafIngester(CmafIngesterSetup{DestRoot: rec.URL, DestName: "x",
			URL: "/livesim2/segtimeline_1/timesubsstpp_en/testpic_2s/Manifest.mpd", TestNowMS: &now})
		if err != nil {
			t.Skipf("session refused: %v", err)
		}
		s.cmafMgr.startIngester(nr)
		ci := s.cmafMgr.ingesters[nr]
		time.Sleep(300 * time.Millisecond)
		ci.triggerNextSegment()
		time.Sleep(500 * time.Millisecond)
		mu.Lock()
		defer mu.Unlock()
		gotSubs := false
		for _, p := range paths {
			if strings.Contains(p, "timestpp-en/") && !strings.Contains(p, "init") {
				gotSubs = true
			}
		}
		if !gotSubs {
			t.Fatalf("no subtitle media segment was delivered; received %v", paths)
		}
		return
	}
	cmd := exec.Command(os.Args[0], "-test.run", "TestProbeIngestTimelineSubs")
	cmd.Env = append(os.Environ(), "PROBE_CHILD=1")
	out, err := cmd.CombinedOutput()
	if err != nil {
		tail := string(out)
		if len(tail) > 1500 {
			tail = tail[len(tail)-1500:]
		}
		t.Fatalf("the server process died: %v\n%s", err, tail)
	}
}
