// Reproduction: cue intervals that end before they start (segment starts later within a UTC second than
// the cue lasts), and misplaced cues for cue durations above one second at non-zero times.
// go test -vet=off -run TestProbeC12CueIntervals ./cmd/livesim2/app
package app

import "testing"

func TestProbeC12CueIntervals(t *testing.T) {
	bad := 0
	for _, cueDur := range []int{1, 100, 900, 1000, 1500, 2500} {
		for _, segDur := range []int{2000, 2002, 3840} {
			for n := 0; n < 1200; n++ {
				utcStart := n * segDur
				itvls := calcCueItvls(utcStart, segDur, utcStart, cueDur)
				prevEnd := utcStart
				for _, ci := range itvls {
					ok := ci.startMS < ci.endMS && ci.startMS >= prevEnd && ci.endMS <= utcStart+segDur &&
						ci.utcS*1000 <= ci.startMS && ci.endMS <= ci.utcS*1000+cueDur
					if !ok {
						bad++
						if bad <= 5 {
							t.Errorf("cueDur=%d segment [%d,%d): cue for second %d is [%d,%d)", cueDur, utcStart, utcStart+segDur, ci.utcS, ci.startMS, ci.endMS)
						}
					}
					prevEnd = ci.endMS
				}
			}
		}
	}
	if bad > 0 {
		t.Errorf("%d cue intervals are empty, reversed, overlapping, outside the segment or not in their second", bad)
	}
}
