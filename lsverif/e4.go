package main

// E4: dependence queries. dependsOn answers "may this value be computed from a
// load of the given struct field (or from the given parameter)?" by a backward
// walk over SSA operands with bounded inter-procedural context:
//   - parameters: the value must depend on the target at EVERY call site (the
//     function is then right in every context);
//   - calls of repository functions: through the returned values (any return)
//     or through any argument (over-approximation of "the callee uses it");
//   - loads of fields of request-local structs / local variables: through any
//     value stored into that field / variable in serving-phase code.
// The answer over-approximates dependence, so a "does not depend" verdict is
// definite: alarms of must-depend rules are sound, silence is not a proof.

import (
	"go/token"
	"strings"

	"golang.org/x/tools/go/ssa"
)

var depExhausted int

type depQuery struct {
	p      *Program
	target func(v ssa.Value) bool // leaf predicate: v itself satisfies the dependence
	memo   map[ssa.Value]int      // 0 unknown, 1 yes, 2 no, 3 in progress
	budget int
	noParams bool
	np     *depQuery
	cuts   int
	stack  []ssa.Value
	why    map[ssa.Value]ssa.Value
	// exploreAll: visit the whole backward slice (used with a target that records and answers false)
	exploreAll bool
}

func newDepQuery(p *Program, target func(v ssa.Value) bool) *depQuery {
	return &depQuery{p: p, target: target, memo: map[ssa.Value]int{}, budget: 2000000}
}

// onField: target is a load of the struct field "pkg.Type.Field" (pointee loads "T.F*" included).
func onField(field string) func(v ssa.Value) bool {
	return func(v ssa.Value) bool {
		if f, ok := loadedField(v); ok && (f == field || f == field+"*") {
			return true
		}
		if fa, ok := v.(*ssa.FieldAddr); ok && structFieldOf(fa.X.Type(), fa.Field) == field {
			return true
		}
		return false
	}
}

// onParam: target is the given parameter.
func onParam(prm *ssa.Parameter) func(v ssa.Value) bool {
	return func(v ssa.Value) bool { return v == ssa.Value(prm) }
}

func (q *depQuery) depends(v ssa.Value, depth int) bool {
	if v == nil {
		return false
	}
	q.budget--
	if q.budget < 0 || depth > 40 {
		depExhausted++
		return true // undecided: over-approximate
	}
	switch q.memo[v] {
	case 1:
		q.note(v)
		return true
	case 2:
		return false
	case 3:
		q.cuts++
		return false
	}
	q.memo[v] = 3
	before := q.cuts
	q.stack = append(q.stack, v)
	r := q.compute(v, depth)
	q.stack = q.stack[:len(q.stack)-1]
	if r {
		q.note(v)
		q.memo[v] = 1
	} else if q.cuts == before {
		q.memo[v] = 2
	} else {
		q.memo[v] = 0 // a cycle was cut below: the negative verdict is not final
	}
	return r
}

func (q *depQuery) note(v ssa.Value) {
	if q.why == nil {
		q.why = map[ssa.Value]ssa.Value{}
	}
	if n := len(q.stack); n > 0 {
		if _, ok := q.why[q.stack[n-1]]; !ok && q.stack[n-1] != v {
			q.why[q.stack[n-1]] = v
		}
	}
}

// explain returns one dependence chain from v to a target (for diagnostics).
func (q *depQuery) explain(v ssa.Value, max int) []string {
	var out []string
	seen := map[ssa.Value]bool{}
	cur := v
	for cur != nil && !seen[cur] && len(out) < max {
		seen[cur] = true
		s := cur.Name()
		if in, ok := cur.(ssa.Instruction); ok && in.Parent() != nil {
			s = shortFn(in.Parent()) + ":" + cur.Name() + "=" + cur.String()
		}
		if len(s) > 90 {
			s = s[:90]
		}
		out = append(out, s)
		if q.target(cur) {
			break
		}
		var next ssa.Value
		if w, ok := q.why[cur]; ok {
			cur = w
			continue
		}
		if q.np != nil {
			if w, ok := q.np.why[cur]; ok {
				cur = w
				continue
			}
		}
		var ops []ssa.Value
		if in, ok := cur.(ssa.Instruction); ok {
			for _, op := range in.Operands(nil) {
				if *op != nil {
					ops = append(ops, *op)
				}
			}
		}
		for _, o := range ops {
			if q.memo[o] == 1 || (q.np != nil && q.np.memo[o] == 1) {
				next = o
				break
			}
		}
		cur = next
	}
	return out
}

func (q *depQuery) compute(v ssa.Value, depth int) bool {
	if q.target(v) {
		return true
	}
	switch x := v.(type) {
	case *ssa.Const, *ssa.Global, *ssa.Function, *ssa.Builtin:
		return false
	case *ssa.Parameter:
		if q.noParams {
			return false
		}
		fn := x.Parent()
		idx := -1
		for i, prm := range fn.Params {
			if prm == x {
				idx = i
			}
		}
		sites := q.p.callersOf(fn)
		if idx < 0 || len(sites) == 0 || depth > 12 {
			return false
		}
		n := 0
		for _, s := range sites {
			if !q.p.isRepoFunc(s.Parent()) {
				return false
			}
			cc := s.Common()
			args := cc.Args
			if cc.IsInvoke() {
				args = append([]ssa.Value{cc.Value}, args...)
			}
			if idx >= len(args) {
				return false
			}
			n++
			// every context must provide the dependence (the verdict for a value does not depend on who asks: shared memo)
			if !q.depends(args[idx], depth+1) {
				return false
			}
		}
		return n > 0
	case *ssa.FreeVar:
		fn := x.Parent()
		for i, fv := range fn.FreeVars {
			if fv != x || fn.Parent() == nil {
				continue
			}
			for _, b := range fn.Parent().Blocks {
				for _, in := range b.Instrs {
					if mc, ok := in.(*ssa.MakeClosure); ok && mc.Fn == fn && i < len(mc.Bindings) {
						return q.depends(mc.Bindings[i], depth+1)
					}
				}
			}
		}
		return false
	case *ssa.Alloc:
		// local variable: any value stored into it
		if x.Referrers() != nil {
			for _, ref := range *x.Referrers() {
				if st, ok := ref.(*ssa.Store); ok && st.Addr == ssa.Value(x) {
					if q.depends(st.Val, depth+1) {
						return true
					}
				}
				// field stores into a local struct
				if fa, ok := ref.(*ssa.FieldAddr); ok && fa.Referrers() != nil {
					for _, r2 := range *fa.Referrers() {
						if st, ok := r2.(*ssa.Store); ok && st.Addr == ssa.Value(fa) && q.depends(st.Val, depth+1) {
							return true
						}
					}
				}
			}
		}
		return false
	case *ssa.UnOp:
		if x.Op == token.MUL {
			// load: field of a request-local struct -> field-based stores; otherwise through the address
			if fa, ok := x.X.(*ssa.FieldAddr); ok {
				fld := structFieldOf(fa.X.Type(), fa.Field)
				// field of a struct held in a local variable: whole-struct stores and stores to this very field
				if al, ok := fa.X.(*ssa.Alloc); ok && al.Referrers() != nil {
					for _, ref := range *al.Referrers() {
						if st, ok := ref.(*ssa.Store); ok && st.Addr == ssa.Value(al) && q.depends(st.Val, depth+1) {
							return true
						}
						if fa2, ok := ref.(*ssa.FieldAddr); ok && fa2.Field == fa.Field && fa2.Referrers() != nil {
							for _, r2 := range *fa2.Referrers() {
								if st, ok := r2.(*ssa.Store); ok && st.Addr == ssa.Value(fa2) && q.depends(st.Val, depth+1) {
									return true
								}
							}
						}
					}
					return false
				}
				if isRepoStruct(fa.X.Type()) && !strings.HasPrefix(fld, "app.ResponseConfig.") {
					for _, st := range fieldStores(q.p, fld) {
						if _, serving := q.p.reachH[st.Parent()]; !serving {
							continue // start-up code cannot see a request's configuration
						}
						if q.depends(st.Val, depth+1) {
							return true
						}
					}
				}
				return q.depends(fa.X, depth+1)
			}
			return q.depends(x.X, depth+1)
		}
		return q.depends(x.X, depth+1)
	case *ssa.BinOp:
		return q.depends(x.X, depth+1) || q.depends(x.Y, depth+1)
	case *ssa.Phi:
		for _, e := range x.Edges {
			if q.depends(e, depth+1) {
				return true
			}
		}
		return false
	case *ssa.Call:
		cc := x.Common()
		for _, a := range cc.Args {
			if q.depends(a, depth+1) {
				return true
			}
		}
		if cc.IsInvoke() && q.depends(cc.Value, depth+1) {
			return true
		}
		for _, callee := range q.p.calleesAt(x) {
			if !q.p.isRepoFunc(callee) || len(callee.Blocks) == 0 {
				continue
			}
			for _, b := range callee.Blocks {
				if ret, ok := b.Instrs[len(b.Instrs)-1].(*ssa.Return); ok {
					for _, res := range ret.Results {
						if q.dependsInCallee(res, depth+1) {
							return true
						}
					}
				}
			}
		}
		return false
	case *ssa.Extract:
		if c, ok := x.Tuple.(*ssa.Call); ok {
			cc := c.Common()
			for _, a := range cc.Args {
				if q.depends(a, depth+1) {
					return true
				}
			}
			for _, callee := range q.p.calleesAt(c) {
				if !q.p.isRepoFunc(callee) || len(callee.Blocks) == 0 {
					continue
				}
				for _, b := range callee.Blocks {
					if ret, ok := b.Instrs[len(b.Instrs)-1].(*ssa.Return); ok && x.Index < len(ret.Results) {
						if q.dependsInCallee(ret.Results[x.Index], depth+1) {
							return true
						}
					}
				}
			}
			return false
		}
		return q.depends(x.Tuple, depth+1)
	default:
		if in, ok := v.(ssa.Instruction); ok {
			for _, op := range in.Operands(nil) {
				if *op != nil && q.depends(*op, depth+1) {
					return true
				}
			}
		}
	}
	return false
}

// dependsInCallee: inside a callee, parameters are not followed back to other
// callers (the arguments of this call were examined already).
func (q *depQuery) dependsInCallee(v ssa.Value, depth int) bool {
	if q.noParams {
		return q.depends(v, depth)
	}
	if q.np == nil {
		q.np = &depQuery{p: q.p, target: q.target, memo: map[ssa.Value]int{}, budget: q.budget, noParams: true, exploreAll: q.exploreAll}
	}
	q.np.budget = q.budget
	r := q.np.depends(v, depth)
	if r {
		q.note(v)
	}
	q.budget = q.np.budget
	return r
}

// valueDependsOnField is the convenience entry point.
func valueDependsOnField(p *Program, v ssa.Value, field string) bool {
	return newDepQuery(p, onField(field)).depends(v, 0)
}

func valueDependsOnParam(p *Program, v ssa.Value, prm *ssa.Parameter) bool {
	return newDepQuery(p, onParam(prm)).depends(v, 0)
}

// callsTo lists the call instructions in repository code whose static callee is fn.
func callsTo(p *Program, fn *ssa.Function) []ssa.CallInstruction {
	var out []ssa.CallInstruction
	for _, s := range p.callersOf(fn) {
		if p.isRepoFunc(s.Parent()) && s.Common().StaticCallee() == fn {
			out = append(out, s)
		}
	}
	return out
}

// sliceVisit visits every value of the backward slice of v (within the function and its callees;
// parameters of the starting function are leaves when local is set).
func sliceVisit(p *Program, v ssa.Value, local bool, visit func(ssa.Value)) {
	q := newDepQuery(p, func(x ssa.Value) bool { visit(x); return false })
	q.exploreAll = true
	q.noParams = local
	q.depends(v, 0)
}
