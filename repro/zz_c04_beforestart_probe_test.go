// Reproduction: a request made before availabilityStartTime is answered 425 with a body that states
// the remaining time; the stated number is start time in SECONDS minus now in MILLISECONDS.
// go test -vet=off -run TestProbeC04BeforeStartRemainingMS ./cmd/livesim2/app
package app

import (
	"context"
	"net/http/httptest"
	"strings"
	"testing"

	"github.com/Dash-Industry-Forum/livesim2/pkg/logging"
)

func TestProbeC04BeforeStartRemainingMS(t *testing.T) {
	cfg := ServerConfig{VodRoot: "testdata/assets", TimeoutS: 0, LogFormat: logging.LogDiscard}
	_ = logging.InitSlog(cfg.LogLevel, cfg.LogFormat)
	s, err := SetupServer(context.Background(), &cfg)
	if err != nil {
		t.Fatal(err)
	}
	// stream starts at 1000 s; the request is made 2.5 s earlier
	w := httptest.NewRecorder()
	s.livesimHandlerFunc(w, httptest.NewRequest("GET", "/livesim2/start_1000/testpic_2s/Manifest.mpd?nowMS=997500", nil))
	body := strings.TrimSpace(w.Body.String())
	if w.Code != 425 {
		t.Fatalf("status %d, body %q", w.Code, body)
	}
	if !strings.Contains(body, "2500ms too early") {
		t.Errorf("425 body is %q, want it to state the remaining 2500 ms", body)
	}
}
