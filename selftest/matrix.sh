#!/bin/bash
# usage: matrix.sh [patch...]   (default: all seeded changes, reverse-fix patches and hand variants)
# For each patch: scratch copy of /repo + patch, all checks in one analyzer run; prints
#   <patch-name> <TAB> <properties that report a violation, with the rules that fired>
# Used to (re)generate selftest/expect.tsv and by selftest.sh.
set -u
cd /verif
export GOFLAGS=-mod=mod GOPROXY=off GOSUMDB=off GOTOOLCHAIN=local CGO_ENABLED=0
unset GOWORK
./build.sh >/dev/null || exit 2
if [ $# -eq 0 ]; then set -- seeded/*/patch.diff revfix/*.diff variants/*.diff; fi
one() {
  P="$1"; case "$P" in seeded/*) N=$(basename $(dirname $P));; *) N=$(basename $P .diff);; esac
  D=$(mktemp -d /tmp/mx.XXXXXX)
  rsync -a --exclude .git /repo/ "$D/"
  if ! ( cd "$D" && git init -q . 2>/dev/null && git apply --whitespace=nowarn "/verif/$P" ) 2>/dev/null; then echo -e "$N\tPATCH-DOES-NOT-APPLY"; rm -rf "$D"; return; fi
  if ! ( cd "$D" && go build ./... ) >/dev/null 2>&1; then echo -e "$N\tDOES-NOT-BUILD"; rm -rf "$D"; return; fi
  OUT=$(/verif/bin/lsverif -repo "$D" -prop all -tier quick -out "$D/.ev" -known /verif/known_findings.json 2>&1)
  FIRED=$(echo "$OUT" | grep '^violation: ' | sed 's/^violation: \([^|]*\)|.*/\1/' | sort | uniq -c | awk '{print $2"x"$1}' | tr '\n' ' ')
  PROPS=""
  while read -r line; do
    id=$(echo "$line" | sed 's/^property=\([A-Z0-9]*\) .*/\1/'); v=$(echo "$line" | sed 's/.* violations=\([0-9]*\) .*/\1/'); ex=$(echo "$line" | sed 's/.* exit=\([0-9]*\).*/\1/')
    [ "$v" != "0" ] && PROPS="$PROPS $id"
    [ "$ex" = "2" ] && PROPS="$PROPS $id(broken)"
  done < <(echo "$OUT" | grep '^property=')
  echo -e "$N\t${PROPS# }\t$FIRED"
  rm -rf "$D"
}
export -f one
printf '%s\n' "$@" | xargs -P 5 -I{} bash -c 'one {}' | sort
