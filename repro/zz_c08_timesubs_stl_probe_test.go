// Reproduction: time subtitles on an asset whose video SegmentTimeline has more than one S entry.
// go test -vet=off -run TestProbeC08TimeSubsMultiS ./cmd/livesim2/app
package app

import (
	"context"
	"net/http/httptest"
	"testing"

	"github.com/Dash-Industry-Forum/livesim2/pkg/logging"
)

func TestProbeC08TimeSubsMultiS(t *testing.T) {
	cfg := ServerConfig{VodRoot: "testdata/assets", TimeoutS: 0, LogFormat: logging.LogDiscard}
	_ = logging.InitSlog(cfg.LogLevel, cfg.LogFormat)
	s, err := SetupServer(context.Background(), &cfg)
	if err != nil {
		t.Fatal(err)
	}
	for _, u := range []string{
		"/livesim2/segtimeline_1/timesubsstpp_en/testpic_alt_seg_dur_stl/Manifest.mpd?nowMS=100000",
		"/livesim2/segtimelinenr_1/timesubswvtt_en/testpic_alt_seg_dur_stl/Manifest.mpd?nowMS=100000",
	} {
		func() {
			defer func() {
				if r := recover(); r != nil {
					t.Errorf("%s: handler panicked: %v", u, r)
				}
			}()
			w := httptest.NewRecorder()
			s.livesimHandlerFunc(w, httptest.NewRequest("GET", u, nil))
			if w.Code != 200 {
				t.Errorf("%s: status %d: %s", u, w.Code, w.Body.String())
			}
		}()
	}
}
