package main

import (
	"encoding/json"
	"fmt"
	"os"
	"path/filepath"
	"sort"
	"strings"
	"time"
)

// Obligation is one rule instance.
type Obligation struct {
	Rule   string   `json:"rule"`
	Key    string   `json:"key"`
	Pos    string   `json:"pos"`
	Status string   `json:"status"` // discharged | violation | out_of_scope | exception
	Fact   string   `json:"fact,omitempty"`
	Path   []string `json:"call_path,omitempty"`
}

type ruleStat struct {
	Found      int `json:"found"`
	Discharged int `json:"discharged"`
	OutOfScope int `json:"out_of_scope"`
	Exceptions int `json:"exceptions"`
	Violations int `json:"violations"`
	Floor      int `json:"floor"`
}

// Reporter collects obligations of one property check.
type Reporter struct {
	Prop        string
	Tier        string
	Seed        int
	OutDir      string
	KnownFile   string
	Explanation string
	Assumptions []string
	NotCovered  string
	Extra       map[string]any

	obls    []*Obligation
	keys    map[string]int
	broken  []string
	floors  map[string]int
	ruleDoc map[string]string
	start   time.Time
}

func newReporter(prop, tier string, seed int, outDir, known string) *Reporter {
	return &Reporter{Prop: prop, Tier: tier, Seed: seed, OutDir: outDir, KnownFile: known,
		keys: map[string]int{}, floors: map[string]int{}, ruleDoc: map[string]string{}, Extra: map[string]any{}, start: time.Now()}
}

// Rule documents a rule (shown in evidence) and sets the hand-confirmed floor.
func (r *Reporter) Rule(rule, doc string, floor int) {
	r.ruleDoc[rule] = doc
	// The floor passed in is the instance count confirmed by hand on the pinned tree. A behaviour-preserving
	// refactoring can merge or move instances (two guards folded into one helper), so the check refuses a
	// pass only when fewer than half of them are left: that still catches a rule that went blind, without
	// turning every consolidation into "cannot decide".
	if floor > 1 {
		floor = (floor + 1) / 2
	}
	r.floors[rule] = floor
}

func (r *Reporter) Broken(format string, a ...any) {
	r.broken = append(r.broken, fmt.Sprintf(format, a...))
}

func (r *Reporter) add(rule, fnName, construct, pos, status, fact string, path []string) *Obligation {
	key := rule + "|" + fnName + "|" + construct
	r.keys[key]++
	if n := r.keys[key]; n > 1 {
		key = fmt.Sprintf("%s#%d", key, n)
	}
	o := &Obligation{Rule: rule, Key: key, Pos: pos, Status: status, Fact: fact, Path: path}
	r.obls = append(r.obls, o)
	return o
}

func (r *Reporter) Discharge(rule, fn, construct, pos, fact string) {
	r.add(rule, fn, construct, pos, "discharged", fact, nil)
}
func (r *Reporter) Violate(rule, fn, construct, pos, msg string, path []string) {
	r.add(rule, fn, construct, pos, "violation", msg, path)
}
func (r *Reporter) OutOfScope(rule, fn, construct, pos, why string) {
	r.add(rule, fn, construct, pos, "out_of_scope", why, nil)
}
func (r *Reporter) Exception(rule, fn, construct, pos, why string) {
	r.add(rule, fn, construct, pos, "exception", why, nil)
}

// Decide is a convenience: ok → discharged with fact, else violation with msg.
func (r *Reporter) Decide(ok bool, rule, fn, construct, pos, fact, msg string, path []string) {
	if ok {
		r.Discharge(rule, fn, construct, pos, fact)
	} else {
		r.Violate(rule, fn, construct, pos, msg, path)
	}
}

type knownFile struct {
	Findings []struct {
		Property string `json:"property"`
		Key      string `json:"key"`
		What     string `json:"what"`
		Repro    string `json:"repro,omitempty"`
	} `json:"findings"`
	Fixed []struct {
		Property string `json:"property"`
		Commit   string `json:"commit"`
		Key      string `json:"key"`
		What     string `json:"what"`
	} `json:"fixed"`
}

// Finish writes the evidence and returns the process exit code.
func (r *Reporter) Finish(p *Program) int {
	known := map[string]string{}
	if r.KnownFile != "" {
		if b, err := os.ReadFile(r.KnownFile); err == nil {
			var kf knownFile
			if err := json.Unmarshal(b, &kf); err != nil {
				r.Broken("known findings file %s does not parse: %v", r.KnownFile, err)
			}
			for _, f := range kf.Findings {
				if f.Property == r.Prop {
					known[f.Key] = f.What
				}
			}
		}
	}
	stats := map[string]*ruleStat{}
	for rule, fl := range r.floors {
		stats[rule] = &ruleStat{Floor: fl}
	}
	nDis, nViol, nKnown := 0, 0, 0
	var viols, knownHits []*Obligation
	for _, o := range r.obls {
		st := stats[o.Rule]
		if st == nil {
			st = &ruleStat{}
			stats[o.Rule] = st
		}
		st.Found++
		switch o.Status {
		case "discharged":
			st.Discharged++
			nDis++
		case "out_of_scope":
			st.OutOfScope++
		case "exception":
			st.Exceptions++
		case "violation":
			st.Violations++
			if _, ok := known[o.Key]; ok {
				nKnown++
				knownHits = append(knownHits, o)
			} else {
				nViol++
				viols = append(viols, o)
			}
		}
	}
	for rule, st := range stats {
		if st.Found < st.Floor {
			r.Broken("rule %s matched %d instances, hand-confirmed floor is %d (vacuous pass refused)", rule, st.Found, st.Floor)
		}
	}
	// samples: a few of each status, deterministic rotation by seed
	var samples []any
	byStatus := map[string][]*Obligation{}
	for _, o := range r.obls {
		byStatus[o.Status] = append(byStatus[o.Status], o)
	}
	for _, st := range []string{"violation", "discharged", "exception", "out_of_scope"} {
		l := byStatus[st]
		n := len(l)
		max := 8
		if st == "violation" {
			max = 50
		}
		for i := 0; i < n && i < max; i++ {
			idx := i
			if st != "violation" && n > max {
				idx = (i*(n/max) + r.Seed) % n
			}
			samples = append(samples, l[idx])
		}
	}
	if len(samples) == 0 {
		samples = append(samples, map[string]string{"note": "no obligations"})
	}
	rules := map[string]any{}
	for rule, st := range stats {
		rules[rule] = map[string]any{"doc": r.ruleDoc[rule], "found": st.Found, "discharged": st.Discharged,
			"out_of_scope": st.OutOfScope, "exceptions": st.Exceptions, "violations": st.Violations, "floor": st.Floor}
	}
	cov := map[string]any{
		"explanation":   r.Explanation,
		"obligations":   len(r.obls),
		"discharged":    nDis,
		"by_rule":       rules,
		"samples":       samples,
		"exhaustive":    true,
		"not_covered":   r.NotCovered,
		"known_finding_hits": nKnown,
	}
	if p != nil {
		var roots []string
		for _, rt := range p.Roots {
			roots = append(roots, rt.Class+":"+rt.Fn.String())
		}
		cov["entry_roots"] = len(p.Roots)
		cov["entry_root_names"] = roots
		cov["packages"] = len(p.Pkgs)
		cov["functions_analysed"] = len(p.handlerReachableRepoFuncs())
		cov["repo_functions_total"] = len(p.allRepoFuncs())
		cov["call_graph"] = p.cgKind
	}
	cov["dependence_queries_exhausted"] = depExhausted
	for k, v := range r.Extra {
		cov[k] = v
	}
	ev := map[string]any{
		"property_id": r.Prop,
		"tier":        r.Tier,
		"seed":        r.Seed,
		"level":       "other",
		"coverage":    cov,
		"assumptions": r.Assumptions,
		"wall_s":      time.Since(r.start).Seconds(),
		"violations":  nViol,
	}
	if len(r.broken) > 0 {
		ev["check_broken"] = r.broken
	}
	_ = os.MkdirAll(r.OutDir, 0o755)
	b, _ := json.MarshalIndent(ev, "", " ")
	evPath := filepath.Join(r.OutDir, r.Prop+".json")
	if err := os.WriteFile(evPath, b, 0o644); err != nil {
		fmt.Printf("CHECK-BROKEN property=%s reason=cannot write evidence: %v\n", r.Prop, err)
		return 2
	}

	// summary
	var ruleNames []string
	for rule := range stats {
		ruleNames = append(ruleNames, rule)
	}
	sort.Strings(ruleNames)
	for _, rule := range ruleNames {
		st := stats[rule]
		fmt.Printf("rule %-16s found=%d discharged=%d out_of_scope=%d exceptions=%d violations=%d floor=%d\n",
			rule, st.Found, st.Discharged, st.OutOfScope, st.Exceptions, st.Violations, st.Floor)
	}
	if os.Getenv("LSVERIF_VERBOSE") != "" {
		for _, o := range r.obls {
			if strings.Contains(o.Key, os.Getenv("LSVERIF_VERBOSE")) {
				fmt.Printf("obligation %s [%s] at %s: %s\n", o.Key, o.Status, o.Pos, o.Fact)
			}
		}
	}
	for _, o := range knownHits {
		fmt.Printf("KNOWN-FINDING: property=%s %s [%s at %s]\n", r.Prop, known[o.Key], o.Key, o.Pos)
	}
	code := 0
	if len(viols) > 0 {
		vdir := filepath.Join(r.OutDir, "violations")
		_ = os.MkdirAll(vdir, 0o755)
		// remove stale files of this property
		if old, _ := filepath.Glob(filepath.Join(vdir, r.Prop+"-*.json")); old != nil {
			for _, f := range old {
				os.Remove(f)
			}
		}
		for i, o := range viols {
			vp := filepath.Join(vdir, fmt.Sprintf("%s-%d.json", r.Prop, i+1))
			vb, _ := json.MarshalIndent(map[string]any{"property": r.Prop, "rule": o.Rule, "key": o.Key, "pos": o.Pos,
				"message": o.Fact, "call_path": o.Path, "rule_doc": r.ruleDoc[o.Rule]}, "", " ")
			_ = os.WriteFile(vp, vb, 0o644)
			fmt.Printf("violation: %s at %s: %s\n", o.Key, o.Pos, o.Fact)
			if len(o.Path) > 0 {
				fmt.Printf("  path: %s\n", strings.Join(o.Path, " -> "))
			}
			fmt.Printf("VIOLATION property=%s replay=%s\n", r.Prop, vp)
		}
		code = 1
	} else {
		if old, _ := filepath.Glob(filepath.Join(r.OutDir, "violations", r.Prop+"-*.json")); old != nil {
			for _, f := range old {
				os.Remove(f)
			}
		}
	}
	if len(r.broken) > 0 {
		for _, b := range r.broken {
			fmt.Printf("CHECK-BROKEN property=%s reason=%s\n", r.Prop, b)
		}
		if code == 0 {
			code = 2
		}
	}
	fmt.Printf("property=%s obligations=%d discharged=%d violations=%d known=%d exit=%d\n", r.Prop, len(r.obls), nDis, nViol, nKnown, code)
	return code
}
