// Reproduction (run with -race): concurrent first uploads race on the receiver's tables and
// can create two channel objects for one name.
// go test -race -vet=off -run TestProbeC19 ./cmd/cmaf-ingest-receiver/app
package app

import (
	"bytes"
	"context"
	"fmt"
	"net/http"
	"net/http/httptest"
	"os"
	"path/filepath"
	"sync"
	"testing"

	"github.com/Dash-Industry-Forum/livesim2/pkg/logging"
)

func TestProbeC19ConcurrentFirstUploads(t *testing.T) {
	_ = logging.InitSlog("error", "text")
	tmpDir, err := os.MkdirTemp("", "recv-probe-c19")
	if err != nil {
		t.Fatal(err)
	}
	defer os.RemoveAll(tmpDir)
	opts := Options{prefix: "/upload", timeShiftBufferDepthS: 30, storage: tmpDir}
	ctx, cancel := context.WithCancel(context.Background())
	defer cancel()
	receiver, err := NewReceiver(ctx, &opts, &Config{})
	if err != nil {
		t.Fatal(err)
	}
	server := httptest.NewServer(setupRouter(receiver, opts.storage, ""))
	defer server.Close()
	src := filepath.Join("testdata", "zero_3.84s")
	tracks := []string{"video-500Kbps", "video-800Kbps", "audio-nor-128Kbps"}
	var wg sync.WaitGroup
	for c := 0; c < 4; c++ {
		for _, tr := range tracks {
			wg.Add(1)
			go func(c int, tr string) {
				defer wg.Done()
				ext := ".cmfv"
				if tr[0] == 'a' {
					ext = ".cmfa"
				}
				data, err := os.ReadFile(filepath.Join(src, tr, "init_org"+ext))
				if err != nil {
					t.Error(err)
					return
				}
				url := fmt.Sprintf("%s/upload/ch%d/%s/init%s", server.URL, c, tr, ext)
				req, _ := http.NewRequest(http.MethodPut, url, bytes.NewReader(data))
				resp, err := http.DefaultClient.Do(req)
				if err == nil {
					resp.Body.Close()
				}
			}(c, tr)
		}
	}
	wg.Wait()
}

// TestProbeC19MediaAndInitConcurrently: media uploads of one track while other tracks of the same
// channel register (init), then enough media for the channel goroutine to establish the master
// segment duration while uploads continue. Run with -race.
func TestProbeC19MediaAndInitConcurrently(t *testing.T) {
	_ = logging.InitSlog("error", "text")
	tmpDir, err := os.MkdirTemp("", "recv-probe-c19b")
	if err != nil {
		t.Fatal(err)
	}
	defer os.RemoveAll(tmpDir)
	opts := Options{prefix: "/upload", timeShiftBufferDepthS: 30, storage: tmpDir}
	ctx, cancel := context.WithCancel(context.Background())
	defer cancel()
	receiver, err := NewReceiver(ctx, &opts, &Config{})
	if err != nil {
		t.Fatal(err)
	}
	server := httptest.NewServer(setupRouter(receiver, opts.storage, ""))
	defer server.Close()
	src := filepath.Join("testdata", "zero_3.84s")
	put := func(tr, name, ext string) {
		file := name
		if name == "init" {
			file = "init_org"
		}
		data, err := os.ReadFile(filepath.Join(src, tr, file+ext))
		if err != nil {
			t.Error(err)
			return
		}
		req, _ := http.NewRequest(http.MethodPut, fmt.Sprintf("%s/upload/ch/%s/%s%s", server.URL, tr, name, ext), bytes.NewReader(data))
		resp, err := http.DefaultClient.Do(req)
		if err == nil {
			resp.Body.Close()
		}
	}
	put("video-500Kbps", "init", ".cmfv")
	var wg sync.WaitGroup
	wg.Add(1)
	go func() { // the master track in order, so that the channel goroutine establishes the segment duration meanwhile
		defer wg.Done()
		for _, n := range []string{"0", "1", "2", "3", "4", "5"} {
			put("video-500Kbps", n, ".cmfv")
		}
	}()
	for _, job := range [][3]string{{"audio-nor-128Kbps", "3", ".cmfa"}, {"video-800Kbps", "3", ".cmfv"}, {"audio-nor-128Kbps", "4", ".cmfa"}, {"video-800Kbps", "4", ".cmfv"}, {"video-800Kbps", "init", ".cmfv"}, {"audio-nor-128Kbps", "init", ".cmfa"},
		{"video-800Kbps", "0", ".cmfv"}, {"audio-nor-128Kbps", "0", ".cmfa"},
		{"video-800Kbps", "1", ".cmfv"}, {"audio-nor-128Kbps", "1", ".cmfa"},
		{"video-800Kbps", "2", ".cmfv"}, {"audio-nor-128Kbps", "2", ".cmfa"}} {
		wg.Add(1)
		go func(j [3]string) { defer wg.Done(); put(j[0], j[1], j[2]) }(job)
	}
	wg.Wait()
}

// TestProbeC19RawMode: concurrent raw uploads of one track (receiveNrRaws > 0). Run with -race.
func TestProbeC19RawMode(t *testing.T) {
	_ = logging.InitSlog("error", "text")
	tmpDir, err := os.MkdirTemp("", "recv-probe-c19c")
	if err != nil {
		t.Fatal(err)
	}
	defer os.RemoveAll(tmpDir)
	opts := Options{prefix: "/upload", timeShiftBufferDepthS: 30, storage: tmpDir, receiveNrRawSegments: 50}
	ctx, cancel := context.WithCancel(context.Background())
	defer cancel()
	receiver, err := NewReceiver(ctx, &opts, &Config{})
	if err != nil {
		t.Fatal(err)
	}
	server := httptest.NewServer(setupRouter(receiver, opts.storage, ""))
	defer server.Close()
	var wg sync.WaitGroup
	for i := 0; i < 8; i++ {
		wg.Add(1)
		go func(i int) {
			defer wg.Done()
			req, _ := http.NewRequest(http.MethodPut, fmt.Sprintf("%s/upload/ch/video/%d.cmfv", server.URL, i), bytes.NewReader(make([]byte, 5000)))
			resp, err := http.DefaultClient.Do(req)
			if err == nil {
				resp.Body.Close()
			}
		}(i)
	}
	wg.Wait()
}
