package app

import (
	"context"
	"net/http/httptest"
	"regexp"
	"net/url"
	"testing"

	"github.com/Dash-Industry-Forum/livesim2/pkg/logging"
)

// A patch over a period change must be answered with a patch (or a deliberate error), not with a runtime panic.
func TestProbeC11PatchAcrossPeriodChange(t *testing.T) {
	cfg := ServerConfig{VodRoot: "testdata/assets", TimeoutS: 0, LogFormat: logging.LogDiscard}
	_ = logging.InitSlog(cfg.LogLevel, cfg.LogFormat)
	s, err := SetupServer(context.Background(), &cfg)
	if err != nil {
		t.Fatal(err)
	}
	re := regexp.MustCompile(`publishTime="([^"]+)"`)
	for _, mode := range []string{"segtimeline_1/", "segtimelinenr_1/", ""} {
		w := httptest.NewRecorder()
		s.livesimHandlerFunc(w, httptest.NewRequest("GET", "/livesim2/patch_120/periods_60/"+mode+"testpic_2s/Manifest.mpd?nowMS=1712003590000", nil))
		if w.Code != 200 {
			t.Fatalf("MPD status %d %s", w.Code, w.Body.String())
		}
		m := re.FindStringSubmatch(w.Body.String())
		func() {
			defer func() {
				if r := recover(); r != nil {
					t.Errorf("mode %q: patch handler panicked: %v", mode, r)
				}
			}()
			w2 := httptest.NewRecorder()
			s.patchHandlerFunc(w2, httptest.NewRequest("GET", "/patch/livesim2/patch_120/periods_60/"+mode+"testpic_2s/Manifest.mpp?publishTime="+url.QueryEscape(m[1])+"&nowMS=1712003651000", nil))
			t.Logf("mode %q: patch status %d, %d bytes", mode, w2.Code, w2.Body.Len())
			if w2.Code != 200 {
				t.Errorf("mode %q: patch status %d: %s", mode, w2.Code, w2.Body.String())
			}
		}()
	}
}
