package main

// E3 class F: termination-related structure.
//   F1: a loop-carried cursor advanced by a request-derived amount must advance
//       by at least 1 and (for unsigned cursors) must not wrap around.
//   F2: a channel send/receive executed on behalf of an HTTP handler must sit in
//       a select that has a cancellation, timeout or default arm.

import (
	"fmt"
	"go/token"
	"go/types"
	"strings"

	"golang.org/x/tools/go/ssa"
)

var e3shared *e3

func sharedE3(p *Program, r *Reporter) *e3 {
	if e3shared == nil || e3shared.p != p {
		e3shared = newE3(p, r)
	}
	e3shared.r = r
	return e3shared
}

// checkCursorProgress applies F1 to the given functions.
func checkCursorProgress(p *Program, r *Reporter, fns []*ssa.Function, rule string, floor int) {
	e := sharedE3(p, r)
	r.Rule(rule, "loop cursor advanced by a request-derived amount: amount >= 1 proven and wrap-around excluded by a dominating guard", floor)
	for _, fn := range fns {
		for _, b := range fn.Blocks {
			for _, in := range b.Instrs {
				add, ok := in.(*ssa.BinOp)
				if !ok || add.Op != token.ADD {
					continue
				}
				var cursor *ssa.Phi
				var amt ssa.Value
				if ph, ok := add.X.(*ssa.Phi); ok {
					cursor, amt = ph, add.Y
				} else if ph, ok := add.Y.(*ssa.Phi); ok {
					cursor, amt = ph, add.X
				}
				if cursor == nil {
					continue
				}
				if _, isConst := amt.(*ssa.Const); isConst {
					continue
				}
				// the sum must flow back into the phi (loop-carried)
				loopCarried := flowsBackInto(add, cursor)
				// the amount is a number read directly from the request (a size field), not a derived total
				if !loopCarried || !e.g.isTainted(amt) || !e.g.isDirect(amt) {
					continue
				}
				// only cursors that steer the loop: used (directly or by +const) as slice bound / index or in a loop condition
				construct := "cursor:" + roleKey(cursor) + "+=" + roleKey(amt)
				pos := p.pos(instrPos(add))
				rg := e.rg.rangeAt(amt, b, 0)
				progress := rg.lo >= 1
				wrapOK := true
				wrapWhy := ""
				if isUnsigned(cursor.Type()) {
					wrapOK, wrapWhy = e.wrapGuarded(cursor, amt, add, b)
				}
				switch {
				case progress && wrapOK:
					r.Discharge(rule, shortFn(fn), construct, pos, fmt.Sprintf("amount in %s (%s); %s", rg, rg.why, wrapWhy))
				case !progress:
					r.Violate(rule, shortFn(fn), construct, pos,
						fmt.Sprintf("the request-derived amount added to the loop cursor is only known to be in %s: an amount of 0 makes the loop spin forever", rg), p.callPath(fn))
				default:
					r.Violate(rule, shortFn(fn), construct, pos,
						"the unsigned loop cursor can wrap around: no dominating guard relates the amount to the remaining range of the cursor", p.callPath(fn))
				}
			}
		}
	}
}

// wrapGuarded: on every feasible path a condition of the shape
// amt <= K - cursor (or its negation leading away) / cursor + amt >= cursor holds.
func (e *e3) wrapGuarded(cursor *ssa.Phi, amt ssa.Value, add *ssa.BinOp, b *ssa.BasicBlock) (bool, string) {
	f := factsOf(b.Parent())
	akey := exprKey(amt)
	n := 0
	why := ""
	for _, set := range f.condSets(b) {
		if !e.rg.feasible(set, 0) {
			continue
		}
		n++
		found := false
		for _, c := range set {
			bo, ok := c.V.(*ssa.BinOp)
			if !ok {
				continue
			}
			op := bo.Op
			if !c.Pos {
				op = negateOp(op)
			}
			// a value of a helper whose summary was injected counts as the argument bound to it here
			bound := func(v ssa.Value) ssa.Value {
				if pv, ok := v.(*ssa.Parameter); ok && pv.Parent() != b.Parent() {
					if arg := boundArgument(pv, b.Parent()); arg != nil {
						return arg
					}
				}
				return v
			}
			isCursor := func(v ssa.Value) bool { return bound(v) == ssa.Value(cursor) }
			isAmt := func(v ssa.Value) bool {
				v = bound(v)
				return v == amt || (akey != "" && exprKey(v) == akey)
			}
			isRemaining := func(v ssa.Value) bool { // K - cursor
				s, ok := v.(*ssa.BinOp)
				if !ok || s.Op != token.SUB {
					return false
				}
				_, isK := s.X.(*ssa.Const)
				return isK && isCursor(s.Y)
			}
			isSum := func(v ssa.Value) bool {
				s, ok := v.(*ssa.BinOp)
				return ok && s.Op == token.ADD && ((isCursor(s.X) && isAmt(s.Y)) || (isCursor(s.Y) && isAmt(s.X)))
			}
			switch {
			case isAmt(bo.X) && isRemaining(bo.Y) && (op == token.LEQ || op == token.LSS):
				found = true
			case isRemaining(bo.X) && isAmt(bo.Y) && (op == token.GEQ || op == token.GTR):
				found = true
			case isSum(bo.X) && bo.Y == ssa.Value(cursor) && (op == token.GEQ || op == token.GTR):
				found = true
			case bo.X == ssa.Value(cursor) && isSum(bo.Y) && (op == token.LEQ || op == token.LSS):
				found = true
			}
			if found {
				why = "wrap-around excluded by guard at " + e.p.pos(bo.Pos())
				break
			}
		}
		if !found {
			return false, ""
		}
	}
	if n == 0 {
		return true, "unreachable"
	}
	return true, why
}

// ---------------------------------------------------------------- F2

type chanException struct {
	fn, reason string
}

var chanExceptions = []chanException{
	{"(*recv.channel).addChunkData", "buffered channel (capacity 10) drained by channel.run, which lives as long as the process context; a full buffer only delays the upload"},
	{"(*app.cmafSource).Write", "cmafSource is constructed only in the ingester goroutine (sendMediaSegment) and never handed to an HTTP handler; the call-graph edge from the handlers is an artefact of the shared http.ResponseWriter interface"},
	{"(*app.cmafSource).Read", "called by the http client of the ingester goroutine only"},
}

// checkChannelOps applies F2 to functions reachable from HTTP handler roots.
func checkChannelOps(p *Program, r *Reporter, rule string, floor int) {
	r.Rule(rule, "channel send/receive reachable from an HTTP handler: inside a select with a cancellation, timeout or default arm", floor)
	exceptionProgram = p
	var hroots []*ssa.Function
	for _, rt := range p.Roots {
		if rt.Class == "H" {
			hroots = append(hroots, rt.Fn)
		}
	}
	reach := reachableWithoutGo(p, hroots)
	var fns []*ssa.Function
	for _, fn := range p.handlerReachableRepoFuncs() {
		if reach[fn] {
			fns = append(fns, fn)
		}
	}
	for _, fn := range fns {
		ordinal := 0
		for _, b := range fn.Blocks {
			for _, in := range b.Instrs {
				var what string
				switch x := in.(type) {
				case *ssa.Send:
					what = "send:" + roleKey(x.Chan)
				case *ssa.UnOp:
					if x.Op == token.ARROW {
						what = "recv:" + roleKey(x.X)
						if isCtxDone(x.X) {
							what = "" // waiting for cancellation itself
						}
					}
				case *ssa.Select:
					if x.Blocking {
						hasEscape := false
						for _, st := range x.States {
							if st.Dir == types.RecvOnly && (isCtxDone(st.Chan) || isTimer(st.Chan) || isDoneChan(st.Chan)) {
								hasEscape = true
							}
						}
						if !hasEscape {
							what = "select-without-cancel-arm"
						} else {
							r.Discharge(rule, shortFn(fn), "select", p.pos(instrPos(in)), "blocking select has a cancellation / timer / done-channel arm")
						}
					}
				}
				if what == "" {
					continue
				}
				ordinal++
				pos := p.pos(instrPos(in))
				excepted := false
				for _, ex := range chanExceptions {
					if ex.fn == shortFn(fn) {
						r.Exception(rule, shortFn(fn), what, pos, "reviewed exception: "+ex.reason)
						excepted = true
					}
				}
				if excepted {
					continue
				}
				r.Violate(rule, shortFn(fn), what, pos,
					"blocking channel operation on behalf of an HTTP handler without cancellation, timeout or default arm: the request never returns if the peer goroutine has exited", p.callPath(fn))
			}
		}
	}
}

func isCtxDone(ch ssa.Value) bool {
	c, ok := ch.(*ssa.Call)
	if !ok {
		return false
	}
	if c.Call.IsInvoke() && c.Call.Method.Name() == "Done" {
		return strings.Contains(types.TypeString(c.Call.Value.Type(), nil), "context.Context")
	}
	return false
}

func isTimer(ch ssa.Value) bool {
	switch x := ch.(type) {
	case *ssa.Call:
		if callee := x.Call.StaticCallee(); callee != nil {
			n := callee.String()
			return n == "time.After" || n == "time.Tick"
		}
	case *ssa.UnOp:
		if f, ok := loadedField(x); ok {
			return strings.HasSuffix(f, "Timer.C") || strings.HasSuffix(f, "Ticker.C")
		}
	case *ssa.Field:
		return strings.HasSuffix(structFieldOf(x.X.Type(), x.Field), ".C")
	}
	return false
}

// reachableWithoutGo: functions that execute on the handler's own goroutine
// (call edges of `go` statements are not followed).
func reachableWithoutGo(p *Program, starts []*ssa.Function) map[*ssa.Function]bool {
	seen := map[*ssa.Function]bool{}
	var q []*ssa.Function
	for _, s := range starts {
		if !seen[s] {
			seen[s] = true
			q = append(q, s)
		}
	}
	for len(q) > 0 {
		fn := q[0]
		q = q[1:]
		for _, b := range fn.Blocks {
			for _, in := range b.Instrs {
				site, ok := in.(ssa.CallInstruction)
				if !ok {
					continue
				}
				if _, isGo := in.(*ssa.Go); isGo {
					continue
				}
				for _, c := range p.calleesAt(site) {
					if !seen[c] {
						seen[c] = true
						q = append(q, c)
					}
				}
				// closures passed as arguments run on this goroutine when called by the callee
				for _, a := range site.Common().Args {
					for _, f := range unwrapFuncValues(a, 0) {
						if f != nil && !seen[f] {
							seen[f] = true
							q = append(q, f)
						}
					}
				}
			}
		}
	}
	return seen
}

// flowsBackInto: the sum reaches the cursor phi through phis and +/- adjustments.
func flowsBackInto(v ssa.Value, cursor *ssa.Phi) bool {
	seen := map[ssa.Value]bool{}
	var walk func(x ssa.Value, d int) bool
	walk = func(x ssa.Value, d int) bool {
		if seen[x] || d > 8 {
			return false
		}
		seen[x] = true
		refs := x.Referrers()
		if refs == nil {
			return false
		}
		for _, ref := range *refs {
			switch r := ref.(type) {
			case *ssa.Phi:
				if r == cursor || walk(r, d+1) {
					return true
				}
			case *ssa.BinOp:
				if (r.Op == token.ADD || r.Op == token.SUB) && walk(r, d+1) {
					return true
				}
			}
		}
		return false
	}
	return walk(v, 0)
}

// isDoneChan: the done-channel idiom: a receive arm on a chan struct{} that some
// function of the repository closes.
func isDoneChan(ch ssa.Value) bool {
	ct, ok := ch.Type().Underlying().(*types.Chan)
	if !ok {
		return false
	}
	st, ok := ct.Elem().Underlying().(*types.Struct)
	if !ok || st.NumFields() != 0 {
		return false
	}
	fld, ok := loadedField(ch)
	if !ok {
		return false
	}
	p := exceptionProgram
	if p == nil {
		return false
	}
	for _, fn := range p.allRepoFuncs() {
		for _, b := range fn.Blocks {
			for _, in := range b.Instrs {
				c, ok := in.(ssa.CallInstruction)
				if !ok {
					continue
				}
				bi, ok := c.Common().Value.(*ssa.Builtin)
				if !ok || bi.Name() != "close" || len(c.Common().Args) != 1 {
					continue
				}
				if f2, ok := loadedField(c.Common().Args[0]); ok && f2 == fld {
					return true
				}
			}
		}
	}
	return false
}
