#!/bin/bash
# usage: seed_recheck.sh [<seed-dir-name>...]   (default: all of /verif/seeded)
# Re-confirms stored seeded changes against /repo's current HEAD in a scratch worktree:
# demo passes without the patch; with the patch the build and the full suite pass and the demo fails.
set -u
export GOFLAGS=-mod=mod GOPROXY=off GOSUMDB=off GOTOOLCHAIN=local
cd /verif/seeded
SEEDS=("$@"); [ ${#SEEDS[@]} -eq 0 ] && SEEDS=(*)
SV=$(mktemp -d /tmp/sv.XXXXXX); rmdir "$SV"
git -C /repo worktree add -q --detach "$SV" HEAD || exit 2
trap 'git -C /repo worktree remove --force "$SV" 2>/dev/null; rm -rf "$SV"' EXIT
rc=0
for s in "${SEEDS[@]}"; do
  D=/verif/seeded/$s
  PKG=$(jq -r .demo_package $D/meta.json); RUN=$(jq -r .demo_run $D/meta.json)
  cd "$SV"; git reset -q --hard HEAD; git clean -fdq
  cp $D/*_test.go "$PKG"/
  S1=fail; go test -vet=off -count=1 -run "$RUN" ./"$PKG"/ 2>&1 | tail -3 | grep -q '^ok' && S1=pass
  rm -f "$PKG"/zz_seeded_*_test.go; git clean -fdq
  if ! git apply --whitespace=nowarn $D/patch.diff 2>/dev/null; then echo "RECHECK $s patch-does-not-apply"; rc=1; continue; fi
  S2=pass; { go build ./... 2>&1; go test -vet=off -count=1 ./... 2>&1; } | grep -q 'FAIL\|cannot\|undefined' && S2=fail
  cp $D/*_test.go "$PKG"/
  S3=pass; go test -vet=off -count=1 -run "$RUN" ./"$PKG"/ 2>&1 | tail -15 | grep -q 'FAIL\|panic' && S3=fail
  echo "RECHECK $s demo_without=$S1 suite_with=$S2 demo_with=$S3"
  { [ $S1 = pass ] && [ $S2 = pass ] && [ $S3 = fail ]; } || rc=1
done
exit $rc
