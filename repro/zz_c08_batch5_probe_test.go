// Reproductions of three request-triggered runtime panics.
// go test -vet=off -run TestProbeC08Batch5 ./cmd/livesim2/app
package app

import (
	"context"
	"net/http/httptest"
	"strings"
	"testing"

	"github.com/Dash-Industry-Forum/livesim2/pkg/logging"
)

func TestProbeC08Batch5(t *testing.T) {
	cfg := ServerConfig{VodRoot: "testdata/assets", TimeoutS: 0, LogFormat: logging.LogDiscard}
	_ = logging.InitSlog(cfg.LogLevel, cfg.LogFormat)
	s, err := SetupServer(context.Background(), &cfg)
	if err != nil {
		t.Fatal(err)
	}
	try := func(name string, f func() int) {
		defer func() {
			if r := recover(); r != nil {
				t.Errorf("%s: handler panicked: %v", name, r)
			}
		}()
		code := f()
		if code >= 500 || code < 200 {
			t.Logf("%s: status %d", name, code)
		}
	}
	try("patch of an unknown asset", func() int {
		w := httptest.NewRecorder()
		s.patchHandlerFunc(w, httptest.NewRequest("GET", "/patch/livesim2/unknown/Manifest.mpp?publishTime=2024-01-01T00:00:00Z", nil))
		return w.Code
	})
	try("stop before start with periods", func() int {
		w := httptest.NewRecorder()
		s.livesimHandlerFunc(w, httptest.NewRequest("GET", "/livesim2/start_130/stop_20/periods_60/testpic_2s/Manifest.mpd?nowMS=200000", nil))
		return w.Code
	})
	try("ingest session with a malformed URL", func() int {
		defer func() { _ = strings.TrimSpace }()
		for _, u := range []string{"/livesim2/%zz/testpic_2s/Manifest.mpd", "", "/livesim2/testpic 2s/Manifest.mpd", "/livesim2/testpic_2s/Manifest.mpd\r\nX: y"} {
			_, err := s.cmafMgr.NewCmafIngester(CmafIngesterSetup{DestRoot: "http://localhost:1", DestName: "x", URL: u})
			if err == nil {
				t.Errorf("malformed URL %q accepted", u)
			}
		}
		return 400
	})
}
