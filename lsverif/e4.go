package main

// E4: dependence queries. dependsOn answers "may this value be computed from a
// load of the given struct field (or from the given parameter)?" by a backward
// walk over SSA operands with bounded inter-procedural context:
//   - parameters: the value must depend on the target at EVERY call site (the
//     function is then right in every context);
//   - calls of repository functions: through the returned values (any return)
//     or through any argument (over-approximation of "the callee uses it");
//   - struct values are followed per access path: a read of x.a.b from a struct
//     held in a local variable is matched with the stores to x, x.a and x.a.b
//     only, and the path is carried through phis, calls and returns;
//   - loads of fields of structs that are not local variables: through any
//     value stored into that field in serving-phase code (field-based join).
// The answer over-approximates dependence, so a "does not depend" verdict is
// definite: alarms of must-depend rules are sound, silence is not a proof.
// Not modelled: writes to a local struct through a pointer handed to a callee.

import (
	"fmt"
	"go/token"
	"go/types"
	"strconv"
	"strings"

	"golang.org/x/tools/go/ssa"
)

var depExhausted int

type dkey struct {
	v    ssa.Value
	path string
}

type depQuery struct {
	p        *Program
	target   func(v ssa.Value) bool // leaf predicate: v itself satisfies the dependence
	memo     map[dkey]int           // 0 unknown, 1 yes, 2 no, 3 in progress
	budget   int
	noParams bool
	np       *depQuery
	cuts     int
	stack    []ssa.Value
	why      map[ssa.Value]ssa.Value
	// exploreAll: visit the whole backward slice (used with a target that records and answers false)
	exploreAll bool
	// intra: do not look into callees (calls depend on their arguments only)
	intra bool
	// bind: parameters of a helper analysed in the context of one call site
	bind map[*ssa.Parameter]ssa.Value
	// stop: values at which the slice ends (treated as leaves)
	stop func(v ssa.Value) bool
	// collectFn/collect: summary mode, the parameters of collectFn are leaves that are reported with their access path
	collectFn *ssa.Function
	collect   func(prm *ssa.Parameter, path []int)
}

// paramUse: result #idx of a function depends on parameter #idx (restricted to the access path, nil = all of it).
type paramUse struct {
	idx  int
	path []int
}

var (
	paramUseMemo = map[string][]paramUse{}
	paramUseBusy = map[string]bool{}
)

// paramUses: which parameters (and which parts of them) result #idx of a repository function is computed from.
// ok is false when the summary could not be completed (recursion, budget); the caller then assumes all arguments.
func (q *depQuery) paramUses(callee *ssa.Function, idx int, path []int) ([]paramUse, bool) {
	key := fmt.Sprintf("%p|%d|%s", callee, idx, pathKey(path))
	if q.stop == nil {
		if u, ok := paramUseMemo[key]; ok {
			return u, true
		}
	}
	if paramUseBusy[key] {
		return nil, false
	}
	paramUseBusy[key] = true
	defer delete(paramUseBusy, key)
	var uses []paramUse
	seen := map[string]bool{}
	cq := &depQuery{p: q.p, target: func(ssa.Value) bool { return false }, memo: map[dkey]int{}, budget: 200000,
		noParams: true, exploreAll: true, stop: q.stop, collectFn: callee}
	cq.collect = func(prm *ssa.Parameter, pp []int) {
		for i, x := range callee.Params {
			if x == prm {
				k := fmt.Sprintf("%d|%s", i, pathKey(pp))
				if !seen[k] {
					seen[k] = true
					uses = append(uses, paramUse{i, append([]int{}, pp...)})
				}
			}
		}
	}
	before := depExhausted
	found := false
	for _, b := range callee.Blocks {
		if ret, ok := b.Instrs[len(b.Instrs)-1].(*ssa.Return); ok && idx < len(ret.Results) {
			found = true
			cq.dep(ret.Results[idx], path, 0)
		}
	}
	if !found || cq.budget < 0 || depExhausted != before {
		depExhausted = before
		return nil, false
	}
	if q.stop == nil {
		paramUseMemo[key] = uses
	}
	return uses, true
}

// callArgs: the dependence of a call result on the arguments of the call. For a repository function with a
// body only the arguments (and the parts of them) that the result is computed from are followed.
func (q *depQuery) callArgs(c *ssa.Call, idx int, path []int, depth int) bool {
	cc := c.Common()
	if callee := cc.StaticCallee(); callee != nil && !q.intra && q.p.isRepoFunc(callee) && len(callee.Blocks) > 0 && len(callee.FreeVars) == 0 {
		if uses, ok := q.paramUses(callee, idx, path); ok {
			for _, u := range uses {
				if u.idx < len(cc.Args) && q.dep(cc.Args[u.idx], u.path, depth+1) {
					return true
				}
			}
			return false
		}
	}
	for _, a := range cc.Args {
		if q.dep(a, nil, depth+1) {
			return true
		}
	}
	return cc.IsInvoke() && q.dep(cc.Value, nil, depth+1)
}

func newDepQuery(p *Program, target func(v ssa.Value) bool) *depQuery {
	return &depQuery{p: p, target: target, memo: map[dkey]int{}, budget: 2000000}
}

// onField: target is a load of the struct field "pkg.Type.Field" (pointee loads "T.F*" included).
func onField(field string) func(v ssa.Value) bool {
	return func(v ssa.Value) bool {
		if f, ok := loadedField(v); ok && (f == field || f == field+"*") {
			return true
		}
		if fa, ok := v.(*ssa.FieldAddr); ok && structFieldOf(fa.X.Type(), fa.Field) == field {
			return true
		}
		return false
	}
}

// onParam: target is the given parameter.
func onParam(prm *ssa.Parameter) func(v ssa.Value) bool {
	return func(v ssa.Value) bool { return v == ssa.Value(prm) }
}

func pathKey(path []int) string {
	if len(path) == 0 {
		return ""
	}
	var sb strings.Builder
	for _, f := range path {
		sb.WriteString(strconv.Itoa(f))
		sb.WriteByte('.')
	}
	return sb.String()
}

func (q *depQuery) depends(v ssa.Value, depth int) bool { return q.dep(v, nil, depth) }

func (q *depQuery) dep(v ssa.Value, path []int, depth int) bool {
	if v == nil {
		return false
	}
	q.budget--
	if q.budget < 0 || depth > 150 {
		depExhausted++
		return true // undecided: over-approximate
	}
	k := dkey{v, pathKey(path)}
	switch q.memo[k] {
	case 1:
		q.note(v)
		return true
	case 2:
		return false
	case 3:
		q.cuts++
		return false
	}
	q.memo[k] = 3
	before := q.cuts
	q.stack = append(q.stack, v)
	r := q.compute(v, path, depth)
	q.stack = q.stack[:len(q.stack)-1]
	if r {
		q.note(v)
		q.memo[k] = 1
	} else if q.cuts == before {
		q.memo[k] = 2
	} else {
		q.memo[k] = 0 // a cycle was cut below: the negative verdict is not final
	}
	return r
}

func (q *depQuery) note(v ssa.Value) {
	if q.why == nil {
		q.why = map[ssa.Value]ssa.Value{}
	}
	if n := len(q.stack); n > 0 {
		if _, ok := q.why[q.stack[n-1]]; !ok && q.stack[n-1] != v {
			q.why[q.stack[n-1]] = v
		}
	}
}

// explain returns one dependence chain from v to a target (for diagnostics).
func (q *depQuery) explain(v ssa.Value, max int) []string {
	var out []string
	seen := map[ssa.Value]bool{}
	cur := v
	for cur != nil && !seen[cur] && len(out) < max {
		seen[cur] = true
		s := cur.Name()
		if in, ok := cur.(ssa.Instruction); ok && in.Parent() != nil {
			s = shortFn(in.Parent()) + ":" + cur.Name() + "=" + cur.String()
		}
		if len(s) > 90 {
			s = s[:90]
		}
		out = append(out, s)
		if q.target(cur) {
			break
		}
		if w, ok := q.why[cur]; ok {
			cur = w
			continue
		}
		if q.np != nil {
			if w, ok := q.np.why[cur]; ok {
				cur = w
				continue
			}
		}
		cur = nil
	}
	return out
}

// resolveAddr strips the FieldAddr chain of an address: base pointer and field path.
func resolveAddr(addr ssa.Value) (ssa.Value, []int) {
	var rev []int
	for {
		fa, ok := addr.(*ssa.FieldAddr)
		if !ok {
			break
		}
		rev = append(rev, fa.Field)
		addr = fa.X
	}
	path := make([]int, len(rev))
	for i, f := range rev {
		path[len(rev)-1-i] = f
	}
	return addr, path
}

func isPrefix(a, b []int) bool {
	if len(a) > len(b) {
		return false
	}
	for i := range a {
		if a[i] != b[i] {
			return false
		}
	}
	return true
}

type addrPath struct {
	addr ssa.Value
	path []int
}

// derivedAddrs lists the addresses derived from a local variable by field selection, with their paths.
func derivedAddrs(al *ssa.Alloc) []addrPath {
	out := []addrPath{{al, nil}}
	for i := 0; i < len(out); i++ {
		cur := out[i]
		refs := cur.addr.Referrers()
		if refs == nil {
			continue
		}
		for _, ref := range *refs {
			if fa, ok := ref.(*ssa.FieldAddr); ok && fa.X == cur.addr {
				np := append(append([]int{}, cur.path...), fa.Field)
				out = append(out, addrPath{fa, np})
			}
		}
	}
	return out
}

// allocRead: a read of the sub-object `full` of the local variable al.
func (q *depQuery) allocRead(al *ssa.Alloc, full []int, depth int) bool {
	for _, d := range derivedAddrs(al) {
		refs := d.addr.Referrers()
		if refs == nil {
			continue
		}
		for _, ref := range *refs {
			st, ok := ref.(*ssa.Store)
			if !ok || st.Addr != d.addr {
				continue
			}
			switch {
			case isPrefix(d.path, full):
				if q.dep(st.Val, full[len(d.path):], depth+1) {
					return true
				}
			case isPrefix(full, d.path):
				if q.dep(st.Val, nil, depth+1) {
					return true
				}
			}
		}
	}
	return false
}

// closureCellStores: stores to the captured variable `cell` made inside closures (through their free variables).
func (q *depQuery) closureCellStores(cell *ssa.Alloc, full []int, depth int) bool {
	if cell.Referrers() == nil {
		return false
	}
	for _, ref := range *cell.Referrers() {
		mc, ok := ref.(*ssa.MakeClosure)
		if !ok {
			continue
		}
		fn, ok := mc.Fn.(*ssa.Function)
		if !ok {
			continue
		}
		for i, bnd := range mc.Bindings {
			if bnd != ssa.Value(cell) || i >= len(fn.FreeVars) {
				continue
			}
			fv := fn.FreeVars[i]
			if fv.Referrers() == nil {
				continue
			}
			// addresses derived from the free variable by field selection
			addrs := []addrPath{{fv, nil}}
			for k := 0; k < len(addrs); k++ {
				cur := addrs[k]
				if cur.addr.Referrers() == nil {
					continue
				}
				for _, r2 := range *cur.addr.Referrers() {
					if fa, ok := r2.(*ssa.FieldAddr); ok && fa.X == cur.addr {
						addrs = append(addrs, addrPath{fa, append(append([]int{}, cur.path...), fa.Field)})
					}
				}
			}
			for _, d := range addrs {
				if d.addr.Referrers() == nil {
					continue
				}
				for _, r2 := range *d.addr.Referrers() {
					st, ok := r2.(*ssa.Store)
					if !ok || st.Addr != d.addr {
						continue
					}
					switch {
					case isPrefix(d.path, full):
						if q.dep(st.Val, full[len(d.path):], depth+1) {
							return true
						}
					case isPrefix(full, d.path):
						if q.dep(st.Val, nil, depth+1) {
							return true
						}
					}
				}
			}
		}
	}
	return false
}

// fieldAlong returns the id ("pkg.T.f") of the innermost field selected by path from type t.
func fieldAlong(t types.Type, path []int) (string, bool) {
	id := ""
	for _, f := range path {
		if p, ok := t.Underlying().(*types.Pointer); ok {
			t = p.Elem()
		}
		st, ok := t.Underlying().(*types.Struct)
		if !ok || f >= st.NumFields() {
			return "", false
		}
		id = structFieldOf(t, f)
		t = st.Field(f).Type()
	}
	return id, id != ""
}

func (q *depQuery) servingStores(fld string, path []int, depth int) bool {
	for _, st := range fieldStores(q.p, fld) {
		if _, serving := q.p.reachH[st.Parent()]; !serving {
			continue // start-up code cannot see a request's configuration
		}
		if q.dep(st.Val, path, depth+1) {
			return true
		}
	}
	return false
}

func (q *depQuery) calleeResults(site ssa.CallInstruction, idx int, path []int, depth int) bool {
	if q.intra {
		return false
	}
	for _, callee := range q.p.calleesAt(site) {
		if !q.p.isRepoFunc(callee) || len(callee.Blocks) == 0 {
			continue
		}
		for _, b := range callee.Blocks {
			if ret, ok := b.Instrs[len(b.Instrs)-1].(*ssa.Return); ok && idx < len(ret.Results) {
				if q.dependsInCallee(ret.Results[idx], path, depth+1) {
					return true
				}
			}
		}
	}
	return false
}

func (q *depQuery) compute(v ssa.Value, path []int, depth int) bool {
	if q.target(v) {
		return true
	}
	if q.stop != nil && q.stop(v) {
		return false
	}
	switch x := v.(type) {
	case *ssa.Const, *ssa.Global, *ssa.Function, *ssa.Builtin:
		return false
	case *ssa.Parameter:
		if q.collectFn != nil && x.Parent() == q.collectFn {
			q.collect(x, path)
			return false
		}
		if a, ok := q.bind[x]; ok && depth < 35 {
			return q.dep(a, path, depth+1)
		}
		if q.noParams {
			// a helper with exactly one static call site is transparent: its parameter is the argument there
			if arg := uniqueCallArgument(x); arg != nil && depth < 30 {
				return q.dep(arg, path, depth+1)
			}
			return false
		}
		fn := x.Parent()
		idx := -1
		for i, prm := range fn.Params {
			if prm == x {
				idx = i
			}
		}
		sites := q.p.callersOf(fn)
		if idx < 0 || len(sites) == 0 || depth > 12 {
			return false
		}
		n := 0
		res := true
		for _, s := range sites {
			if !q.p.isRepoFunc(s.Parent()) {
				return false
			}
			cc := s.Common()
			args := cc.Args
			if cc.IsInvoke() {
				args = append([]ssa.Value{cc.Value}, args...)
			}
			if idx >= len(args) {
				return false
			}
			n++
			// every context must provide the dependence (the verdict for a value does not depend on who asks: shared memo)
			if !q.dep(args[idx], path, depth+1) {
				if !q.exploreAll {
					return false
				}
				res = false
			}
		}
		return res && n > 0
	case *ssa.FreeVar:
		fn := x.Parent()
		for i, fv := range fn.FreeVars {
			if fv != x || fn.Parent() == nil {
				continue
			}
			for _, b := range fn.Parent().Blocks {
				for _, in := range b.Instrs {
					if mc, ok := in.(*ssa.MakeClosure); ok && mc.Fn == fn && i < len(mc.Bindings) {
						return q.dep(mc.Bindings[i], path, depth+1)
					}
				}
			}
		}
		return false
	case *ssa.Alloc:
		// the pointer itself: anything stored into the variable
		return q.allocRead(x, nil, depth) || q.elementWrites(x, depth, 0)
	case *ssa.MakeSlice:
		return q.dep(x.Len, nil, depth+1) || q.elementWrites(x, depth, 0)
	case *ssa.Slice:
		return q.dep(x.X, nil, depth+1) || q.elementWrites(x, depth, 0)
	case *ssa.UnOp:
		if x.Op != token.MUL {
			return q.dep(x.X, nil, depth+1)
		}
		base, ap := resolveAddr(x.X)
		full := append(append([]int{}, ap...), path...)
		if al, ok := base.(*ssa.Alloc); ok {
			return q.allocRead(al, full, depth) || q.closureCellStores(al, full, depth)
		}
		if fv, ok := base.(*ssa.FreeVar); ok {
			// a variable captured by reference: stores made in this closure, in the enclosing function
			// and in the other closures that capture the same variable
			if cell := localCell(fv); cell != nil {
				return q.allocRead(cell, full, depth) || q.closureCellStores(cell, full, depth)
			}
		}
		if len(ap) == 0 {
			// load through a pointer that is not a field address (element of a slice, *p, global)
			return q.dep(x.X, nil, depth+1)
		}
		fa := x.X.(*ssa.FieldAddr)
		fld := structFieldOf(fa.X.Type(), fa.Field)
		if len(path) > 0 {
			// a sub-field of the loaded struct: stores to that very field anywhere
			if inner, ok := fieldAlong(x.Type(), path); ok && !strings.HasPrefix(inner, "app.ResponseConfig.") {
				if q.servingStores(inner, nil, depth) {
					return true
				}
			}
		}
		if isRepoStruct(fa.X.Type()) && !strings.HasPrefix(fld, "app.ResponseConfig.") {
			if q.servingStores(fld, path, depth) {
				return true
			}
		}
		return q.dep(fa.X, nil, depth+1)
	case *ssa.Field:
		return q.dep(x.X, append([]int{x.Field}, path...), depth+1)
	case *ssa.BinOp:
		return q.dep(x.X, nil, depth+1) || q.dep(x.Y, nil, depth+1)
	case *ssa.Phi:
		for _, e := range x.Edges {
			if q.dep(e, path, depth+1) {
				return true
			}
		}
		return false
	case *ssa.MakeInterface:
		return q.dep(x.X, path, depth+1)
	case *ssa.ChangeInterface:
		return q.dep(x.X, path, depth+1)
	case *ssa.ChangeType:
		return q.dep(x.X, path, depth+1)
	case *ssa.TypeAssert:
		return q.dep(x.X, path, depth+1)
	case *ssa.Call:
		if q.callArgs(x, 0, path, depth) {
			return true
		}
		if q.receiverState(x, depth) {
			return true
		}
		return q.calleeResults(x, 0, path, depth)
	case *ssa.Extract:
		if c, ok := x.Tuple.(*ssa.Call); ok {
			if q.callArgs(c, x.Index, path, depth) {
				return true
			}
			if q.receiverState(c, depth) {
				return true
			}
			return q.calleeResults(c, x.Index, path, depth)
		}
		return q.dep(x.Tuple, nil, depth+1)
	default:
		if in, ok := v.(ssa.Instruction); ok {
			for _, op := range in.Operands(nil) {
				if *op != nil && q.dep(*op, nil, depth+1) {
					return true
				}
			}
		}
	}
	return false
}

// elementWrites: what is written into the elements of a locally created slice/array value:
// stores through its element addresses, copy into it, library calls that receive it, re-slicings.
func (q *depQuery) elementWrites(v ssa.Value, depth, lvl int) bool {
	refs := v.Referrers()
	if refs == nil || lvl > 3 {
		return false
	}
	for _, ref := range *refs {
		switch x := ref.(type) {
		case *ssa.IndexAddr:
			if x.X != v || x.Referrers() == nil {
				continue
			}
			for _, r2 := range *x.Referrers() {
				if st, ok := r2.(*ssa.Store); ok && st.Addr == ssa.Value(x) && q.dep(st.Val, nil, depth+1) {
					return true
				}
			}
		case *ssa.Slice:
			if x.X == v && q.elementWrites(x, depth, lvl+1) {
				return true
			}
		case *ssa.Call:
			cc := x.Common()
			isArg := false
			for _, a := range cc.Args {
				if a == v {
					isArg = true
				}
			}
			if !isArg {
				continue
			}
			if callee := cc.StaticCallee(); callee != nil && q.p.isRepoFunc(callee) {
				continue // repository callees are followed through their results only
			}
			if b, ok := cc.Value.(*ssa.Builtin); ok && b.Name() != "copy" {
				continue // len, cap, append(v, ...) do not write v's elements in place
			}
			if b, ok := cc.Value.(*ssa.Builtin); ok && b.Name() == "copy" && cc.Args[0] != v {
				continue // v is the source
			}
			for _, a := range cc.Args {
				if a != v && q.dep(a, nil, depth+1) {
					return true
				}
			}
			if cc.IsInvoke() && q.dep(cc.Value, nil, depth+1) {
				return true
			}
		}
	}
	return false
}

// readOnlyLibMethods: methods of standard-library state objects (hash.Hash, bytes.Buffer, strings.Builder,
// bufio, ...) that do not change the receiver.
var readOnlyLibMethods = map[string]bool{"Sum": true, "Size": true, "BlockSize": true, "Bytes": true, "String": true, "Len": true, "Cap": true, "Available": true}

// receiverState: the result of a method of a library object (hash, buffer, builder, ...) depends on the
// arguments of every other method call made on the same receiver value (its state is not modelled otherwise).
func (q *depQuery) receiverState(c *ssa.Call, depth int) bool {
	cc := c.Common()
	var recv ssa.Value
	if cc.IsInvoke() {
		recv = cc.Value
	} else if callee := cc.StaticCallee(); callee != nil && callee.Signature.Recv() != nil && !q.p.isRepoFunc(callee) && len(cc.Args) > 0 {
		recv = cc.Args[0]
	}
	if recv == nil || recv.Referrers() == nil {
		return false
	}
	if _, isPrm := recv.(*ssa.Parameter); isPrm {
		return false // an object handed in by the caller: its earlier use is the caller's business
	}
	for _, ref := range *recv.Referrers() {
		oc, ok := ref.(*ssa.Call)
		if !ok || oc == c {
			continue
		}
		occ := oc.Common()
		same := false
		args := occ.Args
		if occ.IsInvoke() && occ.Value == recv {
			same = true
		} else if len(args) > 0 && args[0] == recv && occ.StaticCallee() != nil && occ.StaticCallee().Signature.Recv() != nil {
			same = true
			args = args[1:]
		}
		if !same {
			continue
		}
		mname := ""
		if occ.IsInvoke() {
			mname = occ.Method.Name()
		} else {
			mname = occ.StaticCallee().Name()
		}
		if readOnlyLibMethods[mname] {
			continue // documented not to change the receiver's state
		}
		for _, a := range args {
			if q.dep(a, nil, depth+1) {
				return true
			}
		}
	}
	return false
}

// dependsInCallee: inside a callee, parameters are not followed back to other
// callers (the arguments of this call were examined already).
func (q *depQuery) dependsInCallee(v ssa.Value, path []int, depth int) bool {
	if q.noParams {
		return q.dep(v, path, depth)
	}
	if q.np == nil {
		q.np = &depQuery{p: q.p, target: q.target, memo: map[dkey]int{}, budget: q.budget, noParams: true, exploreAll: q.exploreAll, stop: q.stop}
	}
	q.np.budget = q.budget
	r := q.np.dep(v, path, depth)
	if r {
		q.note(v)
	}
	q.budget = q.np.budget
	return r
}

// valueDependsOnField is the convenience entry point.
func valueDependsOnField(p *Program, v ssa.Value, field string) bool {
	return newDepQuery(p, onField(field)).depends(v, 0)
}

func valueDependsOnParam(p *Program, v ssa.Value, prm *ssa.Parameter) bool {
	return newDepQuery(p, onParam(prm)).depends(v, 0)
}

// callsTo lists the call instructions in repository code whose static callee is fn.
func callsTo(p *Program, fn *ssa.Function) []ssa.CallInstruction {
	var out []ssa.CallInstruction
	for _, s := range p.callersOf(fn) {
		if p.isRepoFunc(s.Parent()) && s.Common().StaticCallee() == fn {
			out = append(out, s)
		}
	}
	return out
}

// sliceVisit visits every value of the backward slice of v (within the function and its callees;
// parameters of the starting function are leaves when local is set).
func sliceVisit(p *Program, v ssa.Value, local bool, visit func(ssa.Value)) {
	q := newDepQuery(p, func(x ssa.Value) bool { visit(x); return false })
	q.exploreAll = true
	q.noParams = local
	q.budget = 200000
	q.depends(v, 0)
}

// sliceVisitUntil is sliceVisit with leaves chosen by the caller: the slice is not continued behind a
// value for which stop answers true (the value itself is visited).
func sliceVisitUntil(p *Program, v ssa.Value, local bool, visit func(ssa.Value), stop func(ssa.Value) bool) {
	q := newDepQuery(p, func(x ssa.Value) bool { visit(x); return false })
	q.exploreAll = true
	q.noParams = local
	q.stop = stop
	q.budget = 200000
	q.depends(v, 0)
}
