package main

// Range facts for E3: integer intervals from constants, types, arithmetic,
// dominating branch conditions, field facts, call-site joins and return ranges.

import (
	"fmt"
	"go/constant"
	"go/token"
	"go/types"
	"math"

	"golang.org/x/tools/go/ssa"
)

const (
	negInf = math.MinInt64
	posInf = math.MaxInt64
)

type itv struct {
	lo, hi  int64
	nonZero bool   // additionally known != 0
	why     string // short justification of the tightest bound
	// symbolic upper bound: value <= len(symVal) + symOff (symKey = exprKey(symVal))
	hasSym bool
	symKey string
	symOff int64
	symVal ssa.Value
}

func (a itv) withSym(v ssa.Value, off int64) itv {
	k := exprKey(v)
	if k == "" {
		return a
	}
	a.hasSym, a.symKey, a.symOff, a.symVal = true, k, off, v
	return a
}

func (a itv) dropSym() itv {
	a.hasSym, a.symKey, a.symOff, a.symVal = false, "", 0, nil
	return a
}

func (a itv) isPoint() bool { return a.lo == a.hi && a.lo != negInf && a.lo != posInf }

func top() itv               { return itv{lo: negInf, hi: posInf} }
func point(c int64) itv      { return itv{lo: c, hi: c, nonZero: c != 0, why: "constant"} }
func (a itv) isTop() bool    { return a.lo == negInf && a.hi == posInf && !a.nonZero }
func (a itv) excludesZero() bool {
	return a.nonZero || a.lo > 0 || a.hi < 0
}
func (a itv) String() string {
	l, h := "-inf", "+inf"
	if a.lo != negInf {
		l = fmt.Sprint(a.lo)
	}
	if a.hi != posInf {
		h = fmt.Sprint(a.hi)
	}
	s := "[" + l + "," + h + "]"
	if a.nonZero {
		s += "\\{0}"
	}
	return s
}

// symJoin computes the symbolic bound of a join. minLen gives a proven lower
// bound of len(v) so that a constant can be compared with len(v)+off.
func symJoin(a, b itv, minLen func(ssa.Value) int64) (ssa.Value, int64, bool) {
	switch {
	case a.hasSym && b.hasSym && a.symKey == b.symKey:
		return a.symVal, max64(a.symOff, b.symOff), true
	case a.hasSym && !b.hasSym && b.hi != posInf && minLen != nil:
		if minLen(a.symVal)+a.symOff >= b.hi {
			return a.symVal, a.symOff, true
		}
	case b.hasSym && !a.hasSym && a.hi != posInf && minLen != nil:
		if minLen(b.symVal)+b.symOff >= a.hi {
			return b.symVal, b.symOff, true
		}
	}
	return nil, 0, false
}

var joinMinLen func(ssa.Value) int64

func join(a, b itv) itv {
	r := itv{lo: min64(a.lo, b.lo), hi: max64(a.hi, b.hi)}
	if v, off, ok := symJoin(a, b, joinMinLen); ok {
		r = r.withSym(v, off)
	}
	r.nonZero = a.excludesZero() && b.excludesZero()
	r.why = a.why
	if b.why != "" && b.why != a.why {
		r.why = a.why + " | " + b.why
	}
	return r
}

func meet(a, b itv) itv {
	r := itv{lo: max64(a.lo, b.lo), hi: min64(a.hi, b.hi), nonZero: a.nonZero || b.nonZero}
	switch {
	case a.hasSym && b.hasSym && a.symKey == b.symKey:
		r = r.withSym(a.symVal, min64(a.symOff, b.symOff))
	case a.hasSym:
		r = r.withSym(a.symVal, a.symOff)
	case b.hasSym:
		r = r.withSym(b.symVal, b.symOff)
	}
	r.why = a.why
	if b.why != "" {
		if r.why != "" {
			r.why += "; "
		}
		r.why += b.why
	}
	return r
}

func min64(a, b int64) int64 {
	if a < b {
		return a
	}
	return b
}
func max64(a, b int64) int64 {
	if a > b {
		return a
	}
	return b
}

func satAdd(a, b int64) int64 {
	if a == negInf || b == negInf {
		return negInf
	}
	if a == posInf || b == posInf {
		return posInf
	}
	s := a + b
	if (a > 0 && b > 0 && s < 0) || s == posInf {
		return posInf
	}
	if (a < 0 && b < 0 && s >= 0) || s == negInf {
		return negInf
	}
	return s
}

func satNeg(a int64) int64 {
	if a == negInf {
		return posInf
	}
	if a == posInf {
		return negInf
	}
	return -a
}

func satMul(a, b int64) int64 {
	if a == 0 || b == 0 {
		return 0
	}
	neg := (a < 0) != (b < 0)
	if a == negInf || a == posInf || b == negInf || b == posInf {
		if neg {
			return negInf
		}
		return posInf
	}
	r := a * b
	if r/b != a {
		if neg {
			return negInf
		}
		return posInf
	}
	return r
}

// ranger evaluates intervals in the context of one program.
type ranger struct {
	p     *Program
	facts *fieldFacts
	busy  map[rkey]bool
	memo  map[rkey]itv
	steps int
}

type rkey struct {
	v  ssa.Value
	at *ssa.BasicBlock
}

func newRanger(p *Program, ff *fieldFacts) *ranger {
	rg := &ranger{p: p, facts: ff, busy: map[rkey]bool{}, memo: map[rkey]itv{}}
	joinMinLen = func(v ssa.Value) int64 {
		if r, ok := rg.lenOf(v, nil, 8); ok {
			return r.lo
		}
		return 0
	}
	return rg
}

func typeRange(t types.Type) itv {
	if b, ok := t.Underlying().(*types.Basic); ok {
		switch b.Kind() {
		case types.Uint, types.Uint64, types.Uintptr:
			return itv{lo: 0, hi: posInf, why: "unsigned type"}
		case types.Uint8:
			return itv{lo: 0, hi: 255, why: "uint8"}
		case types.Uint16:
			return itv{lo: 0, hi: 65535, why: "uint16"}
		case types.Uint32:
			return itv{lo: 0, hi: math.MaxUint32, why: "uint32"}
		case types.Int8:
			return itv{lo: -128, hi: 127}
		case types.Int16:
			return itv{lo: -32768, hi: 32767}
		case types.Int32:
			return itv{lo: math.MinInt32, hi: math.MaxInt32}
		}
	}
	return top()
}

// rangeAt returns the interval of integer value v at the entry of block `at`
// (v must dominate `at` or be defined in it).
func (rg *ranger) rangeAt(v ssa.Value, at *ssa.BasicBlock, depth int) itv {
	k := rkey{v, at}
	if r, ok := rg.memo[k]; ok {
		return r
	}
	if rg.busy[k] || depth > 14 {
		return typeRange(v.Type())
	}
	rg.busy[k] = true
	defer delete(rg.busy, k)
	r := rg.structural(v, at, depth)
	r = meet(r, typeRange(v.Type()))
	if at != nil {
		r = rg.refineByConds(v, r, at, depth)
	}
	rg.memo[k] = r
	return r
}

func (rg *ranger) structural(v ssa.Value, at *ssa.BasicBlock, depth int) itv {
	switch x := v.(type) {
	case *ssa.Const:
		if c, ok := constInt(x); ok {
			return point(c)
		}
		return top()
	case *ssa.BinOp:
		return rg.binop(x, at, depth)
	case *ssa.UnOp:
		switch x.Op {
		case token.SUB:
			a := rg.rangeAt(x.X, at, depth+1)
			return itv{lo: satNeg(a.hi), hi: satNeg(a.lo), nonZero: a.excludesZero(), why: a.why}
		case token.MUL:
			if f, ok := loadedField(x); ok {
				if fr, ok := rg.facts.rangeOfField(f); ok {
					return fr
				}
				if fr, ok := rg.forwardedStore(x, f, depth); ok {
					return fr
				}
			}
			// local variable spilled to an Alloc: join of its stores when all are visible
			if a, ok := x.X.(*ssa.Alloc); ok {
				return rg.allocRange(a, depth)
			}
		}
		return top()
	case *ssa.Field:
		if fr, ok := rg.facts.rangeOfField(structFieldOf(x.X.Type(), x.Field)); ok {
			return fr
		}
		return top()
	case *ssa.Convert:
		src := x.X.Type().Underlying()
		if b, ok := src.(*types.Basic); ok && b.Info()&types.IsInteger != 0 {
			a := rg.rangeAt(x.X, at, depth+1)
			// unsigned target, possibly negative source: wraps to a huge value, still >= 0 but unknown
			if tb, ok := x.Type().Underlying().(*types.Basic); ok && tb.Info()&types.IsUnsigned != 0 && a.lo < 0 {
				return itv{lo: 0, hi: posInf, nonZero: a.excludesZero(), why: a.why}
			}
			return a
		}
		if b, ok := src.(*types.Basic); ok && b.Info()&types.IsFloat != 0 {
			return rg.floatToInt(x.X, at, depth)
		}
		return top()
	case *ssa.ChangeType:
		return rg.rangeAt(x.X, at, depth+1)
	case *ssa.Phi:
		return rg.phi(x, depth)
	case *ssa.Call:
		return rg.call(x, at, depth)
	case *ssa.Extract:
		if c, ok := x.Tuple.(*ssa.Call); ok {
			if callee := c.Call.StaticCallee(); callee != nil && rg.p.isRepoFunc(callee) && len(callee.Blocks) > 0 {
				return rg.translateSym(rg.returnRange(callee, x.Index, depth), callee, c.Common())
			}
			if callee := c.Call.StaticCallee(); callee != nil {
				switch callee.String() {
				case "(*os.File).Read", "(*bytes.Buffer).Read", "(*bufio.Reader).Read":
					return itv{lo: 0, hi: posInf, why: "Read returns n >= 0"}
				}
			}
			if c.Call.IsInvoke() && c.Call.Method.Name() == "Read" && x.Index == 0 {
				return itv{lo: 0, hi: posInf, why: "io.Reader contract n >= 0"}
			}
			if infallibleWrite(c) && x.Index == 0 && len(c.Call.Args) == 1 {
				if lr, ok := rg.lenOf(c.Call.Args[0], at, depth+1); ok {
					lr.why = "hash.Hash.Write returns len(p)"
					return lr
				}
			}
		}
		return top()
	case *ssa.Parameter:
		return rg.paramRange(x, depth)
	}
	return top()
}

func (rg *ranger) allocRange(a *ssa.Alloc, depth int) itv {
	refs := a.Referrers()
	if refs == nil {
		return top()
	}
	var r itv
	first := true
	for _, ref := range *refs {
		switch s := ref.(type) {
		case *ssa.Store:
			if s.Addr != a {
				return top()
			}
			x := rg.rangeAt(s.Val, s.Block(), depth+1)
			if first {
				r, first = x, false
			} else {
				r = join(r, x)
			}
		case *ssa.UnOp:
			// load
		default:
			return top() // address escapes
		}
	}
	if first {
		return point(0) // zero value
	}
	// the zero value is also possible if a load can precede all stores; conservative: include 0
	return join(r, point(0))
}

func (rg *ranger) floatToInt(f ssa.Value, at *ssa.BasicBlock, depth int) itv {
	// int(math.Ceil(x)) with x > 0 is >= 1; other float-to-int conversions are not modelled
	if c, ok := f.(*ssa.Call); ok {
		if callee := c.Call.StaticCallee(); callee != nil && callee.String() == "math.Ceil" {
			if rg.posFloat(c.Call.Args[0], at, depth+1) {
				return itv{lo: 1, hi: posInf, why: "ceil of a strictly positive value"}
			}
		}
	}
	return top()
}

// posFloat: the float value is strictly positive.
func (rg *ranger) posFloat(v ssa.Value, at *ssa.BasicBlock, depth int) bool {
	if depth > 12 {
		return false
	}
	switch x := v.(type) {
	case *ssa.Const:
		if x.Value != nil {
			if f, ok := constant.Float64Val(constant.ToFloat(x.Value)); ok {
				return f > 0
			}
		}
	case *ssa.Convert:
		if b, ok := x.X.Type().Underlying().(*types.Basic); ok {
			if b.Info()&types.IsInteger != 0 {
				return rg.rangeAt(x.X, at, depth+1).lo >= 1
			}
			if b.Info()&types.IsFloat != 0 {
				return rg.posFloat(x.X, at, depth+1)
			}
		}
	case *ssa.BinOp:
		if x.Op == token.MUL || x.Op == token.QUO || x.Op == token.ADD {
			return rg.posFloat(x.X, at, depth+1) && rg.posFloat(x.Y, at, depth+1)
		}
	}
	return false
}

func (rg *ranger) phi(x *ssa.Phi, depth int) itv {
	// monotone counter: phi(c0, phi+k) with k >= 0 → lo = c0 ; with k <= 0 → hi = c0
	var r itv
	first := true
	for i, e := range x.Edges {
		pred := x.Block().Preds[i]
		if bo, ok := e.(*ssa.BinOp); ok && (bo.Op == token.ADD || bo.Op == token.SUB) && (bo.X == x) {
			if c, ok := constInt(bo.Y); ok {
				// handled after the loop: contributes direction only
				_ = c
				continue
			}
		}
		er := rg.rangeAt(e, pred, depth+1)
		if ec, ok := edgeCond(pred, x.Block()); ok {
			er = rg.applyCond(e, exprKey(e), er, ec, depth+1) // the branch taken on this edge
		}
		if first {
			r, first = er, false
		} else {
			r = join(r, er)
		}
	}
	if first {
		return top()
	}
	for _, e := range x.Edges {
		if bo, ok := e.(*ssa.BinOp); ok && (bo.Op == token.ADD || bo.Op == token.SUB) && bo.X == x {
			if c, ok := constInt(bo.Y); ok {
				up := (bo.Op == token.ADD && c >= 0) || (bo.Op == token.SUB && c <= 0)
				if up {
					r.hi = posInf
				} else {
					r.lo = negInf
				}
				r.nonZero = false
			}
		}
	}
	return r
}

func (rg *ranger) binop(x *ssa.BinOp, at *ssa.BasicBlock, depth int) itv {
	switch x.Op {
	case token.ADD, token.SUB, token.MUL, token.QUO, token.REM, token.SHR, token.SHL, token.AND:
	default:
		return top()
	}
	if b, ok := x.Type().Underlying().(*types.Basic); !ok || b.Info()&types.IsInteger == 0 {
		return top()
	}
	// wrap idiom a - (a/n)*n  ==  a % n
	if x.Op == token.SUB {
		if a, n, ok := wrapIdiom(x); ok {
			return rg.rem(rg.rangeAt(a, at, depth+1), rg.rangeAt(n, at, depth+1))
		}
	}
	a := rg.rangeAt(x.X, at, depth+1)
	b := rg.rangeAt(x.Y, at, depth+1)
	switch x.Op {
	case token.ADD:
		r := itv{lo: satAdd(a.lo, b.lo), hi: satAdd(a.hi, b.hi), why: joinWhy(a, b)}
		if a.hasSym && b.isPoint() {
			r = r.withSym(a.symVal, a.symOff+b.lo)
		} else if b.hasSym && a.isPoint() {
			r = r.withSym(b.symVal, b.symOff+a.lo)
		}
		return r
	case token.SUB:
		r := itv{lo: satAdd(a.lo, satNeg(b.hi)), hi: satAdd(a.hi, satNeg(b.lo)), why: joinWhy(a, b)}
		if a.hasSym && b.lo != negInf && b.lo >= 0 {
			r = r.withSym(a.symVal, a.symOff-b.lo)
		}
		if isUnsigned(x.Type()) && r.lo < 0 {
			// unsigned subtraction may wrap: only nonZero information survives
			return itv{lo: 0, hi: posInf}
		}
		// a - b computed under a dominating guard a >= b (or a > b) is non-negative
		if r.lo < 0 && !isUnsigned(x.Type()) && at != nil && guardedDifference(x, at) {
			r.lo = 0
			if r.why != "" {
				r.why += "; "
			}
			r.why += "difference under the guard a >= b"
		}
		return r
	case token.MUL:
		c := []int64{satMul(a.lo, b.lo), satMul(a.lo, b.hi), satMul(a.hi, b.lo), satMul(a.hi, b.hi)}
		r := itv{lo: min64(min64(c[0], c[1]), min64(c[2], c[3])), hi: max64(max64(c[0], c[1]), max64(c[2], c[3])), why: joinWhy(a, b)}
		r.nonZero = a.excludesZero() && b.excludesZero()
		return r
	case token.QUO:
		if b.lo > 0 {
			if a.lo >= 0 {
				return itv{lo: a.lo / max64(b.hi, 1), hi: a.hi / b.lo, why: joinWhy(a, b)}
			}
			return itv{lo: min64(a.lo, -a.hi), hi: max64(a.hi, satNeg(a.lo)), why: joinWhy(a, b)}
		}
		return top()
	case token.REM:
		return rg.rem(a, b)
	case token.SHR:
		if a.lo >= 0 {
			return itv{lo: 0, hi: a.hi, why: a.why}
		}
	case token.SHL:
		if a.lo >= 0 {
			return itv{lo: 0, hi: posInf}
		}
	case token.AND:
		if b.lo >= 0 && b.hi != posInf {
			return itv{lo: 0, hi: b.hi, why: "masked"}
		}
		if a.lo >= 0 && a.hi != posInf {
			return itv{lo: 0, hi: a.hi, why: "masked"}
		}
	}
	return top()
}

func isUnsigned(t types.Type) bool {
	b, ok := t.Underlying().(*types.Basic)
	return ok && b.Info()&types.IsUnsigned != 0
}

func joinWhy(a, b itv) string {
	if a.why == "" {
		return b.why
	}
	if b.why == "" || b.why == a.why {
		return a.why
	}
	return a.why + "; " + b.why
}

func (rg *ranger) rem(a, n itv) itv {
	if n.lo > 0 {
		hi := satAdd(n.hi, -1)
		if a.lo >= 0 {
			return itv{lo: 0, hi: hi, why: "x % n with x >= 0, n > 0"}
		}
		return itv{lo: satNeg(hi), hi: hi}
	}
	return top()
}

// wrapIdiom matches a - (a/n)*n (also with the multiplication operands swapped).
func wrapIdiom(x *ssa.BinOp) (a, n ssa.Value, ok bool) {
	if x.Op != token.SUB {
		return nil, nil, false
	}
	mul, isMul := x.Y.(*ssa.BinOp)
	if !isMul || mul.Op != token.MUL {
		return nil, nil, false
	}
	try := func(q, m ssa.Value) (ssa.Value, ssa.Value, bool) {
		quo, isQ := q.(*ssa.BinOp)
		if !isQ || quo.Op != token.QUO {
			return nil, nil, false
		}
		if sameValue(quo.X, x.X) && sameValue(quo.Y, m) {
			return x.X, m, true
		}
		return nil, nil, false
	}
	if a, n, ok := try(mul.X, mul.Y); ok {
		return a, n, true
	}
	return try(mul.Y, mul.X)
}

func (rg *ranger) call(x *ssa.Call, at *ssa.BasicBlock, depth int) itv {
	cc := x.Common()
	if b, ok := cc.Value.(*ssa.Builtin); ok {
		switch b.Name() {
		case "len", "cap":
			r := itv{lo: 0, hi: posInf, why: "len >= 0"}
			if len(cc.Args) == 1 {
				if lr, ok := rg.lenOf(cc.Args[0], at, depth); ok {
					r = meet(r, lr.dropSym())
				}
				if b.Name() == "len" {
					r = r.withSym(cc.Args[0], 0)
				}
			}
			return r
		case "min":
			r := rg.rangeAt(cc.Args[0], at, depth+1)
			for _, a := range cc.Args[1:] {
				o := rg.rangeAt(a, at, depth+1)
				r = itv{lo: min64(r.lo, o.lo), hi: min64(r.hi, o.hi), why: "min"}
			}
			return r
		case "max":
			r := rg.rangeAt(cc.Args[0], at, depth+1)
			for _, a := range cc.Args[1:] {
				o := rg.rangeAt(a, at, depth+1)
				r = itv{lo: max64(r.lo, o.lo), hi: max64(r.hi, o.hi), why: "max"}
			}
			return r
		}
		return top()
	}
	callee := cc.StaticCallee()
	if callee == nil {
		return top()
	}
	if rg.p.isRepoFunc(callee) && len(callee.Blocks) > 0 {
		return rg.translateSym(rg.returnRange(callee, 0, depth), callee, cc)
	}
	switch callee.String() {
	case "strings.Count", "strings.Index", "strings.LastIndex", "bytes.Index":
		return itv{lo: -1, hi: posInf, why: callee.Name()}
	case "sort.Search":
		n := rg.rangeAt(cc.Args[0], at, depth+1)
		r := itv{lo: 0, hi: n.hi, why: "sort.Search in [0,n]"}
		if n.hasSym {
			r = r.withSym(n.symVal, n.symOff)
		}
		return r
	case "(time.Duration).Milliseconds", "(time.Time).UnixMilli", "(time.Time).Unix":
		return top()
	}
	return top()
}

// lenOf: known length facts for a slice/string value.
func (rg *ranger) lenOf(s ssa.Value, at *ssa.BasicBlock, depth int) (itv, bool) {
	if f, ok := loadedField(s); ok {
		if n, ok := rg.facts.minLenOfField(f); ok {
			return itv{lo: n, hi: posInf, why: "validated field length " + f}, true
		}
	}
	switch x := s.(type) {
	case *ssa.Const:
		if str, ok := constString(x); ok {
			return point(int64(len(str))), true
		}
	case *ssa.Parameter:
		// a slice handed to a helper: the length facts of the arguments at all its static call sites
		fn := x.Parent()
		if fn == nil || depth > 6 {
			return itv{}, false
		}
		idx := -1
		for i, q := range fn.Params {
			if q == x {
				idx = i
			}
		}
		sites := rg.p.callersOf(fn)
		if idx < 0 || len(sites) == 0 {
			return itv{}, false
		}
		var r itv
		first := true
		for _, site := range sites {
			cc := site.Common()
			if cc.StaticCallee() != fn || idx >= len(cc.Args) {
				return itv{}, false
			}
			ar, ok := rg.lenOf(cc.Args[idx], site.Block(), depth+1)
			if !ok {
				return itv{}, false
			}
			if first {
				r, first = ar.dropSym(), false
			} else {
				r = join(r, ar.dropSym())
			}
		}
		if !first {
			if r.why != "" {
				r.why += " (at every call site of " + shortFn(fn) + ")"
			}
			return r, true
		}
	case *ssa.Phi:
		if depth > 10 {
			return itv{}, false
		}
		var r itv
		first := true
		for i, e := range x.Edges {
			er, ok := rg.lenOf(e, x.Block().Preds[i], depth+1)
			if !ok {
				return itv{}, false
			}
			if first {
				r, first = er.dropSym(), false
			} else {
				r = join(r, er.dropSym())
			}
		}
		if !first {
			return r, true
		}
	case *ssa.Call:
		if callee := x.Call.StaticCallee(); callee != nil {
			switch callee.String() {
			case "strings.Split", "strings.SplitN", "bytes.Split":
				return itv{lo: 1, hi: posInf, why: "strings.Split returns >= 1 element"}, true
			case "(*github.com/Eyevinn/mp4ff/mp4.MdhdBox).GetLanguage":
				return point(3), true // fmt.Sprintf("%c%c%c", ...) of three 5-bit values + 0x60: three ASCII bytes
			case "encoding/hex.EncodeToString":
				if ar, ok := rg.lenOf(x.Call.Args[0], at, depth+1); ok {
					return itv{lo: satMul(ar.lo, 2), hi: satMul(ar.hi, 2), why: "hex.EncodeToString doubles the length"}, true
				}
			}
		}
	case *ssa.Slice:
		// a[:] of an array
		if x.High == nil && x.Low == nil {
			t := x.X.Type().Underlying()
			if pt, ok := t.(*types.Pointer); ok {
				t = pt.Elem().Underlying()
			}
			if arr, ok := t.(*types.Array); ok {
				return point(arr.Len()), true
			}
		}
		{
			lo := point(0)
			if x.Low != nil {
				lo = rg.rangeAt(x.Low, at, depth+1)
			}
			var hi itv
			if x.High != nil {
				hi = rg.rangeAt(x.High, at, depth+1)
			} else if xr, ok := rg.lenOf(x.X, at, depth+1); ok {
				hi = xr
			} else {
				hi = itv{lo: 0, hi: posInf}
			}
			return itv{lo: max64(0, satAdd(hi.lo, satNeg(lo.hi))), hi: max64(0, satAdd(hi.hi, satNeg(lo.lo))), why: "length of a slice expression"}, true
		}
	case *ssa.MakeSlice:
		return rg.rangeAt(x.Len, at, depth+1), true
	}
	return itv{}, false
}

func (rg *ranger) returnRange(fn *ssa.Function, idx int, depth int) itv {
	var r itv
	first := true
	for _, b := range fn.Blocks {
		ret, ok := b.Instrs[len(b.Instrs)-1].(*ssa.Return)
		if !ok || idx >= len(ret.Results) {
			continue
		}
		// error exits do not constrain the value seen by callers that test the error
		x := rg.rangeAt(ret.Results[idx], b, depth+1)
		if first {
			r, first = x, false
		} else {
			r = join(r, x)
		}
	}
	if first {
		return top()
	}
	if r.why == "" {
		r.why = "all returns of " + shortFn(fn)
	}
	return r
}

func (rg *ranger) paramRange(prm *ssa.Parameter, depth int) itv {
	fn := prm.Parent()
	if fn == nil || depth > 6 {
		return top()
	}
	idx := -1
	for i, q := range fn.Params {
		if q == prm {
			idx = i
		}
	}
	if idx < 0 {
		return top()
	}
	sites := rg.p.callersOf(fn)
	if len(sites) == 0 {
		return top()
	}
	var r itv
	first := true
	for _, s := range sites {
		if !rg.p.isRepoFunc(s.Parent()) {
			return top()
		}
		cc := s.Common()
		args := cc.Args
		if cc.IsInvoke() {
			args = append([]ssa.Value{cc.Value}, args...)
		}
		if idx >= len(args) {
			return top()
		}
		x := rg.rangeAt(args[idx], s.Block(), depth+2)
		// conditions holding at the call instruction inside its block are the block's entry conditions
		if first {
			r, first = x, false
		} else {
			r = join(r, x)
		}
	}
	if r.why != "" {
		r.why = "all " + fmt.Sprint(len(sites)) + " call sites: " + r.why
	}
	return r
}

// refineByConds tightens r using the branch conditions that hold at `at`:
// the join over all feasible path condition sets.
func (rg *ranger) refineByConds(v ssa.Value, r itv, at *ssa.BasicBlock, depth int) itv {
	key := exprKey(v)
	f := factsOf(at.Parent())
	var res itv
	first := true
	for _, set := range f.condSets(at) {
		x := r
		for _, c := range set {
			x = rg.applyCond(v, key, x, c, depth)
		}
		if x.lo > x.hi {
			continue // this path contradicts what is known about v
		}
		if !rg.feasible(set, depth) {
			continue
		}
		if first {
			res, first = x, false
		} else {
			res = join(res, x)
		}
	}
	if first {
		return r // no feasible path: code is unreachable, keep the unrefined range
	}
	return res
}

// feasible: the integer comparisons of a condition set against constants do not contradict each other.
func (rg *ranger) feasible(set []cond, depth int) bool {
	if depth > 10 {
		return true
	}
	type subj struct {
		v   ssa.Value
		key string
	}
	var subjects []subj
	seen := map[string]bool{}
	for _, c := range set {
		bo, ok := c.V.(*ssa.BinOp)
		if !ok {
			continue
		}
		for _, side := range []ssa.Value{bo.X, bo.Y} {
			if _, isC := side.(*ssa.Const); isC {
				continue
			}
			if bt, ok := side.Type().Underlying().(*types.Basic); !ok || bt.Info()&types.IsInteger == 0 {
				continue
			}
			k := exprKey(side)
			if k == "" || k[0] == '@' {
				k = "@" + side.Name() + "#" + fmt.Sprint(side.Pos())
			}
			if !seen[k] {
				seen[k] = true
				subjects = append(subjects, subj{side, k})
			}
		}
	}
	for _, sj := range subjects {
		x := meet(typeRange(sj.v.Type()), rg.structuralNoCtx(sj.v, depth))
		for _, c := range set {
			x = rg.applyCond(sj.v, exprKey(sj.v), x, c, depth+4)
		}
		if x.lo > x.hi || (x.nonZero && x.lo == 0 && x.hi == 0) {
			return false
		}
	}
	return true
}

// structuralNoCtx: structural range without branch refinement (len >= 0, unsigned, constants).
func (rg *ranger) structuralNoCtx(v ssa.Value, depth int) itv {
	switch x := v.(type) {
	case *ssa.Call:
		if b, ok := x.Call.Value.(*ssa.Builtin); ok && (b.Name() == "len" || b.Name() == "cap") {
			return itv{lo: 0, hi: posInf}
		}
	case *ssa.Const:
		if c, ok := constInt(x); ok {
			return point(c)
		}
	}
	return top()
}

func stripConv(v ssa.Value) ssa.Value {
	for {
		switch x := v.(type) {
		case *ssa.Convert:
			if bs, ok := x.X.Type().Underlying().(*types.Basic); ok && bs.Info()&types.IsInteger != 0 {
				if bt, ok := x.Type().Underlying().(*types.Basic); ok && bt.Info()&types.IsInteger != 0 {
					v = x.X
					continue
				}
			}
		case *ssa.ChangeType:
			v = x.X
			continue
		}
		return v
	}
}

func (rg *ranger) applyCond(v ssa.Value, key string, r itv, c cond, depth int) itv {
	bo, ok := c.V.(*ssa.BinOp)
	if !ok {
		return r
	}
	op := bo.Op
	switch op {
	case token.LSS, token.LEQ, token.GTR, token.GEQ, token.EQL, token.NEQ:
	default:
		return r
	}
	match := func(a ssa.Value) bool {
		if a == v {
			return true
		}
		if key != "" && key[0] != '@' && exprKey(a) == key {
			return true
		}
		// a parameter of a helper whose summary was injected: the argument bound to it here
		if pa, ok := a.(*ssa.Parameter); ok {
			var vfn *ssa.Function
			switch x := v.(type) {
			case ssa.Instruction:
				vfn = x.Parent()
			case *ssa.Parameter:
				vfn = x.Parent()
			}
			if vfn != nil && vfn != pa.Parent() {
				if arg := boundArgument(pa, vfn); arg != nil && (arg == v || (key != "" && key[0] != '@' && exprKey(arg) == key)) {
					return true
				}
			}
		}
		// a value that a helper returns at the position from which v was taken (summary of the helper injected)
		if resultBinding(v, a) || resultBinding(stripConv(v), a) {
			return true
		}
		// comparison made on the same value before/after an integer conversion that preserves sign range
		sa, sv := stripConv(a), stripConv(v)
		if sa == sv && !isUnsigned(a.Type()) && !isUnsigned(v.Type()) {
			return true
		}
		return false
	}
	var other ssa.Value
	if match(bo.X) {
		other = bo.Y
	} else if match(bo.Y) {
		other = bo.X
		// flip: other OP v  ==> v OP' other
		switch op {
		case token.LSS:
			op = token.GTR
		case token.LEQ:
			op = token.GEQ
		case token.GTR:
			op = token.LSS
		case token.GEQ:
			op = token.LEQ
		}
	} else {
		return r
	}
	if !c.Pos {
		switch op {
		case token.LSS:
			op = token.GEQ
		case token.LEQ:
			op = token.GTR
		case token.GTR:
			op = token.LEQ
		case token.GEQ:
			op = token.LSS
		case token.EQL:
			op = token.NEQ
		case token.NEQ:
			op = token.EQL
		}
	}
	if b, ok := other.Type().Underlying().(*types.Basic); !ok || b.Info()&types.IsInteger == 0 {
		return r
	}
	o := rg.rangeAt(other, c.At, depth+1)
	why := "guard at " + rg.p.pos(c.V.Pos())
	switch op {
	case token.LSS:
		if o.hi != posInf {
			r = meet(r, itv{lo: negInf, hi: o.hi - 1, why: why})
		}
		if o.hasSym {
			r = meet(r, itv{lo: negInf, hi: posInf}.withSym(o.symVal, o.symOff-1))
		}
	case token.LEQ:
		if o.hi != posInf {
			r = meet(r, itv{lo: negInf, hi: o.hi, why: why})
		}
		if o.hasSym {
			r = meet(r, itv{lo: negInf, hi: posInf}.withSym(o.symVal, o.symOff))
		}
	case token.GTR:
		if o.lo != negInf {
			r = meet(r, itv{lo: o.lo + 1, hi: posInf, why: why})
		}
	case token.GEQ:
		if o.lo != negInf {
			r = meet(r, itv{lo: o.lo, hi: posInf, why: why})
		}
	case token.EQL:
		r = meet(r, itv{lo: o.lo, hi: o.hi, nonZero: o.nonZero, why: why})
	case token.NEQ:
		if o.lo == 0 && o.hi == 0 {
			r.nonZero = true
			if r.lo == 0 {
				r.lo = 1
			}
			if r.why == "" {
				r.why = why
			} else {
				r.why += "; " + why
			}
		}
	}
	return r
}

// infallibleWrite: documented never to fail ("It never returns an error").
func infallibleWrite(c *ssa.Call) bool {
	if c.Call.IsInvoke() && c.Call.Method.Name() == "Write" {
		return types.TypeString(c.Call.Value.Type(), nil) == "hash.Hash"
	}
	if callee := c.Call.StaticCallee(); callee != nil {
		switch callee.String() {
		case "(*bytes.Buffer).Write", "(*bytes.Buffer).WriteString", "(*strings.Builder).WriteString", "(*strings.Builder).Write":
			return true
		}
	}
	return false
}

// translateSym rewrites a symbolic bound expressed over a callee parameter into
// the caller's argument; bounds over callee-internal values are dropped.
func (rg *ranger) translateSym(r itv, callee *ssa.Function, cc *ssa.CallCommon) itv {
	if !r.hasSym {
		return r
	}
	args := cc.Args
	if cc.IsInvoke() {
		args = append([]ssa.Value{cc.Value}, args...)
	}
	sv := spilledParam(r.symVal)
	for i, prm := range callee.Params {
		if sv == ssa.Value(prm) && i < len(args) {
			return r.withSym(args[i], r.symOff)
		}
	}
	return r.dropSym()
}

// spilledParam looks through the Alloc that go/ssa creates for a parameter
// captured by a closure: load(alloc) where the only store is the parameter.
func spilledParam(v ssa.Value) ssa.Value {
	u, ok := v.(*ssa.UnOp)
	if !ok || u.Op != token.MUL {
		return v
	}
	a, ok := u.X.(*ssa.Alloc)
	if !ok || a.Referrers() == nil {
		return v
	}
	var stored ssa.Value
	n := 0
	for _, ref := range *a.Referrers() {
		if st, ok := ref.(*ssa.Store); ok && st.Addr == a {
			stored = st.Val
			n++
		}
	}
	if n == 1 {
		if prm, ok := stored.(*ssa.Parameter); ok {
			return prm
		}
	}
	return v
}

// forwardedStore: the loaded field was stored earlier on every path to the
// load: (a) by the only store to that field (same base) in the function, which
// dominates the load; or (b) by the caller: every call site of the function is
// dominated by the only store to that field in the caller, and no code reachable
// from the function stores the field. Calls between store and load are assumed
// not to reassign the field when no other store to it exists in the repository
// outside those functions.
func (rg *ranger) forwardedStore(load *ssa.UnOp, field string, depth int) (itv, bool) {
	if depth > 8 {
		return itv{}, false
	}
	fn := load.Parent()
	fa, ok := load.X.(*ssa.FieldAddr)
	if !ok {
		return itv{}, false
	}
	// all stores to the field in the repository
	all := fieldStores(rg.p, field)
	if len(all) == 0 {
		return itv{}, false
	}
	var local []*ssa.Store
	for _, st := range all {
		if st.Parent() == fn {
			local = append(local, st)
		}
	}
	if len(local) == 1 && len(all) == 1 {
		st := local[0]
		sfa, _ := st.Addr.(*ssa.FieldAddr)
		if sfa != nil && sameValue(sfa.X, fa.X) && instrDominates(st, load) {
			r := rg.rangeAt(st.Val, st.Block(), depth+1)
			r.why = "value stored at " + rg.p.pos(st.Pos()) + ": " + r.why
			return r.dropSym(), true
		}
		return itv{}, false
	}
	if len(local) == 0 && len(all) == 1 {
		// (b) stored by the (only) caller before every call
		st := all[0]
		caller := st.Parent()
		sites := rg.p.callersOf(fn)
		if len(sites) == 0 {
			return itv{}, false
		}
		for _, s := range sites {
			if s.Parent() != caller || !instrDominates(st, s) {
				return itv{}, false
			}
		}
		// the base object must be the receiver/argument carrying the stored object: same key modulo parameter naming is not checked; require the field's struct to be the receiver type
		r := rg.rangeAt(st.Val, st.Block(), depth+1)
		r.why = "value stored by the caller at " + rg.p.pos(st.Pos()) + " before every call: " + r.why
		return r.dropSym(), true
	}
	return itv{}, false
}
