package main

// Dependence graph over SSA values of repository functions (used by E3 taint
// and E4 must-depend). Flow-insensitive, field-based, context-insensitive,
// explicit data flow only. An edge dst <- src means "dst may be computed from src".

import (
	"go/token"
	"go/types"
	"sort"
	"strings"

	"golang.org/x/tools/go/ssa"
)

type depGraph struct {
	p     *Program
	ids   map[any]int
	nodes []any
	succ  [][]int32 // src -> dsts
	pred  [][]int32 // dst -> srcs
	succV [][]int32 // value-preserving subset of succ: the destination IS the source value (up to conversion / +-const)
	valuePreserving bool
	directBy []int32
	direct []bool // value directly chosen by the request (parsed number, search result) through value-preserving steps
	succC [][]int32 // content-only edges (element stores): do not change the shape (length) of the destination
	contentOnly bool
	shape []bool // shape (length) is request-controlled
	shapeBy []int32

	sources []int
	tainted []bool
	taintBy []int32 // predecessor in taint propagation (for explanations)

	writesThrough map[*ssa.Function]map[int]bool // params (index) a function may write through
	cur           *ssa.Function                  // function being added (phase of its stores/loads)
	ctx           ssa.CallInstruction            // non-nil while cloning a leaf callee for one call site
	ctxFn         *ssa.Function
	leaf          map[*ssa.Function]bool
	side          string                         // "livesim2" or "recv": one graph per binary
	funcs         map[*ssa.Function]bool         // functions analysed transparently
}

// transparentLibs: data libraries whose functions are analysed like repository
// code (precise field stores) instead of as opaque calls.
var transparentLibs = []string{"github.com/Eyevinn/mp4ff/", "github.com/Eyevinn/dash-mpd/"}

func isTransparentLib(pk string) bool {
	for _, t := range transparentLibs {
		if strings.HasPrefix(pk, t) {
			return true
		}
	}
	return false
}

func sideOfPkg(pk string) string {
	switch {
	case strings.HasPrefix(pk, modPath+"/cmd/livesim2"):
		return "livesim2"
	case strings.HasPrefix(pk, modPath+"/cmd/cmaf-ingest-receiver"):
		return "recv"
	case strings.HasPrefix(pk, modPath+"/cmd/dashfetcher"):
		return "dashfetcher"
	}
	return "" // shared
}

func (g *depGraph) inGraph(fn *ssa.Function) bool {
	return fn != nil && g.funcs[fn] && len(fn.Blocks) > 0
}

// ctxVal is a value of a small leaf function cloned for one call site.
type ctxVal struct {
	v    ssa.Value
	site ssa.CallInstruction
}
type ctxRet struct {
	fn   *ssa.Function
	i    int
	site ssa.CallInstruction
}

func valueParent(v ssa.Value) *ssa.Function {
	switch x := v.(type) {
	case *ssa.Parameter:
		return x.Parent()
	case *ssa.FreeVar:
		return x.Parent()
	case ssa.Instruction:
		return x.Parent()
	}
	return nil
}

func (g *depGraph) id(k any) int {
	if g.ctx != nil {
		switch x := k.(type) {
		case ssa.Value:
			if valueParent(x) == g.ctxFn {
				k = ctxVal{x, g.ctx}
			}
		case retNode:
			if x.fn == g.ctxFn {
				k = ctxRet{x.fn, x.i, g.ctx}
			}
		case tupleNode:
			if valueParent(x.tup) == g.ctxFn {
				k = ctxVal{x.tup, g.ctx} // tuple components merged in clones
			}
		}
	}
	if i, ok := g.ids[k]; ok {
		return i
	}
	i := len(g.nodes)
	g.ids[k] = i
	g.nodes = append(g.nodes, k)
	g.succ = append(g.succ, nil)
	g.pred = append(g.pred, nil)
	g.succC = append(g.succC, nil)
	g.succV = append(g.succV, nil)
	return i
}

func (g *depGraph) edge(dst, src any) {
	if dst == nil || src == nil {
		return
	}
	if v, ok := src.(ssa.Value); ok {
		if _, isConst := v.(*ssa.Const); isConst {
			return
		}
		if types.TypeString(v.Type(), nil) == "context.Context" {
			return // cancellation contexts carry no request data
		}
		if _, isFn := v.(*ssa.Function); isFn {
			return
		}
		if _, isB := v.(*ssa.Builtin); isB {
			return
		}
	}
	d, s := g.id(dst), g.id(src)
	if d == s {
		return
	}
	if g.contentOnly {
		g.succC[s] = append(g.succC[s], int32(d))
	} else {
		g.succ[s] = append(g.succ[s], int32(d))
	}
	if g.valuePreserving {
		g.succV[s] = append(g.succV[s], int32(d))
	}
	g.pred[d] = append(g.pred[d], int32(s))
}

// edgeID adds dst <- src by node id (src value, if given, is filtered like edge()).
func (g *depGraph) edgeID(d, s int, srcVal ssa.Value) {
	if srcVal != nil {
		switch srcVal.(type) {
		case *ssa.Const, *ssa.Function, *ssa.Builtin:
			return
		}
	}
	if d == s {
		return
	}
	g.succ[s] = append(g.succ[s], int32(d))
	g.succV[s] = append(g.succV[s], int32(d)) // parameter / result links preserve the value
	g.pred[d] = append(g.pred[d], int32(s))
}

type fieldNode string  // "F:app.ResponseConfig.StartTimeS"
// pointer and pointee share one node: a store through pointer v taints v, a load through v depends on v
func contentNode_(v ssa.Value) any { return v }

func fieldNodeOf(t types.Type, idx int) fieldNode {
	return fieldNode("F:" + structFieldOf(t, idx))
}

// Phase separation: a store executed only at start-up (class S) cannot carry
// request data, and request-time stores cannot influence what start-up code
// read earlier. The graph therefore contains only functions that can execute
// while serving (reachable from the H/G roots); data filled at start-up appears
// as untainted field leaves.
func (g *depGraph) fieldStoreNodes(t types.Type, idx int) []any {
	return []any{fieldNodeOf(t, idx)}
}

func (g *depGraph) fieldLoadNodes(t types.Type, idx int) []any {
	return []any{fieldNodeOf(t, idx)}
}

func (g *depGraph) inH(fn *ssa.Function) bool {
	if fn == nil {
		return true
	}
	_, ok := g.p.reachH[fn]
	return ok
}

var purePkgs = map[string]bool{
	"strings": true, "strconv": true, "math": true, "path": true, "path/filepath": true, "errors": true,
	"unicode": true, "unicode/utf8": true, "time": true, "regexp": true, "net/url": true, "html": true,
	"mime": true, "math/bits": true, "slices": true, "maps": true, "cmp": true,
}

// untaintedResults: library functions whose result content is selected by, not
// computed from, their arguments (file contents, clock).
var selectionFuncs = map[string]bool{
	"io/fs.ReadFile": true, "os.ReadFile": true, "os.Open": true, "os.Stat": true, "io/fs.Stat": true,
	"time.Now": true, "os.Create": true, "os.OpenFile": true, "(io/fs.FS).Open": true, "os.ReadDir": true, "io/fs.ReadDir": true,
	"os.Getenv": true,
}

// isRepoStruct: (pointer to) a struct type declared in the repository. All
// writes to its fields are visible as field stores, except reflective decoding,
// which is modelled by deepFieldNodes.
func isRepoStruct(t types.Type) bool {
	if p, ok := t.Underlying().(*types.Pointer); ok {
		t = p.Elem()
	}
	n, ok := t.(*types.Named)
	if !ok {
		return false
	}
	if _, ok := n.Underlying().(*types.Struct); !ok {
		return false
	}
	return n.Obj().Pkg() != nil && isRepoPkgPath(n.Obj().Pkg().Path())
}

// deepFieldNodes lists the field nodes of a repository struct type reachable
// through nested repository structs, pointers, slices, arrays and maps.
func deepFieldNodes(t types.Type, seen map[types.Type]bool, out *[]any) {
	if seen[t] {
		return
	}
	seen[t] = true
	switch u := t.(type) {
	case *types.Pointer:
		deepFieldNodes(u.Elem(), seen, out)
		return
	case *types.Slice:
		deepFieldNodes(u.Elem(), seen, out)
		return
	case *types.Array:
		deepFieldNodes(u.Elem(), seen, out)
		return
	case *types.Map:
		deepFieldNodes(u.Elem(), seen, out)
		return
	}
	if !isRepoStruct(t) {
		if st, ok := t.Underlying().(*types.Struct); ok && t == t.Underlying() {
			// anonymous struct (huma Body struct{...}): fields are addressed through the enclosing named type
			for i := 0; i < st.NumFields(); i++ {
				*out = append(*out, fieldNodeOf(t, i))
				deepFieldNodes(st.Field(i).Type(), seen, out)
			}
		}
		return
	}
	st := t.Underlying().(*types.Struct)
	for i := 0; i < st.NumFields(); i++ {
		*out = append(*out, fieldNodeOf(t, i))
		deepFieldNodes(st.Field(i).Type(), seen, out)
	}
}

func isPointerLike(t types.Type) bool {
	switch t.Underlying().(type) {
	case *types.Pointer, *types.Slice, *types.Map, *types.Interface, *types.Chan, *types.Signature:
		return true
	}
	return false
}

func calleePkgPath(f *ssa.Function) string {
	if pk := fnPkg(f); pk != nil {
		return pk.Path()
	}
	return ""
}

func buildDepGraph(p *Program, side string) *depGraph {
	g := &depGraph{p: p, ids: map[any]int{}, writesThrough: map[*ssa.Function]map[int]bool{}, side: side, funcs: map[*ssa.Function]bool{}}
	var fns []*ssa.Function
	for fn := range p.AllFuncs {
		if len(fn.Blocks) == 0 {
			continue
		}
		if _, serving := p.reachH[fn]; !serving {
			continue // start-up only
		}
		pk := calleePkgPath(fn)
		if isRepoPkgPath(pk) {
			if s := sideOfPkg(pk); s != "" && s != side {
				continue
			}
		} else if !isTransparentLib(pk) {
			continue
		}
		fns = append(fns, fn)
		g.funcs[fn] = true
	}
	sort.Slice(fns, func(i, j int) bool { return fns[i].String() < fns[j].String() })
	g.computeLeaves(fns)
	g.computeWritesThrough(fns)
	for _, fn := range fns {
		g.addFunc(fn)
	}
	return g
}

// rootsOfAddr returns the graph nodes that receive a store through addr.
func (g *depGraph) storeTargets(addr ssa.Value, depth int) []any {
	if depth > 8 {
		return []any{contentNode_(addr)}
	}
	switch x := addr.(type) {
	case *ssa.FieldAddr:
		return g.fieldStoreNodes(x.X.Type(), x.Field)
	case *ssa.IndexAddr:
		// element of slice/array: the container value and whatever the container was loaded from
		out := []any{ssa.Value(x.X)}
		out = append(out, g.containerOrigins(x.X, depth+1)...)
		return out
	case *ssa.Alloc:
		return []any{ssa.Value(x)}
	case *ssa.Global:
		return []any{ssa.Value(x)}
	default:
		return []any{contentNode_(addr)}
	}
}

// containerOrigins: where did this slice/map/pointer value come from (so that
// stores into it are visible to later loads of the same field/global).
func (g *depGraph) containerOrigins(v ssa.Value, depth int) []any {
	if depth > 8 {
		return nil
	}
	switch x := v.(type) {
	case *ssa.UnOp:
		if x.Op == token.MUL {
			return g.storeTargets(x.X, depth+1)
		}
	case *ssa.Slice:
		out := []any{ssa.Value(x.X)}
		return append(out, g.containerOrigins(x.X, depth+1)...)
	case *ssa.Field:
		return g.fieldStoreNodes(x.X.Type(), x.Field)
	case *ssa.ChangeType:
		return g.containerOrigins(x.X, depth+1)
	case *ssa.Phi:
		var out []any
		for _, e := range x.Edges {
			out = append(out, ssa.Value(e))
		}
		return out
	case *ssa.Alloc:
		return []any{ssa.Value(x)}
	}
	return nil
}

// computeWritesThrough: fixpoint of "function may store through memory reachable from parameter i".
func (g *depGraph) computeWritesThrough(fns []*ssa.Function) {
	// derivedFrom[v] = set of param indices v's address derives from
	paramOf := func(fn *ssa.Function) map[ssa.Value]int {
		m := map[ssa.Value]int{}
		for i, prm := range fn.Params {
			m[prm] = i
		}
		return m
	}
	// baseParams: parameters whose reachable memory the address/value v derives from
	// (memoised per function, visited-set against phi cycles).
	bpCache := map[ssa.Value][]int{}
	var bpWalk func(v ssa.Value, pm map[ssa.Value]int, seen map[ssa.Value]bool, out map[int]bool)
	bpWalk = func(v ssa.Value, pm map[ssa.Value]int, seen map[ssa.Value]bool, out map[int]bool) {
		if v == nil || seen[v] {
			return
		}
		seen[v] = true
		if i, ok := pm[v]; ok {
			out[i] = true
			return
		}
		switch x := v.(type) {
		case *ssa.FieldAddr:
			bpWalk(x.X, pm, seen, out)
		case *ssa.IndexAddr:
			bpWalk(x.X, pm, seen, out)
		case *ssa.UnOp:
			if x.Op == token.MUL {
				bpWalk(x.X, pm, seen, out)
			}
		case *ssa.Slice:
			bpWalk(x.X, pm, seen, out)
		case *ssa.ChangeType:
			bpWalk(x.X, pm, seen, out)
		case *ssa.MakeInterface:
			bpWalk(x.X, pm, seen, out)
		case *ssa.Field:
			bpWalk(x.X, pm, seen, out)
		case *ssa.Lookup:
			bpWalk(x.X, pm, seen, out)
		case *ssa.Phi:
			for _, e := range x.Edges {
				bpWalk(e, pm, seen, out)
			}
		}
	}
	baseParams := func(v ssa.Value, pm map[ssa.Value]int, depth int) []int {
		if r, ok := bpCache[v]; ok {
			return r
		}
		out := map[int]bool{}
		bpWalk(v, pm, map[ssa.Value]bool{}, out)
		var r []int
		for i := range out {
			r = append(r, i)
		}
		bpCache[v] = r
		return r
	}
	mark := func(fn *ssa.Function, i int) bool {
		m := g.writesThrough[fn]
		if m == nil {
			m = map[int]bool{}
			g.writesThrough[fn] = m
		}
		if m[i] {
			return false
		}
		m[i] = true
		return true
	}
	changed := true
	for iter := 0; changed && iter < 20; iter++ {
		changed = false
		for _, fn := range fns {
			pm := paramOf(fn)
			for _, b := range fn.Blocks {
				for _, in := range b.Instrs {
					switch x := in.(type) {
					case *ssa.Store:
						if _, isAlloc := x.Addr.(*ssa.Alloc); isAlloc {
							continue
						}
						for _, i := range baseParams(x.Addr, pm, 0) {
							if mark(fn, i) {
								changed = true
							}
						}
					case *ssa.MapUpdate:
						for _, i := range baseParams(x.Map, pm, 0) {
							if mark(fn, i) {
								changed = true
							}
						}
					case ssa.CallInstruction:
						cc := x.Common()
						callees := g.p.calleesAt(x)
						args := cc.Args
						if cc.IsInvoke() {
							args = append([]ssa.Value{cc.Value}, args...)
						}
						for ai, a := range args {
							if !isPointerLike(a.Type()) {
								continue
							}
							bps := baseParams(a, pm, 0)
							if len(bps) == 0 {
								continue
							}
							writes := false
							if len(callees) == 0 {
								writes = !g.pureOpaqueCall(cc)
								if _, isB := cc.Value.(*ssa.Builtin); isB && ai != 0 {
									writes = false // copy/append/delete/clear write their first argument only
								}
							}
							for _, callee := range callees {
								if g.inGraph(callee) {
									if g.writesThrough[callee][ai] {
										writes = true
									}
								} else if !g.pureOpaque(callee) && !(ai > 0 && readOnlyArgsCallee("", cc)) {
									writes = true
								}
							}
							if writes {
								for _, i := range bps {
									if mark(fn, i) {
										changed = true
									}
								}
							}
						}
					}
				}
			}
		}
	}
}

func (g *depGraph) pureOpaque(callee *ssa.Function) bool {
	pk := calleePkgPath(callee)
	if purePkgs[pk] {
		return true
	}
	n := callee.String()
	if pk == "fmt" {
		return strings.HasPrefix(n, "fmt.Sprint") || n == "fmt.Errorf"
	}
	if pk == "log/slog" {
		return true // logging does not write to its arguments
	}
	return false
}

// readOnlyArgsCallee: opaque callees that may modify their receiver / first
// argument (a writer, buffer, encoder, logger, header map) but by contract never
// the remaining arguments (io.Writer: "Write must not modify the slice data").
func readOnlyArgsCallee(name string, cc *ssa.CallCommon) bool {
	m := ""
	if cc.IsInvoke() {
		m = cc.Method.Name()
	} else if f := cc.StaticCallee(); f != nil {
		m = f.Name()
	}
	switch {
	case strings.HasPrefix(m, "Write"), strings.HasPrefix(m, "Print"), strings.HasPrefix(m, "Fprint"),
		strings.HasPrefix(m, "Encode"), strings.HasPrefix(m, "Marshal"),
		m == "Set", m == "Add", m == "Del", m == "Error", m == "Info", m == "Debug", m == "Warn", m == "Log", m == "With",
		m == "Sum", m == "Execute", m == "ExecuteTemplate", m == "Do", m == "NewRequest", m == "NewRequestWithContext":
		return true
	}
	return false
}

func (g *depGraph) pureOpaqueCall(cc *ssa.CallCommon) bool {
	if _, ok := cc.Value.(*ssa.Builtin); ok {
		b := cc.Value.(*ssa.Builtin).Name()
		return b != "copy" && b != "append" && b != "delete" && b != "clear"
	}
	return false
}

// computeLeaves: small functions without calls into analysed code are cloned
// per call site (one level of context sensitivity: Ptr[T], getters, duration()).
func (g *depGraph) computeLeaves(fns []*ssa.Function) {
	g.leaf = map[*ssa.Function]bool{}
	for _, fn := range fns {
		n := 0
		ok := len(fn.FreeVars) == 0
		for _, b := range fn.Blocks {
			n += len(b.Instrs)
			for _, in := range b.Instrs {
				switch x := in.(type) {
				case ssa.CallInstruction:
					for _, c := range g.p.calleesAt(x) {
						if g.funcs[c] {
							ok = false
						}
					}
					if _, isGo := in.(*ssa.Go); isGo {
						ok = false
					}
				case *ssa.MakeClosure:
					ok = false
				}
			}
		}
		if ok && n <= 80 {
			g.leaf[fn] = true
		}
	}
}

func (g *depGraph) cloneCallee(callee *ssa.Function, site ssa.CallInstruction) {
	saveCur, saveCtx, saveFn := g.cur, g.ctx, g.ctxFn
	g.cur, g.ctx, g.ctxFn = callee, site, callee
	for _, b := range callee.Blocks {
		for _, in := range b.Instrs {
			g.addInstr(callee, in)
		}
	}
	g.cur, g.ctx, g.ctxFn = saveCur, saveCtx, saveFn
}

func (g *depGraph) addFunc(fn *ssa.Function) {
	g.cur = fn
	for _, b := range fn.Blocks {
		for _, in := range b.Instrs {
			g.addInstr(fn, in)
		}
	}
}

func (g *depGraph) addInstr(fn *ssa.Function, in ssa.Instruction) {
	g.valuePreserving = isValuePreserving(in)
	defer func() { g.valuePreserving = false }()
	switch x := in.(type) {
	case *ssa.Store:
		_, elem := x.Addr.(*ssa.IndexAddr)
		g.contentOnly = elem // storing an element does not change the container's length
		for _, t := range g.storeTargets(x.Addr, 0) {
			g.edge(t, x.Val)
		}
		g.contentOnly = false
	case *ssa.MapUpdate:
		// values and keys are kept apart: a request-chosen key does not make the stored values request data
		g.edge(ssa.Value(x.Map), x.Value)
		g.edge(mapKeys{ssa.Value(x.Map)}, x.Key)
		for _, t := range g.containerOrigins(x.Map, 0) {
			g.edge(t, x.Value)
			g.edge(mapKeys{t}, x.Key)
		}
	case *ssa.Send:
		g.edge(contentNode_(x.Chan), x.X)
		for _, t := range g.containerOrigins(x.Chan, 0) {
			g.edge(t, x.X)
		}
	case *ssa.Return:
		for i, res := range x.Results {
			g.edge(retNode{fn, i}, res)
		}
	case *ssa.Go:
		g.addCall(fn, x, nil)
	case *ssa.Defer:
		g.addCall(fn, x, nil)
	}
	v, ok := in.(ssa.Value)
	if !ok {
		return
	}
	switch x := v.(type) {
	case *ssa.Call:
		g.addCall(fn, x, x)
	case *ssa.BinOp:
		g.edge(v, x.X)
		g.edge(v, x.Y)
	case *ssa.UnOp:
		if x.Op == token.MUL {
			// load
			switch a := x.X.(type) {
			case *ssa.FieldAddr:
				for _, fnode := range g.fieldLoadNodes(a.X.Type(), a.Field) {
					g.edge(v, fnode)
				}
				if !isRepoStruct(a.X.Type()) {
					g.edge(v, ssa.Value(a.X)) // library objects: whole-object taint (decoded request data)
				}
			case *ssa.IndexAddr:
				g.edge(v, ssa.Value(a.X))
			default:
				g.edge(v, ssa.Value(x.X))
				g.edge(v, contentNode_(x.X))
			}
		} else if x.Op == token.ARROW {
			g.edge(v, contentNode_(x.X))
			g.edge(v, ssa.Value(x.X))
			for _, t := range g.containerOrigins(x.X, 0) {
				g.edge(v, t)
			}
		} else {
			g.edge(v, x.X)
		}
	case *ssa.FieldAddr:
		if !isRepoStruct(x.X.Type()) {
			g.edge(v, x.X)
		}
	case *ssa.Field:
		if !isRepoStruct(x.X.Type()) {
			g.edge(v, x.X)
		}
		for _, fnode := range g.fieldLoadNodes(x.X.Type(), x.Field) {
			g.edge(v, fnode)
		}
	case *ssa.IndexAddr:
		g.edge(v, x.X)
	case *ssa.Index:
		g.edge(v, x.X)
	case *ssa.Lookup:
		g.edge(v, x.X)
		if _, isStr := x.X.Type().Underlying().(*types.Basic); isStr {
			g.edge(v, x.Index)
		}
	case *ssa.Slice:
		g.edge(v, x.X)
		if x.Low != nil {
			g.edge(v, x.Low)
		}
		if x.High != nil {
			g.edge(v, x.High)
		}
	case *ssa.Convert:
		g.edge(v, x.X)
	case *ssa.ChangeType:
		g.edge(v, x.X)
	case *ssa.ChangeInterface:
		g.edge(v, x.X)
	case *ssa.MakeInterface:
		g.edge(v, x.X)
	case *ssa.TypeAssert:
		g.edge(v, x.X)
	case *ssa.SliceToArrayPointer:
		g.edge(v, x.X)
	case *ssa.Phi:
		for _, e := range x.Edges {
			g.edge(v, e)
		}
	case *ssa.Extract:
		if nx, ok := x.Tuple.(*ssa.Next); ok && !nx.IsString {
			if rng, ok := nx.Iter.(*ssa.Range); ok {
				switch x.Index {
				case 1: // key
					g.edge(v, mapKeys{ssa.Value(rng.X)})
					for _, t := range g.containerOrigins(rng.X, 0) {
						g.edge(v, mapKeys{t})
					}
				case 2:
					g.edge(v, rng.X)
				}
				return
			}
		}
		g.edge(v, tupleNode{x.Tuple, x.Index})
		if _, isCall := x.Tuple.(*ssa.Call); !isCall {
			g.edge(v, x.Tuple)
		}
	case *ssa.Range:
		g.edge(v, x.X)
	case *ssa.Next:
		g.edge(v, x.Iter)
	case *ssa.MakeClosure:
		if f, ok := x.Fn.(*ssa.Function); ok {
			for i, bnd := range x.Bindings {
				if i < len(f.FreeVars) {
					g.edge(ssa.Value(f.FreeVars[i]), bnd)
					if isPointerLike(bnd.Type()) {
						g.edge(bnd, ssa.Value(f.FreeVars[i])) // closures write through captured variables
					}
				}
			}
		}
	case *ssa.MakeSlice:
		g.edge(v, x.Len)
	case *ssa.Select:
		for _, st := range x.States {
			if st.Dir == types.RecvOnly {
				g.edge(v, contentNode_(st.Chan))
				for _, t := range g.containerOrigins(st.Chan, 0) {
					g.edge(v, t)
				}
			} else if st.Send != nil {
				g.edge(contentNode_(st.Chan), st.Send)
				for _, t := range g.containerOrigins(st.Chan, 0) {
					g.edge(t, st.Send)
				}
			}
		}
	}
}

// isValuePreserving: the instruction's result is its operand's value (up to an
// integer conversion or +- a constant), or moves the value through memory.
func isValuePreserving(in ssa.Instruction) bool {
	switch x := in.(type) {
	case *ssa.Store, *ssa.Return, *ssa.Phi, *ssa.ChangeType, *ssa.MakeInterface, *ssa.TypeAssert, *ssa.Extract, *ssa.Field, *ssa.ChangeInterface:
		return true
	case *ssa.Convert:
		bs, ok1 := x.X.Type().Underlying().(*types.Basic)
		bt, ok2 := x.Type().Underlying().(*types.Basic)
		return ok1 && ok2 && bs.Info()&types.IsNumeric != 0 && bt.Info()&types.IsNumeric != 0
	case *ssa.UnOp:
		return x.Op == token.MUL || x.Op == token.SUB
	case *ssa.BinOp:
		if x.Op == token.ADD || x.Op == token.SUB {
			_, cx := x.X.(*ssa.Const)
			_, cy := x.Y.(*ssa.Const)
			return cx || cy
		}
	case *ssa.Call:
		// calls into analysed functions link params/results (value preserving); opaque calls are not
		return false
	}
	return false
}

type mapKeys struct{ of any }

type retNode struct {
	fn *ssa.Function
	i  int
}
type tupleNode struct {
	tup ssa.Value
	i   int
}

func (g *depGraph) addCall(fn *ssa.Function, site ssa.CallInstruction, val *ssa.Call) {
	cc := site.Common()
	if b, ok := cc.Value.(*ssa.Builtin); ok {
		switch b.Name() {
		case "append":
			if val != nil {
				for _, a := range cc.Args {
					g.edge(ssa.Value(val), a)
				}
			}
		case "copy":
			if len(cc.Args) == 2 {
				g.contentOnly = true
				g.edge(ssa.Value(cc.Args[0]), cc.Args[1])
				for _, t := range g.containerOrigins(cc.Args[0], 0) {
					g.edge(t, cc.Args[1])
				}
				g.contentOnly = false
			}
		case "len", "cap", "min", "max", "real", "imag", "complex":
			if val != nil {
				for _, a := range cc.Args {
					g.edge(ssa.Value(val), a)
				}
			}
		}
		return
	}
	callees := g.p.calleesAt(site)
	args := cc.Args
	var recvExtra ssa.Value
	if cc.IsInvoke() {
		recvExtra = cc.Value
	}
	handled := false
	for _, callee := range callees {
		if g.inGraph(callee) && g.leaf[callee] && g.ctx == nil {
			// clone for this call site; link actuals and result to the clone
			handled = true
			g.cloneCallee(callee, site)
			full := args
			if recvExtra != nil {
				full = append([]ssa.Value{recvExtra}, args...)
			}
			for i, prm := range callee.Params {
				if i < len(full) {
					g.edgeID(g.id(ctxVal{prm, site}), g.id(full[i]), full[i])
					g.edge(ssa.Value(prm), full[i]) // merged copy for sinks inside the callee
					if isPointerLike(prm.Type()) && g.writesThrough[callee][i] {
						g.edgeID(g.id(full[i]), g.id(ctxVal{prm, site}), nil)
						for _, t := range g.containerOrigins(full[i], 0) {
							g.edgeID(g.id(t), g.id(ctxVal{prm, site}), nil)
						}
					}
				}
			}
			if val != nil {
				if tup, ok := val.Type().(*types.Tuple); ok {
					for i := 0; i < tup.Len(); i++ {
						g.edgeID(g.id(tupleNode{val, i}), g.id(ctxRet{callee, i, site}), nil)
					}
				} else {
					g.edgeID(g.id(ssa.Value(val)), g.id(ctxRet{callee, 0, site}), nil)
				}
			}
			continue
		}
		if g.inGraph(callee) {
			handled = true
			saveVP := g.valuePreserving
			g.valuePreserving = true
			defer func() { g.valuePreserving = saveVP }()
			params := callee.Params
			full := args
			if recvExtra != nil {
				full = append([]ssa.Value{recvExtra}, args...)
			}
			for i, prm := range params {
				if i < len(full) {
					g.edge(ssa.Value(prm), full[i])
					if isPointerLike(prm.Type()) && g.writesThrough[callee][i] {
						g.edge(full[i], ssa.Value(prm))
						for _, t := range g.containerOrigins(full[i], 0) {
							g.edge(t, ssa.Value(prm))
						}
					}
				}
			}
			if val != nil {
				n := 1
				if tup, ok := val.Type().(*types.Tuple); ok {
					n = tup.Len()
					for i := 0; i < n; i++ {
						g.edge(tupleNode{val, i}, retNode{callee, i})
					}
				} else {
					g.edge(ssa.Value(val), retNode{callee, 0})
				}
			}
		}
	}
	// Calls from repository code into a transparent data library: besides the precise
	// linking above, the result is the decoded/derived form of the arguments as a whole
	// (a decoded box tree is request data when the reader is), which pointer results of
	// constructors inside the library would otherwise hide. Receiver side only: there every
	// decoded object stems from an upload, whereas livesim2 builds library objects from VoD data
	// and request values side by side and a field-based heap would merge them.
	if handled && val != nil && g.p.isRepoFunc(fn) && g.side == "recv" {
		for _, callee := range callees {
			if g.inGraph(callee) && !g.p.isRepoFunc(callee) {
				full := args
				if recvExtra != nil {
					full = append([]ssa.Value{recvExtra}, args...)
				}
				if tup, ok := val.Type().(*types.Tuple); ok {
					for i := 0; i < tup.Len(); i++ {
						for _, a := range full {
							g.edge(tupleNode{val, i}, a)
						}
					}
				} else {
					for _, a := range full {
						g.edge(ssa.Value(val), a)
					}
				}
				break
			}
		}
	}
	if handled && len(callees) > 0 {
		// also opaque callees among the set? fallthrough only when none handled
		allRepo := true
		for _, callee := range callees {
			if !g.inGraph(callee) {
				allRepo = false
			}
		}
		if allRepo {
			return
		}
	}
	// opaque call (library, or unresolved dynamic call)
	name := ""
	pure := false
	if len(callees) > 0 {
		name = callees[0].String()
		pure = true
		for _, c := range callees {
			if !g.inGraph(c) && !g.pureOpaque(c) {
				pure = false
			}
		}
	}
	if cc.IsInvoke() {
		name = "(" + types.TypeString(cc.Value.Type(), nil) + ")." + cc.Method.Name()
	}
	full := args
	if recvExtra != nil {
		full = append([]ssa.Value{recvExtra}, args...)
	}
	if val != nil && !selectionFuncs[name] {
		if tup, ok := val.Type().(*types.Tuple); ok {
			for i := 0; i < tup.Len(); i++ {
				for _, a := range full {
					g.edge(tupleNode{val, i}, a)
				}
			}
		} else {
			for _, a := range full {
				g.edge(ssa.Value(val), a)
			}
		}
	}
	if !pure {
		for i, a := range full {
			if !isPointerLike(a.Type()) {
				continue
			}
			if i > 0 && readOnlyArgsCallee(name, cc) {
				continue // writers, loggers, encoders do not modify their data arguments
			}
			// reflective decoding into a repository struct (json.Unmarshal(data, &v), Decode(&v))
			var deep []any
			at := a.Type()
			if mi, ok := a.(*ssa.MakeInterface); ok {
				at = mi.X.Type()
			}
			if _, isPtr := at.Underlying().(*types.Pointer); isPtr {
				deepFieldNodes(at, map[types.Type]bool{}, &deep)
			}
			for j, b := range full {
				if i == j {
					continue
				}
				g.edge(contentNode_(a), b)
				g.edge(ssa.Value(a), b)
				for _, t := range g.containerOrigins(a, 0) {
					g.edge(t, b)
				}
				for _, t := range deep {
					g.edge(t, b)
				}
			}
		}
	}
	// closures passed to library functions are invoked by them with library data:
	// results of the closure flow back to the call's result
	for _, a := range full {
		for _, f := range unwrapFuncValues(a, 0) {
			if f != nil && g.inGraph(f) && val != nil {
				for i := 0; i < f.Signature.Results().Len(); i++ {
					g.edge(ssa.Value(val), retNode{f, i})
				}
			}
		}
	}
}

// ------------------------------------------------------------ taint

// markSources marks request-controlled values: *http.Request parameters of H
// roots and the input struct of huma handlers.
func (g *depGraph) markSources() {
	for _, rt := range g.p.Roots {
		if rt.Class != "H" || !g.funcs[rt.Fn] {
			continue
		}
		for i, prm := range rt.Fn.Params {
			ts := types.TypeString(prm.Type(), nil)
			if ts == "*net/http.Request" {
				g.sources = append(g.sources, g.id(ssa.Value(prm)))
			}
			if isHumaHandlerType(rt.Fn.Signature) && i == len(rt.Fn.Params)-1 {
				g.sources = append(g.sources, g.id(ssa.Value(prm)))
				var deep []any
				deepFieldNodes(prm.Type(), map[types.Type]bool{}, &deep)
				for _, d := range deep {
					g.sources = append(g.sources, g.id(d))
				}
			}
		}
	}
	// every *http.Request parameter of a handler-reachable repository function
	// is request data as well (helpers called by library routers)
	for fn := range g.p.reachH {
		if !g.p.isRepoFunc(fn) || !g.funcs[fn] {
			continue
		}
		for _, prm := range fn.Params {
			if types.TypeString(prm.Type(), nil) == "*net/http.Request" {
				g.sources = append(g.sources, g.id(ssa.Value(prm)))
			}
		}
	}
}

// propagateShape: like taint, but element stores do not flow into containers.
func (g *depGraph) propagateShape() {
	g.shape = make([]bool, len(g.nodes))
	g.shapeBy = make([]int32, len(g.nodes))
	for i := range g.shapeBy {
		g.shapeBy[i] = -1
	}
	var q []int
	for _, s := range g.sources {
		if !g.shape[s] {
			g.shape[s] = true
			q = append(q, s)
		}
	}
	for len(q) > 0 {
		n := q[0]
		q = q[1:]
		for _, d := range g.succ[n] {
			if !g.shape[d] {
				g.shape[d] = true
				g.shapeBy[d] = int32(n)
				q = append(q, int(d))
			}
		}
	}
}

func (g *depGraph) shapeTrail(v ssa.Value, max int) []string {
	i, ok := g.ids[v]
	if !ok {
		return nil
	}
	var out []string
	for n := i; n >= 0 && len(out) < max; n = int(g.shapeBy[n]) {
		out = append(out, g.nodeString(n))
	}
	return out
}

func (g *depGraph) isShapeTainted(v ssa.Value) bool {
	if v == nil {
		return false
	}
	i, ok := g.ids[v]
	return ok && g.shape[i]
}

// directSources: results of number parsers and searches applied to request data.
var parseFuncs = map[string]bool{
	"strconv.Atoi": true, "strconv.ParseInt": true, "strconv.ParseUint": true, "strconv.ParseFloat": true,
	"sort.Search": true, "sort.SearchInts": true,
	"encoding/binary.bigEndian.Uint32": true, "encoding/binary.bigEndian.Uint64": true, "encoding/binary.bigEndian.Uint16": true,
	"(encoding/binary.bigEndian).Uint32": true, "(encoding/binary.bigEndian).Uint64": true, "(encoding/binary.bigEndian).Uint16": true,
}

func (g *depGraph) propagateDirect() {
	g.direct = make([]bool, len(g.nodes))
	g.directBy = make([]int32, len(g.nodes))
	for i := range g.directBy {
		g.directBy[i] = -1
	}
	var q []int
	cur := -1
	mark := func(n int) {
		if !g.direct[n] {
			g.direct[n] = true
			g.directBy[n] = int32(cur)
			q = append(q, n)
		}
	}
	for k, n := range g.ids {
		var call *ssa.Call
		switch x := k.(type) {
		case ssa.Value:
			call, _ = x.(*ssa.Call)
		case tupleNode:
			if x.i == 0 {
				call, _ = x.tup.(*ssa.Call)
			}
		case ctxVal:
			call, _ = x.v.(*ssa.Call)
		}
		if call == nil {
			continue
		}
		callee := call.Call.StaticCallee()
		if callee == nil || !parseFuncs[callee.String()] {
			continue
		}
		if g.side != "recv" && strings.Contains(callee.String(), "encoding/binary") {
			continue // livesim2 never decodes request bytes as binary media (only its own VoD / re-encoded data)
		}
		if g.tainted[n] {
			mark(n)
		}
	}
	// decoded numeric fields of request-derived library objects (upload): a field
	// load from a tainted library object is as direct as a parsed number
	for k, n := range g.ids {
		if g.side != "recv" {
			break // livesim2 decodes no request bytes into library objects
		}
		v, ok := k.(ssa.Value)
		if !ok || !g.tainted[n] {
			continue
		}
		if u, ok := v.(*ssa.UnOp); ok && u.Op == token.MUL {
			if fa, ok := u.X.(*ssa.FieldAddr); ok && !isRepoStruct(fa.X.Type()) {
				if bt, ok := v.Type().Underlying().(*types.Basic); ok && bt.Info()&types.IsInteger != 0 {
					mark(n)
				}
			}
		}
	}
	for len(q) > 0 {
		n := q[0]
		q = q[1:]
		cur = n
		for _, d := range g.succV[n] {
			mark(int(d))
		}
	}
}

func (g *depGraph) directTrail(v ssa.Value, max int) []string {
	i, ok := g.ids[v]
	if !ok || !g.direct[i] {
		return nil
	}
	var out []string
	for n := i; n >= 0 && len(out) < max; n = int(g.directBy[n]) {
		out = append(out, g.nodeString(n))
	}
	return out
}

func (g *depGraph) isDirect(v ssa.Value) bool {
	if v == nil {
		return false
	}
	i, ok := g.ids[v]
	return ok && g.direct[i]
}

func (g *depGraph) propagateTaint() {
	defer g.propagateDirect()
	g.propagateShape()
	g.tainted = make([]bool, len(g.nodes))
	g.taintBy = make([]int32, len(g.nodes))
	for i := range g.taintBy {
		g.taintBy[i] = -1
	}
	var q []int
	for _, s := range g.sources {
		if !g.tainted[s] {
			g.tainted[s] = true
			q = append(q, s)
		}
	}
	for len(q) > 0 {
		n := q[0]
		q = q[1:]
		for _, l := range [][]int32{g.succ[n], g.succC[n]} {
			for _, d := range l {
				if !g.tainted[d] {
					g.tainted[d] = true
					g.taintBy[d] = int32(n)
					q = append(q, int(d))
				}
			}
		}
	}
}

func (g *depGraph) isTainted(v ssa.Value) bool {
	if v == nil {
		return false
	}
	if _, ok := v.(*ssa.Const); ok {
		return false
	}
	i, ok := g.ids[v]
	if !ok {
		return false
	}
	return g.tainted[i]
}

// taintTrail explains why a value is tainted (chain back to a source).
func (g *depGraph) taintTrail(v ssa.Value, max int) []string {
	i, ok := g.ids[v]
	if !ok {
		return nil
	}
	var out []string
	for n := i; n >= 0 && len(out) < max; n = int(g.taintBy[n]) {
		out = append(out, g.nodeString(n))
	}
	return out
}

func (g *depGraph) nodeString(n int) string {
	switch k := g.nodes[n].(type) {
	case fieldNode:
		return string(k)
	case retNode:
		return "ret:" + shortFn(k.fn)
	case mapKeys:
		return "keys-of-map"
	case ctxRet:
		return "ret@site:" + shortFn(k.fn)
	case ctxVal:
		return "clone:" + shortFn(valueParent(k.v)) + ":" + k.v.Name()
	case tupleNode:
		return "tuple:" + k.tup.Name()
	case ssa.Value:
		s := k.Name()
		if in, ok := k.(ssa.Instruction); ok && in.Parent() != nil {
			s = shortFn(in.Parent()) + ":" + s
		} else if prm, ok := k.(*ssa.Parameter); ok && prm.Parent() != nil {
			s = shortFn(prm.Parent()) + ":param " + s
		}
		return s
	}
	return "?"
}

// ------------------------------------------------------------ backward slices (E4)

// leavesOf returns the set of field nodes (and other leaf descriptors) the value may depend on.
func (g *depGraph) dependsOnField(v ssa.Value, field string) bool {
	start, ok := g.ids[v]
	if !ok {
		return false
	}
	if target, ok := g.ids[fieldNode("F:"+field)]; ok && g.reachesBackward(start, target) {
		return true
	}
	return false
}

func (g *depGraph) reachesBackward(start, target int) bool {
	seen := map[int]bool{start: true}
	q := []int{start}
	for len(q) > 0 {
		n := q[0]
		q = q[1:]
		if n == target {
			return true
		}
		for _, s := range g.pred[n] {
			if !seen[int(s)] {
				seen[int(s)] = true
				q = append(q, int(s))
			}
		}
	}
	return false
}

// fieldLeaves lists the struct fields in the backward slice of v (sorted).
func (g *depGraph) fieldLeaves(v ssa.Value) []string {
	start, ok := g.ids[v]
	if !ok {
		return nil
	}
	seen := map[int]bool{start: true}
	q := []int{start}
	set := map[string]bool{}
	for len(q) > 0 {
		n := q[0]
		q = q[1:]
		if f, ok := g.nodes[n].(fieldNode); ok {
			set[strings.TrimSuffix(strings.TrimSuffix(strings.TrimPrefix(string(f), "F:"), "@S"), "@H")] = true
		}
		for _, s := range g.pred[n] {
			if !seen[int(s)] {
				seen[int(s)] = true
				q = append(q, int(s))
			}
		}
	}
	var out []string
	for k := range set {
		out = append(out, k)
	}
	sort.Strings(out)
	return out
}
