package main

import (
	"fmt"
	"strings"

	"golang.org/x/tools/go/ssa"
)

func init() { register("C03", checkC03) }

func checkC03(p *Program, r *Reporter) {
	unitsRuleByName(p, r, "createAudioSegment", "(*asset).generateTimelineEntriesFromRef")
	r.Explanation = "Static analysis of structural necessary conditions of C03: (a) the audio times the MPD declares (generateTimelineEntriesFromRef) and the audio times at which segments are cut (calcAudioSegRecipe) are produced by the same boundary function calcAudioTimeFromRef, fed with a reference time, the reference timescale, a frame duration and a timescale that come from the reference entries / reference segment and from the audio representation; " +
		"(b) every time the MPD side emits (first t and every duration) and both segment boundaries are results of that function; (c) the served audio segment's metadata and decode time come from the recipe (start = recipe start, duration = recipe end − start, number = reference number). " +
		"That segments abut, the frame count, the identity of frames and the padding at the loop end are not decided. The two sides take the frame duration from different fields by design (declared default vs measured constant); their equality is a load-time matter and is not decided."
	r.NotCovered = "abutting segments over all n and across wraps, (end-start)/frameDuration frames, frame identity, padding, equality of the declared and the measured frame duration"
	r.Assumptions = []string{"dependence slices over-approximate: a missing dependence is definite"}
	bfn := p.mustFunc(r, pkgApp, "calcAudioTimeFromRef")
	mpdSide := p.mustFunc(r, pkgApp, "(*asset).generateTimelineEntriesFromRef")
	segSide := p.mustFunc(r, pkgApp, "calcAudioSegRecipe")
	cas := p.mustFunc(r, pkgApp, "createAudioSegment")
	if bfn == nil || mpdSide == nil || segSide == nil || cas == nil {
		return
	}
	r.Rule("E4-SAMEBOUNDARY", "MPD side and segment side compute audio boundaries with the same function, from the reference and the audio representation", 8)
	argSources := map[*ssa.Function][][]string{
		// refTime, refTimescale, frameDur, audioTimescale
		mpdSide: {{"mpd.S.T", "mpd.S.D"}, {"app.segEntries.mediaTimescale"}, {"app.RepData.DefaultSampleDuration", "app.RepData.ConstantSampleDuration", "app.RepData.Codecs"}, {"app.RepData.MediaTimescale"}},
		segSide: {{"param:refStart", "param:refEnd", "param:refTotalDur"}, {"param:refTimescale"}, {"app.RepData.ConstantSampleDuration", "app.RepData.DefaultSampleDuration"}, {"app.RepData.MediaTimescale"}},
	}
	dependsAny := func(fn *ssa.Function, v ssa.Value, srcs []string) bool {
		for _, src := range srcs {
			var q *depQuery
			if strings.HasPrefix(src, "param:") {
				for _, pr := range fn.Params {
					if pr.Name() == strings.TrimPrefix(src, "param:") {
						q = newDepQueryLocal(p, onParam(pr))
					}
				}
			} else {
				q = newDepQueryLocal(p, onField(src))
			}
			if q != nil && q.depends(v, 0) {
				return true
			}
		}
		return false
	}
	names := []string{"refTime", "refTimescale", "frameDur", "audioTimescale"}
	for _, fn := range []*ssa.Function{mpdSide, segSide} {
		n := 0
		for _, s := range callsTo(p, bfn) {
			if !inCluster(fn, s.Parent()) {
				continue
			}
			n++
			for i, srcs := range argSources[fn] {
				ok := dependsAny(s.Parent(), s.Common().Args[i], srcs)
				r.Decide(ok, "E4-SAMEBOUNDARY", shortFn(fn), fmt.Sprintf("calcAudioTimeFromRef.%s", names[i]), p.pos(s.Pos()), "depends on "+strings.Join(srcs, " / "),
					fmt.Sprintf("argument %s of the boundary function cannot depend on %s", names[i], strings.Join(srcs, " / ")), nil)
			}
		}
		if n == 0 {
			r.Violate("E4-SAMEBOUNDARY", shortFn(fn), "calls:calcAudioTimeFromRef", p.pos(fn.Pos()), "this side no longer computes audio boundaries with calcAudioTimeFromRef: declared and served audio times come from different arithmetic", nil)
		}
	}
	// (b) emitted times are results of the boundary function
	r.Rule("E4-EMITTED", "every emitted audio time is a result of the boundary function", 4)
	// all-paths: the value is a boundary result (or a sum/difference of boundary results) whichever way it was reached
	var isBoundaryResult func(v ssa.Value) bool
	seenBR := map[ssa.Value]bool{}
	isBoundaryResult = func(v ssa.Value) bool {
		if done, ok := seenBR[v]; ok {
			return done // a cycle through a loop phi: judged on its other edges
		}
		seenBR[v] = true
		res := false
		switch x := v.(type) {
		case *ssa.Call:
			res = x.Call.StaticCallee() == bfn
		case *ssa.Phi:
			res = true
			for _, e := range x.Edges {
				if !isBoundaryResult(e) {
					res = false
				}
			}
		case *ssa.BinOp:
			_, cx := x.X.(*ssa.Const)
			_, cy := x.Y.(*ssa.Const)
			res = (cx || isBoundaryResult(x.X)) && (cy || isBoundaryResult(x.Y)) && !(cx && cy)
		case *ssa.Convert:
			res = isBoundaryResult(x.X)
		case *ssa.ChangeType:
			res = isBoundaryResult(x.X)
		case *ssa.UnOp:
			// load of a local cell: every store into it
			if al, ok := x.X.(*ssa.Alloc); ok && al.Referrers() != nil {
				res = true
				n := 0
				for _, ref := range *al.Referrers() {
					if st, ok := ref.(*ssa.Store); ok && st.Addr == ssa.Value(al) {
						n++
						if !isBoundaryResult(st.Val) {
							res = false
						}
					}
				}
				res = res && n > 0
			}
		}
		seenBR[v] = res
		return res
	}
	for _, b := range mpdSide.Blocks {
		for _, in := range b.Instrs {
			st, ok := in.(*ssa.Store)
			if !ok {
				continue
			}
			f, ok := fieldOfAddr(st.Addr)
			if !ok || (f != "mpd.S.T" && f != "mpd.S.D") {
				continue
			}
			val := st.Val
			if c, ok := val.(*ssa.Call); ok && c.Call.StaticCallee() != nil && c.Call.StaticCallee() != bfn && len(c.Call.Args) == 1 {
				val = c.Call.Args[0] // Ptr(t)
			}
			r.Decide(isBoundaryResult(val), "E4-EMITTED", shortFn(mpdSide), "store:"+f, p.pos(st.Pos()), "derived from calcAudioTimeFromRef results on every path",
				"the MPD emits an audio "+f+" that is not derived from the boundary function", nil)
		}
	}
	for _, b := range segSide.Blocks {
		for _, in := range b.Instrs {
			st, ok := in.(*ssa.Store)
			if !ok {
				continue
			}
			f, ok := fieldOfAddr(st.Addr)
			if !ok || (f != "app.audioRecipe.startTime" && f != "app.audioRecipe.endTime") {
				continue
			}
			r.Decide(isBoundaryResult(st.Val), "E4-EMITTED", shortFn(segSide), "store:"+f, p.pos(st.Pos()), "a calcAudioTimeFromRef result",
				"the recipe's "+f+" is not a result of the boundary function", nil)
		}
	}
	// (c) served metadata from the recipe
	r.Rule("E4-FROMRECIPE", "served audio segment: time, duration and number come from the recipe", 3)
	stores := metaFieldStores(cas)
	recipeSources := map[string][]string{
		"app.segMeta.newTime": {"app.audioRecipe.startTime"},
		"app.segMeta.newDur":  {"app.audioRecipe.startTime", "app.audioRecipe.endTime"},
		"app.segMeta.newNr":   {"app.audioRecipe.segNr"},
	}
	for _, f := range []string{"app.segMeta.newTime", "app.segMeta.newDur", "app.segMeta.newNr"} {
		srcs := recipeSources[f]
		if len(stores[f]) == 0 {
			r.Violate("E4-FROMRECIPE", shortFn(cas), "field:"+f, p.pos(cas.Pos()), "createAudioSegment no longer fills "+f, nil)
			continue
		}
		for _, src := range srcs {
			ok := true
			for _, ms := range stores[f] {
				q := newDepQueryLocal(p, onField(src))
				q.bind = ms.bind
				if !q.depends(ms.st.Val, 0) {
					ok = false
				}
			}
			r.Decide(ok, "E4-FROMRECIPE", shortFn(cas), "field:"+strings.TrimPrefix(f, "app.segMeta.")+"<-"+strings.TrimPrefix(src, "app.audioRecipe."), p.pos(stores[f][0].st.Pos()), "depends on "+src,
				f+" of the served audio segment cannot depend on "+src, nil)
		}
	}
}
