package main

import (
	"strings"
	"flag"
	"fmt"
	"os"
	"runtime/debug"
	"sort"
	"strconv"
)

type propFunc func(p *Program, r *Reporter)

var registry = map[string]propFunc{}

func register(id string, f propFunc) { registry[id] = f }

func main() {
	repo := flag.String("repo", "/repo", "repository working tree to analyse")
	prop := flag.String("prop", "", "property id (C02..C20) or 'roots'/'dump'")
	tier := flag.String("tier", "quick", "quick|thorough")
	out := flag.String("out", "/verif/evidence", "evidence directory")
	known := flag.String("known", "/verif/known_findings.json", "known findings file")
	cg := flag.String("cg", "vta", "call graph: vta|cha")
	arg := flag.String("arg", "", "extra argument for debug commands")
	flag.Parse()
	seed := 0
	if s := os.Getenv("VERIF_SEED"); s != "" {
		if n, err := strconv.Atoi(s); err == nil {
			seed = n
		}
	}
	if t := os.Getenv("VERIF_TIER"); t == "quick" || t == "thorough" {
		if *tier == "" {
			*tier = t
		}
	}
	code := run(*repo, *prop, *tier, seed, *out, *known, *cg, *arg)
	os.Exit(code)
}

func run(repo, prop, tier string, seed int, out, known, cg, arg string) (code int) {
	var r *Reporter
	defer func() {
		if e := recover(); e != nil {
			fmt.Printf("CHECK-BROKEN property=%s reason=analyzer panic: %v\n%s\n", prop, e, debug.Stack())
			code = 2
		}
	}()
	p, err := loadProgram(repo, cg)
	if err != nil {
		fmt.Printf("CHECK-BROKEN property=%s reason=%v\n", prop, err)
		return 2
	}
	switch prop {
	case "roots":
		for _, rt := range p.Roots {
			fmt.Printf("%s %s  (%s)\n", rt.Class, rt.Fn, rt.Why)
		}
		fmt.Printf("%d roots, %d reachable repo funcs, %d funcs total\n", len(p.Roots), len(p.handlerReachableRepoFuncs()), len(p.AllFuncs))
		return 0
	case "taint":
		return debugTaint(p, arg)
	case "range":
		return debugRange(p, arg)
	case "acc":
		return debugAccesses(p, arg)
	case "origin":
		return debugOrigin(p, arg)
	case "units":
		return debugUnits(p, arg)
	case "errdisc":
		return debugErrDisc(p, arg)
	case "dep":
		return debugDep(p, arg)
	case "dump":
		return debugDump(p, arg)
	}
	if prop == "all" || strings.Contains(prop, ",") {
		// several checks on one loaded program (used by the self-test; each property keeps its own evidence file)
		var ids []string
		if prop == "all" {
			for id := range registry {
				ids = append(ids, id)
			}
		} else {
			ids = strings.Split(prop, ",")
		}
		sort.Strings(ids)
		worst := 0
		for _, id := range ids {
			f, ok := registry[id]
			if !ok {
				fmt.Printf("CHECK-BROKEN property=%s reason=no such check\n", id)
				worst = 2
				continue
			}
			c := func() (c int) {
				defer func() {
					if e := recover(); e != nil {
						fmt.Printf("CHECK-BROKEN property=%s reason=analyzer panic: %v\n%s\n", id, e, debug.Stack())
						c = 2
					}
				}()
				rr := newReporter(id, tier, seed, out, known)
				f(p, rr)
				return rr.Finish(p)
			}()
			if c > worst {
				worst = c
			}
		}
		return worst
	}
	f, ok := registry[prop]
	if !ok {
		var ids []string
		for id := range registry {
			ids = append(ids, id)
		}
		sort.Strings(ids)
		fmt.Printf("CHECK-BROKEN property=%s reason=no such check (have %v)\n", prop, ids)
		return 2
	}
	r = newReporter(prop, tier, seed, out, known)
	if len(p.Roots) < 24 {
		r.Broken("only %d entry roots found (floor 24)", len(p.Roots))
	}
	f(p, r)
	if tier == "thorough" && cg == "vta" {
		// second verdict with CHA reachability: differences are reported, and
		// violations found only under CHA are violations too (CHA over-approximates).
		p2, err := loadProgram(repo, "cha")
		if err != nil {
			r.Broken("CHA reload failed: %v", err)
		} else {
			r2 := newReporter(prop, tier, seed, out, known)
			f(p2, r2)
			a, b := map[string]string{}, map[string]string{}
			for _, o := range r.obls {
				a[o.Key] = o.Status
			}
			for _, o := range r2.obls {
				b[o.Key] = o.Status
			}
			var diff []string
			for k, s := range b {
				if a[k] != s {
					diff = append(diff, fmt.Sprintf("%s: vta=%q cha=%q", k, a[k], s))
				}
			}
			for k, s := range a {
				if _, ok := b[k]; !ok {
					diff = append(diff, fmt.Sprintf("%s: vta=%q cha=absent", k, s))
				}
			}
			sort.Strings(diff)
			r.Extra["cha_differences"] = diff
			r.Extra["cha_obligations"] = len(r2.obls)
			r.Extra["call_graph"] = "vta+cha"
		}
	}
	return r.Finish(p)
}
