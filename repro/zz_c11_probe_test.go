// Reproduction: the patch advertised in an MPD with text adaptation sets cannot be produced.
// go test -vet=off -run TestProbeC11 ./cmd/livesim2/app
package app

import (
	"context"
	"net/http/httptest"
	"regexp"
	"strings"
	"testing"

	"github.com/Dash-Industry-Forum/livesim2/pkg/logging"
)

func TestProbeC11PatchWithTextAdaptationSets(t *testing.T) {
	cfg := ServerConfig{VodRoot: "testdata/assets", TimeoutS: 0, LogFormat: logging.LogDiscard}
	_ = logging.InitSlog(cfg.LogLevel, cfg.LogFormat)
	s, err := SetupServer(context.Background(), &cfg)
	if err != nil {
		t.Fatal(err)
	}
	w := httptest.NewRecorder()
	s.livesimHandlerFunc(w, httptest.NewRequest("GET", "/livesim2/segtimeline_1/patch_60/testpic_2s/Manifest_imsc1.mpd?nowMS=100000", nil))
	if w.Code != 200 {
		t.Fatalf("MPD status %d", w.Code)
	}
	m := regexp.MustCompile(`<PatchLocation[^>]*>([^<]+)</PatchLocation>`).FindStringSubmatch(w.Body.String())
	if m == nil {
		t.Fatal("no PatchLocation in MPD")
	}
	loc := strings.ReplaceAll(m[1], "&amp;", "&")
	w2 := httptest.NewRecorder()
	s.patchHandlerFunc(w2, httptest.NewRequest("GET", loc+"&nowMS=110000", nil))
	t.Logf("patch %s -> %d %.60q", loc, w2.Code, w2.Body.String())
	if w2.Code != 200 {
		t.Fatalf("advertised patch location answers %d, want 200", w2.Code)
	}
}
