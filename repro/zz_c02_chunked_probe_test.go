package app

import (
	"context"
	"net/http/httptest"
	"testing"

	"github.com/Dash-Industry-Forum/livesim2/pkg/logging"
)

// A thumbnail requested in low-latency (chunked) mode must be answered like in whole-segment mode.
func TestProbeC09ImageInChunkedMode(t *testing.T) {
	cfg := ServerConfig{VodRoot: "testdata/assets", TimeoutS: 0, LogFormat: logging.LogDiscard}
	_ = logging.InitSlog(cfg.LogLevel, cfg.LogFormat)
	s, err := SetupServer(context.Background(), &cfg)
	if err != nil {
		t.Fatal(err)
	}
	get := func(url string) (int, int) {
		w := httptest.NewRecorder()
		s.livesimHandlerFunc(w, httptest.NewRequest("GET", url, nil))
		return w.Code, w.Body.Len()
	}
	c1, l1 := get("/livesim2/testpic_2s/thumbs/300.jpg?nowMS=610000")
	c2, l2 := get("/livesim2/ato_1/chunkdur_1/ltgt_3000/testpic_2s/thumbs/300.jpg?nowMS=610000")
	t.Logf("whole: %d (%d bytes) chunked: %d (%d bytes)", c1, l1, c2, l2)
	if c1 != 200 || c2 != 200 || l1 != l2 {
		t.Fatalf("whole-segment mode %d/%d bytes, low-latency mode %d/%d bytes", c1, l1, c2, l2)
	}
}

func TestProbeC02TimeSubsInChunkedMode(t *testing.T) {
	cfg := ServerConfig{VodRoot: "testdata/assets", TimeoutS: 0, LogFormat: logging.LogDiscard}
	_ = logging.InitSlog(cfg.LogLevel, cfg.LogFormat)
	s, err := SetupServer(context.Background(), &cfg)
	if err != nil {
		t.Fatal(err)
	}
	get := func(url string) (int, int) {
		w := httptest.NewRecorder()
		s.livesimHandlerFunc(w, httptest.NewRequest("GET", url, nil))
		return w.Code, w.Body.Len()
	}
	c1, l1 := get("/livesim2/timesubsstpp_en/testpic_2s/timestpp-en/300.m4s?nowMS=610000")
	c2, l2 := get("/livesim2/ato_1/chunkdur_1/ltgt_3000/timesubsstpp_en/testpic_2s/timestpp-en/300.m4s?nowMS=610000")
	t.Logf("whole: %d (%d bytes) chunked: %d (%d bytes)", c1, l1, c2, l2)
	if c1 != 200 || c2 != 200 || l1 != l2 {
		t.Fatalf("whole-segment mode %d/%d bytes, low-latency mode %d/%d bytes", c1, l1, c2, l2)
	}
}
