package main

import (
	"fmt"
	"go/token"
	"strings"

	"golang.org/x/tools/go/ssa"
)

func init() { register("C13", checkC13) }


// globalBase: the package-level variable an address is derived from (through field/index selection), if any.
func globalBase(addr ssa.Value) *ssa.Global {
	for depth := 0; depth < 10; depth++ {
		switch x := addr.(type) {
		case *ssa.Global:
			return x
		case *ssa.FieldAddr:
			addr = x.X
		case *ssa.IndexAddr:
			addr = x.X
		case *ssa.UnOp:
			if x.Op != token.MUL {
				return nil
			}
			addr = x.X
		default:
			return nil
		}
	}
	return nil
}

// packagePurity: the functions of a package neither write package-level variables nor read ones that are written after initialisation.
func packagePurity(p *Program, r *Reporter, rule, pkgPath string) {
	fns := pkgFuncs(p, pkgPath)
	written := map[*ssa.Global][]ssa.Instruction{}
	for _, fn := range p.allRepoFuncs() {
		if fn.Name() == "init" || fn.Synthetic != "" && fn.Name() == "init" {
			continue
		}
		for _, b := range fn.Blocks {
			for _, in := range b.Instrs {
				switch x := in.(type) {
				case *ssa.Store:
					if g := globalBase(x.Addr); g != nil && g.Pkg != nil && g.Pkg.Pkg.Path() == pkgPath {
						written[g] = append(written[g], in)
					}
				case *ssa.MapUpdate:
					if g := globalBase(x.Map); g != nil && g.Pkg != nil && g.Pkg.Pkg.Path() == pkgPath {
						written[g] = append(written[g], in)
					}
				}
			}
		}
	}
	n := 0
	for _, fn := range fns {
		if fn.Name() == "init" {
			continue
		}
		n++
		bad := ""
		pos := p.pos(fn.Pos())
		for _, b := range fn.Blocks {
			for _, in := range b.Instrs {
				for _, op := range in.Operands(nil) {
					g, ok := (*op).(*ssa.Global)
					if !ok || g.Pkg == nil || g.Pkg.Pkg.Path() != pkgPath {
						continue
					}
					if ws := written[g]; len(ws) > 0 {
						bad = fmt.Sprintf("uses package variable %s, which is written at %s", g.Name(), p.pos(instrPos(ws[0])))
						pos = p.pos(instrPos(in))
					}
				}
			}
		}
		r.Decide(bad == "", rule, shortFn(fn), "pure", pos, "touches no package-level variable that is written after initialisation",
			"the result can depend on earlier calls: "+bad, nil)
	}
	if n == 0 {
		r.Broken("no functions found in %s", pkgPath)
	}
}

func checkC13(p *Program, r *Reporter) {
	unitsRuleByName(p, r, "genLiveSegment")
	r.Explanation = "Static analysis of structural necessary conditions of C13: (a) events-per-minute values other than 1, 2, 3 are rejected: the validator's error is returned on all non-nil paths both in the configuration check and in the event constructor; " +
		"(b) events are constructed only for video (the constructor call is control-dependent on contentType == video and on the setting being present) and attached only when one was returned; the interval handed to the constructor depends on the segment's own start time and duration and on the media timescale; " +
		"(c) the MPD announces the in-band event stream exactly under 'video' and 'setting present' (no other condition but loops), with the scheme constant the events carry; (d) the SCTE-35 package keeps no state between calls; its divisions have divisors that are not request-controlled zero. " +
		"Offsets, exactly-once per minute, PTS wrap and CRC are not decided."
	r.NotCovered = "event offsets within the minute, exactly-once over the sequence of segments, PTS modulo 2^33, CRC-32 validity, break durations"
	r.Assumptions = []string{"control dependence with error-only exits pruned", "dependence slices over-approximate (missing dependence is definite)"}
	cea := p.mustFunc(r, pkgScte, "CreateEmsgAhead")
	valid := p.mustFunc(r, pkgScte, "IsValidSCTE35Interval")
	gen := p.mustFunc(r, pkgApp, "genLiveSegment")
	live := p.mustFunc(r, pkgApp, "LiveMPD")
	if cea == nil || valid == nil || gen == nil || live == nil {
		return
	}
	// (a) validation
	r.Rule("E5-VALIDATED", "the events-per-minute validator's error is returned wherever it is called", 2)
	sites := callsTo(p, valid)
	inCfg := false
	for _, s := range sites {
		c, ok := s.(*ssa.Call)
		if !ok {
			continue
		}
		if shortFn(s.Parent()) == "app.verifyAndFillConfig" {
			inCfg = true
		}
		okRet, why := errorReturnedWhenNonNil(c)
		r.Decide(okRet, "E5-VALIDATED", shortFn(s.Parent()), "err<-IsValidSCTE35Interval", p.pos(s.Pos()), why, "an invalid events-per-minute value is not rejected here: "+why, nil)
	}
	if !inCfg {
		r.Violate("E5-VALIDATED", "app.verifyAndFillConfig", "calls:IsValidSCTE35Interval", "-", "the configuration check no longer validates scte35 events per minute: other values reach the MPD generator", nil)
	}
	// (b) video only
	r.Rule("E5-VIDEOONLY", "SCTE-35 events constructed for video segments only, from the segment's own interval", 5)
	for _, s := range callsTo(p, cea) {
		fn := s.Parent()
		if sideOfPkg(calleePkgPath(fn)) == "recv" {
			continue
		}
		hasVideo, hasSetting := false, false
		for _, cd := range effectiveCDeps(s.Block(), true) {
			if bo, ok := cd.V.(*ssa.BinOp); ok && cd.Pos {
				if bo.Op == token.EQL {
					if cs, ok := constString(bo.Y); ok && cs == "video" {
						hasVideo = true
					}
					if cs, ok := constString(bo.X); ok && cs == "video" {
						hasVideo = true
					}
				}
				if bo.Op == token.NEQ {
					for _, side := range []ssa.Value{bo.X, bo.Y} {
						if f, ok := loadedField(side); ok && f == "app.ResponseConfig.SCTE35PerMinute" {
							hasSetting = true
						}
					}
				}
			}
		}
		r.Decide(hasVideo, "E5-VIDEOONLY", shortFn(fn), "call:CreateEmsgAhead|video", p.pos(s.Pos()), "control-dependent on contentType == \"video\"",
			"events are constructed for representations that are not video", nil)
		r.Decide(hasSetting, "E5-VIDEOONLY", shortFn(fn), "call:CreateEmsgAhead|setting", p.pos(s.Pos()), "control-dependent on the setting being present",
			"events are constructed although scte35 insertion was not requested", nil)
		args := s.Common().Args
		want := []struct {
			idx   int
			field string
		}{{0, "app.segMeta.newTime"}, {1, "app.segMeta.newTime"}, {1, "app.segMeta.newDur"}, {2, "app.segMeta.timescale"}, {3, "app.ResponseConfig.SCTE35PerMinute"}}
		for _, w := range want {
			base := onField(w.field)
			owner := w.field[:strings.LastIndex(w.field, ".")]
			q := newDepQueryLocal(p, func(v ssa.Value) bool {
				if base(v) {
					return true
				}
				// the whole metadata struct handed on (to a helper) counts as using the field
				if c, ok := v.(*ssa.Call); ok {
					for _, a := range c.Call.Args {
						if n := namedStructOf(a.Type()); n != nil && typeID(n) == owner {
							return true
						}
					}
				}
				return false
			})
			q.intra = true // the interval must be read from this segment's metadata in this very function
			r.Decide(q.depends(args[w.idx], 0), "E5-VIDEOONLY", shortFn(fn), fmt.Sprintf("CreateEmsgAhead.arg%d<-%s", w.idx, w.field), p.pos(s.Pos()), "depends on "+w.field,
				fmt.Sprintf("argument %d of the event constructor cannot depend on %s: the announce-window test does not use this segment's own interval", w.idx, w.field), nil)
		}
	}
	// (c) MPD signalling
	r.Rule("E5-INBAND", "InbandEventStream announced exactly under 'video' and 'setting present', with the events' scheme", 2)
	var emsgScheme, mpdScheme string
	for _, b := range cea.Blocks {
		for _, in := range b.Instrs {
			if st, ok := in.(*ssa.Store); ok {
				if f, ok := fieldOfAddr(st.Addr); ok && f == "mp4.EmsgBox.SchemeIDURI" {
					emsgScheme, _ = constString(st.Val)
				}
			}
		}
	}
	nInband := 0
	for _, fn := range livesimFuncs(p) {
		for _, b := range fn.Blocks {
			for _, in := range b.Instrs {
				st, ok := in.(*ssa.Store)
				if !ok {
					continue
				}
				f, ok := fieldOfAddr(st.Addr)
				if ok && f == "mpd.EventStreamType.SchemeIdUri" {
					if s, ok := constString(st.Val); ok {
						mpdScheme = s
					}
				}
				if !ok || !strings.HasSuffix(f, ".InbandEventStreams") {
					continue
				}
				nInband++
				hasVideo, hasSetting := false, false
				okCtl, bad := onlyAllowedControl(p, b, func(c cond) bool {
					bo, ok := c.V.(*ssa.BinOp)
					if !ok || !c.Pos {
						return false
					}
					if bo.Op == token.EQL {
						for _, side := range []ssa.Value{bo.X, bo.Y} {
							if cs, ok := constString(side); ok && cs == "video" {
								hasVideo = true
								return true
							}
						}
					}
					if bo.Op == token.NEQ {
						for _, side := range []ssa.Value{bo.X, bo.Y} {
							if f, ok := loadedField(side); ok && f == "app.ResponseConfig.SCTE35PerMinute" {
								hasSetting = true
								return true
							}
						}
					}
					return false
				})
				switch {
				case !okCtl:
					r.Violate("E5-INBAND", shortFn(fn), "store:InbandEventStreams", p.pos(st.Pos()), "the in-band event stream is announced only under the further condition "+bad+": some MPDs carry events that they do not announce", nil)
				case !hasVideo || !hasSetting:
					r.Violate("E5-INBAND", shortFn(fn), "store:InbandEventStreams", p.pos(st.Pos()), "the in-band event stream is announced without testing 'video' and 'scte35 requested'", nil)
				default:
					r.Discharge("E5-INBAND", shortFn(fn), "store:InbandEventStreams", p.pos(st.Pos()), "control-dependent on contentType == video, the setting being present, and loops only")
				}
			}
		}
	}
	if nInband == 0 {
		r.Violate("E5-INBAND", shortFn(live), "store:InbandEventStreams", p.pos(live.Pos()), "the MPD generator no longer announces the in-band event stream", nil)
	}
	r.Decide(emsgScheme != "" && emsgScheme == mpdScheme, "E5-INBAND", shortFn(cea), "scheme-agreement", p.pos(cea.Pos()), "both sides use "+emsgScheme,
		fmt.Sprintf("the MPD announces scheme %q but the events carry %q", mpdScheme, emsgScheme), nil)
	// (c2) the low-latency path rebuilds the fragments from samples: the events of the source segment
	// must be handed over to a chunk, or the event is lost exactly when the segment is delivered in chunks
	r.Rule("E5-CHUNKEVENTS", "the chunked delivery path carries the event boxes of the generated segment over to a chunk", 1)
	if cs := p.mustFunc(r, pkgApp, "chunkSegment"); cs != nil {
		var segPrm *ssa.Parameter
		for _, prm := range cs.Params {
			if strings.HasSuffix(prm.Type().String(), "mp4.MediaSegment") {
				segPrm = prm
			}
		}
		carried, fromChildren := 0, 0
		var at token.Pos = cs.Pos()
		for _, fn := range cluster(cs) {
			for _, b := range fn.Blocks {
				for _, in := range b.Instrs {
					c, ok := in.(*ssa.Call)
					if !ok || c.Call.StaticCallee() == nil {
						continue
					}
					callee := c.Call.StaticCallee()
					if !(callee.Name() == "AddEmsg" || callee.Name() == "AddChild") || !strings.Contains(callee.String(), "mp4.Fragment)") || len(c.Call.Args) < 2 {
						continue
					}
					arg := c.Call.Args[1]
					if mi, ok := arg.(*ssa.MakeInterface); ok {
						arg = mi.X
					}
					if !strings.HasSuffix(arg.Type().String(), "mp4.EmsgBox") {
						continue
					}
					if segPrm != nil && localDependsOnParam(p, arg, segPrm) {
						carried++
						at = c.Pos()
						// the generator attaches its event with Fragment.AddEmsg, which puts the box into
						// Fragment.Children only: a reader of Fragment.Emsgs never sees it
						q := newDepQuery(p, onField("mp4.Fragment.Children"))
						q.noParams = true
						if q.depends(arg, 0) {
							fromChildren++
						}
					}
				}
			}
		}
		producerUsesAddEmsg := false
		for _, fn := range cluster(gen) {
			for _, b := range fn.Blocks {
				for _, in := range b.Instrs {
					if c, ok := in.(*ssa.Call); ok && c.Call.StaticCallee() != nil && c.Call.StaticCallee().Name() == "AddEmsg" {
						producerUsesAddEmsg = true
					}
				}
			}
		}
		if carried > 0 && producerUsesAddEmsg {
			r.Decide(fromChildren > 0, "E5-CHUNKEVENTS", shortFn(cs), "emsg-source", p.pos(at), "the boxes are taken from Fragment.Children, where Fragment.AddEmsg puts them",
				"the chunk splitter takes the event boxes from Fragment.Emsgs, but the segment generator attaches its event with Fragment.AddEmsg, which updates Fragment.Children only: the generated event is never found", nil)
		}
		r.Decide(carried > 0, "E5-CHUNKEVENTS", shortFn(cs), "emsg-carried-over", p.pos(at), "an event box taken from the source segment is added to a chunk fragment",
			"chunkSegment builds the chunks from the samples only: emsg boxes (SCTE-35 events) attached to the generated segment are dropped in low-latency mode", nil)
	}
	// (d) purity and divisions
	r.Rule("E2-PURE", "pkg/scte35 keeps no state between calls", 3)
	packagePurity(p, r, "E2-PURE", pkgScte)
	e := sharedE3(p, r)
	r.Rule("E3-A", "divisions of the SCTE-35 arithmetic", 2)
	e.classA("E3-A", pkgFuncs(p, pkgScte))
}
