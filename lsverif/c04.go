package main

import (
	"fmt"
	"go/token"
	"sort"
	"strings"

	"golang.org/x/tools/go/ssa"
)

func init() { register("C04", checkC04); register("C02", checkC02) }

// availabilityArgs checks the call sites of CheckTimeValidity (shared by C02 and C04).
func availabilityArgs(p *Program, r *Reporter, rule string) {
	ctv := p.mustFunc(r, pkgApp, "CheckTimeValidity")
	if ctv == nil {
		return
	}
	sites := callsTo(p, ctv)
	r.Rule(rule, "every call of the availability test: availTime depends on the start time, the window on tsbd, the offset on ato, now on the handler's nowMS", 12)
	for _, s := range sites {
		fn := s.Parent()
		args := s.Common().Args
		want := []struct {
			idx   int
			field string
			what  string
		}{
			{0, "app.ResponseConfig.StartTimeS", "availabilityStartTime"},
			{2, "app.ResponseConfig.TimeShiftBufferDepthS", "timeShiftBufferDepth"},
			{3, "app.ResponseConfig.AvailabilityTimeOffsetS", "availabilityTimeOffset"},
		}
		for _, w := range want {
			ok := valueDependsOnField(p, args[w.idx], w.field)
			r.Decide(ok, rule, shortFn(fn), fmt.Sprintf("CheckTimeValidity.arg%d<-%s", w.idx, w.field), p.pos(s.Pos()),
				"argument is computed from "+w.field,
				fmt.Sprintf("argument %d of the availability test in %s cannot depend on %s: the segment server would ignore %s on this addressing path while the MPD honours it", w.idx, shortFn(fn), w.field, w.what), nil)
		}
		// now: depends on a nowMS parameter of the enclosing function
		okNow := false
		for _, prm := range fn.Params {
			if prm.Name() == "nowMS" && valueDependsOnParam(p, args[1], prm) {
				okNow = true
			}
		}
		r.Decide(okNow, rule, shortFn(fn), "CheckTimeValidity.arg1<-nowMS", p.pos(s.Pos()), "now is derived from the request's nowMS",
			"the 'now' argument of the availability test does not depend on the function's nowMS parameter", nil)
	}
}

func livesimFuncs(p *Program) []*ssa.Function {
	var out []*ssa.Function
	for _, fn := range p.allRepoFuncs() {
		if sideOfPkg(calleePkgPath(fn)) != "recv" && sideOfPkg(calleePkgPath(fn)) != "dashfetcher" {
			out = append(out, fn)
		}
	}
	return out
}

func checkC04(p *Program, r *Reporter) {
	unitsRuleByName(p, r, "cfgFromRequest", "writeSegment", "findSegMetaFromNr", "findSegMetaFromTime", "findRefSegMetaFromTime", "calcSegmentAvailabilityTime")
	r.Explanation = "Static analysis of structural necessary conditions of C04: (a) E5 sentinel propagation: every error that may carry not-found / too-early / gone is returned on all non-nil paths of every error-returning function " +
		"between the segment lookup and the HTTP handler, wrapped only with %w, and the handler's errors.Is/As branches answer 404 / 425 / 410; (b) E4: every call of the availability test receives an availability time that depends on the start time, " +
		"a window that depends on tsbd, an offset that depends on ato and a 'now' that depends on the request's nowMS, and the too-early error carries a remaining time that depends on ato; " +
		"(c) E3-B3: in each copy of the number->segment wrap arithmetic the index is proven non-negative (segment numbers below startNumber answer 404 on every path). " +
		"Decides these clauses for all inputs; the transition instants, monotonicity and the tsbd margin are not decided."
	r.NotCovered = "exact transition instants, monotonicity over time, millisecond value in the 425 body, tsbd margin"
	r.Assumptions = []string{"error values are propagated through returns and fmt.Errorf only", "dependence slices over-approximate (alarms are definite, silence is not a proof)"}
	fns := livesimFuncs(p)
	sentinels := map[string]bool{pkgApp + ".errNotFound": true, pkgApp + ".errGone": true}
	errTypes := map[string]bool{"app.errTooEarly": true}
	carry := mayCarrySentinel(p, fns, sentinels, errTypes)
	var carriers []string
	for fn := range carry {
		carriers = append(carriers, shortFn(fn))
	}
	sortStrings(carriers)
	r.Extra["sentinel_carrying_functions"] = carriers
	if len(carriers) < 10 {
		r.Broken("only %d functions carry a sentinel error (floor 10)", len(carriers))
	}
	r.Rule("E5-SENTINEL", "error that may carry not-found/too-early/gone: returned on all non-nil paths, wrapped only with %w", 15)
	ruleSentinelPropagation(p, r, "E5-SENTINEL", fns, carry)
	r.Rule("E5-STATUS", "handler branch for each sentinel answers the documented status", 3)
	if h := p.mustFunc(r, pkgApp, "(*Server).livesimHandlerFunc"); h != nil {
		ruleStatusTable(p, r, "E5-STATUS", h, map[string]int64{"errNotFound": 404, "errTooEarly": 425, "errGone": 410})
	}
	availabilityArgs(p, r, "E4-AVAIL")
	// the remaining time reported with too-early depends on ato
	if ctv := p.lookupFunc(pkgApp, "CheckTimeValidity"); ctv != nil {
		ne := p.lookupFunc(pkgApp, "newErrTooEarly")
		r.Rule("E4-REMAINING", "the too-early error's remaining time depends on the availability time, on now and on the offset", 3)
		for _, s := range callsTo(p, ne) {
			if s.Parent() != ctv {
				continue
			}
			for _, prm := range ctv.Params {
				if prm.Name() == "timeShiftBufferDepthS" {
					continue
				}
				ok := valueDependsOnParam(p, s.Common().Args[0], prm)
				r.Decide(ok, "E4-REMAINING", shortFn(ctv), "newErrTooEarly.arg<-"+prm.Name(), p.pos(s.Pos()), "depends on "+prm.Name(),
					"the remaining time stated in the 425 answer cannot depend on "+prm.Name(), nil)
			}
		}
	}
	searchConvention(p, r)
	// (c) wrap arithmetic copies
	e := sharedE3(p, r)
	var wrapFns []*ssa.Function
	for _, n := range []string{"findSegMetaFromNr", "findSegStartTime", "calcSegmentAvailabilityTime"} {
		if fn := p.mustFunc(r, pkgApp, n); fn != nil {
			wrapFns = append(wrapFns, fn)
		}
	}
	r.Rule("E3-B2", "wrap arithmetic (nr-startNr) mod len: index proven within bounds, i.e. numbers below startNumber are refused first", 3)
	r.Rule("E3-B1", "", 0)
	r.Rule("E3-Bx", "", 0)
	e.classB("E3-B", wrapFns)
	belowStartRule(p, r, wrapFns)
	exactEarlyRule(p, r)
	if h := p.mustFunc(r, pkgApp, "(*Server).livesimHandlerFunc"); h != nil {
		startGuardRule(p, r, h, "writeSegment", "writeInitSegment")
	}
}

func checkC02(p *Program, r *Reporter) {
	unitsRuleByName(p, r, "LiveMPD", "cfgFromRequest", "writeSegment", "findSegMetaFromNr", "findSegMetaFromTime", "findRefSegMetaFromTime")
	r.Explanation = "Static analysis of two agreement clauses of C02 by dependence slices (E4): (a) the availability instant used by the segment server depends on availabilityStartTime, timeShiftBufferDepth, availabilityTimeOffset and the request's now " +
		"at every call site of the availability test, i.e. in every addressing mode the MPD can advertise; (b) the segment-number -> segment mapping of the server depends on the configured start number, and so does every startNumber the MPD generator stores " +
		"(reported as a known finding where it does not). Decides these structural clauses; numeric equality of times, durations and numbers, contiguity and window edges are not decided."
	r.NotCovered = "numeric equality of declared and served times/durations/numbers, contiguity of the timeline, window edges, 425 just after the live edge"
	r.Assumptions = []string{"dependence slices over-approximate: a reported missing dependence is definite"}
	availabilityArgs(p, r, "E4-AVAIL")
	// (b) start number
	r.Rule("E4-STARTNR", "MPD startNumber stores depend on the configured start number whenever the server's number mapping does", 3)
	fm := p.mustFunc(r, pkgApp, "findSegMetaFromNr")
	if fm == nil {
		return
	}
	serverUses := false
	for _, b := range fm.Blocks {
		for _, in := range b.Instrs {
			if ia, ok := in.(*ssa.IndexAddr); ok {
				if valueDependsOnField(p, ia.Index, "app.ResponseConfig.StartNr") {
					serverUses = true
				}
			}
		}
	}
	r.Decide(serverUses, "E4-STARTNR", shortFn(fm), "index<-ResponseConfig.StartNr", p.pos(fm.Pos()), "the served segment index depends on the configured start number", "the number->segment mapping no longer depends on the start number", nil)
	live := p.mustFunc(r, pkgApp, "LiveMPD")
	if live == nil {
		return
	}
	reach := p.reachableFrom(live)
	defer func() { r.Extra["dependence_queries_exhausted"] = depExhausted }()
	for _, fn := range livesimFuncs(p) {
		if !reach[fn] {
			continue
		}
		for _, b := range fn.Blocks {
			for _, in := range b.Instrs {
				st, ok := in.(*ssa.Store)
				if !ok {
					continue
				}
				f, ok := fieldOfAddr(st.Addr)
				if !ok || f != "mpd.MultipleSegmentBaseType.StartNumber" || isNilConst(st.Val) {
					continue
				}
				q := newDepQuery(p, onField("app.ResponseConfig.StartNr"))
				okDep := q.depends(st.Val, 0)
				chain := ""
				if okDep {
					chain = " [" + strings.Join(q.explain(st.Val, 30), " <- ") + "]"
				}
				okDep = okDep || valueDependsOnField(p, st.Val, "mpd.MultipleSegmentBaseType.StartNumber")
				r.Decide(okDep, "E4-STARTNR", shortFn(fn), "store:SegmentTemplate.StartNumber", p.pos(st.Pos()), "advertised startNumber depends on the configured start number (or copies one that does)"+chain,
					"the MPD advertises a startNumber that cannot depend on the configured start number (snr_N), while the segment server subtracts it", nil)
			}
		}
	}
	// (c) the SegmentTimeline window generator
	timelineWindow(p, r)
	// (d) the two delivery modes serve the same kinds of segments
	deliverySiblings(p, r)
	// (e) "no segment yet" sentinels
	sentinelGuards(p, r)
	sentinelGuardShape(p, r)
	offsetAlwaysRule(p, r)
	offsetArgRule(p, r)
	searchConvention(p, r)
}

// sentinelGuards: the timeline generator marks "no segment available yet" by storing -1 into
// segEntries.startNr and lastSegInfo.nr. Every comparison of such a field with a constant must separate
// the sentinel (-1) from the first valid value (0); a guard that treats 0 like the sentinel drops the
// startNumber / publishTime of the very first segment.
func sentinelGuards(p *Program, r *Reporter) {
	r.Rule("E5-SENTINELGUARD", "tests of the 'no segment yet' sentinel separate -1 from the valid number 0", 2)
	fields := map[string]bool{"app.segEntries.startNr": true, "app.lastSegInfo.nr": true}
	sentinelStored := map[string]bool{}
	for _, fn := range livesimFuncs(p) {
		for _, b := range fn.Blocks {
			for _, in := range b.Instrs {
				if st, ok := in.(*ssa.Store); ok {
					if f, ok := fieldOfAddr(st.Addr); ok && fields[f] {
						if k, ok := constInt(st.Val); ok && k == -1 {
							sentinelStored[f] = true
						}
					}
				}
			}
		}
	}
	holds := func(op token.Token, v, k int64) bool {
		switch op {
		case token.LSS:
			return v < k
		case token.LEQ:
			return v <= k
		case token.GTR:
			return v > k
		case token.GEQ:
			return v >= k
		case token.EQL:
			return v == k
		case token.NEQ:
			return v != k
		}
		return false
	}
	for _, fn := range livesimFuncs(p) {
		for _, b := range fn.Blocks {
			for _, in := range b.Instrs {
				bo, ok := in.(*ssa.BinOp)
				if !ok {
					continue
				}
				switch bo.Op {
				case token.LSS, token.LEQ, token.GTR, token.GEQ, token.EQL, token.NEQ:
				default:
					continue
				}
				f, isLoad := loadedField(bo.X)
				k, isConst := constInt(bo.Y)
				if !isLoad || !isConst || !fields[f] || !sentinelStored[f] {
					continue
				}
				sep := holds(bo.Op, -1, k) != holds(bo.Op, 0, k)
				r.Decide(sep, "E5-SENTINELGUARD", shortFn(fn), "test:"+f, p.pos(bo.Pos()), "separates the sentinel -1 from the valid value 0",
					fmt.Sprintf("the test %s treats the valid number 0 like the 'no segment yet' sentinel -1 (or the sentinel like a valid number): the first segment's startNumber/publishTime is lost", bo.String()), nil)
			}
		}
	}
}

// sentinelGuardShape: a condition that decides whether a value computed from a sentinel-carrying field is
// stored (startNumber of a SegmentTimeline) and that itself depends on that field must test the field
// directly against a constant. A test of a derived value (field + configured start number) moves the
// boundary between "no segment yet" and "first segment" with the configuration.
func sentinelGuardShape(p *Program, r *Reporter) {
	r.Rule("E5-SENTINELSHAPE", "stores computed from the 'no segment yet' field are guarded by a direct test of that field", 1)
	const fld = "app.segEntries.startNr"
	for _, fn := range livesimFuncs(p) {
		for _, b := range fn.Blocks {
			for _, in := range b.Instrs {
				st, ok := in.(*ssa.Store)
				if !ok {
					continue
				}
				f, ok := fieldOfAddr(st.Addr)
				if !ok || f != "mpd.MultipleSegmentBaseType.StartNumber" || isNilConst(st.Val) {
					continue
				}
				q := newDepQuery(p, onField(fld))
				q.noParams = true
				if !q.depends(st.Val, 0) {
					continue
				}
				direct, derived := 0, ""
				for _, cd := range effectiveCDeps(b, true) {
					bo, isBin := cd.V.(*ssa.BinOp)
					if !isBin {
						continue
					}
					qc := newDepQuery(p, onField(fld))
					qc.noParams = true
					if !qc.depends(cd.V, 0) {
						continue
					}
					lf, isLoad := loadedField(bo.X)
					_, isConst := constInt(bo.Y)
					if isLoad && lf == fld && isConst {
						direct++
					} else {
						derived = bo.String() + " at " + p.pos(bo.Pos())
					}
				}
				switch {
				case derived != "":
					r.Violate("E5-SENTINELSHAPE", shortFn(fn), "guard-of:StartNumber", p.pos(st.Pos()), "the store is decided by a test of a value derived from the sentinel field ("+derived+"), not of the field itself: whether the first number counts as 'no segment yet' then depends on the configured start number", nil)
				case direct == 0:
					r.Violate("E5-SENTINELSHAPE", shortFn(fn), "guard-of:StartNumber", p.pos(st.Pos()), "a startNumber computed from the 'no segment yet' field is stored without testing the field", nil)
				default:
					r.Discharge("E5-SENTINELSHAPE", shortFn(fn), "guard-of:StartNumber", p.pos(st.Pos()), "guarded by a direct test of segEntries.startNr")
				}
			}
		}
	}
}

// deliverySiblings: whole-segment and chunked delivery are siblings behind one handler branch.
// Every content producer that whole-segment delivery calls (a repository function taking the
// ResponseWriter or returning a segOut) is also called by chunked delivery or dominates each of
// its call sites; and on the raw-data case (segOut.seg == nil) both reach a successful return.
func deliverySiblings(p *Program, r *Reporter) {
	r.Rule("E5-SIBLING", "chunked delivery serves every kind of segment that whole-segment delivery serves (generated subtitles, raw data such as thumbnails)", 4)
	whole := p.mustFunc(r, pkgApp, "writeLiveSegment")
	chunked := p.mustFunc(r, pkgApp, "writeChunkedSegment")
	if whole == nil || chunked == nil {
		return
	}
	isProducer := func(fn *ssa.Function) bool {
		if !p.isRepoFunc(fn) {
			return false
		}
		for _, prm := range fn.Params {
			if prm.Type().String() == "net/http.ResponseWriter" {
				return true
			}
		}
		res := fn.Signature.Results()
		for i := 0; i < res.Len(); i++ {
			if strings.HasSuffix(res.At(i).Type().String(), "app.segOut") {
				return true
			}
		}
		return false
	}
	callsOf := func(fn *ssa.Function) map[*ssa.Function]ssa.CallInstruction {
		out := map[*ssa.Function]ssa.CallInstruction{}
		for _, b := range fn.Blocks {
			for _, in := range b.Instrs {
				if c, ok := in.(ssa.CallInstruction); ok {
					if callee := c.Common().StaticCallee(); callee != nil {
						out[callee] = c
					}
				}
			}
		}
		return out
	}
	chunkedCalls := callsOf(chunked)
	var producers []*ssa.Function
	for callee := range callsOf(whole) {
		if isProducer(callee) {
			producers = append(producers, callee)
		}
	}
	sort.Slice(producers, func(i, j int) bool { return producers[i].String() < producers[j].String() })
	for _, prod := range producers {
		if _, ok := chunkedCalls[prod]; ok {
			r.Discharge("E5-SIBLING", shortFn(chunked), "calls:"+shortFn(prod), p.pos(chunked.Pos()), "called by chunked delivery as well")
			continue
		}
		sites := callsTo(p, chunked)
		ok := len(sites) > 0
		pos := p.pos(chunked.Pos())
		for _, s := range sites {
			dominated := false
			for _, b := range s.Parent().Blocks {
				for _, in := range b.Instrs {
					if c, isCall := in.(*ssa.Call); isCall && c.Call.StaticCallee() == prod && instrDominates(c, s.(ssa.Instruction)) {
						dominated = true
					}
				}
			}
			if !dominated {
				ok = false
				pos = p.pos(s.Pos())
			}
		}
		r.Decide(ok, "E5-SIBLING", shortFn(chunked), "calls:"+shortFn(prod), pos, "every call of chunked delivery is preceded by a call of this producer",
			"whole-segment delivery serves segments through "+shortFn(prod)+" but chunked (low-latency) delivery never tries it: segments of that kind listed by a low-latency MPD are not served", nil)
	}
	// raw-data case
	for _, fn := range []*ssa.Function{whole, chunked} {
		ff := factsOf(fn)
		found := false
		for _, b := range fn.Blocks {
			ifi, ok := b.Instrs[len(b.Instrs)-1].(*ssa.If)
			if !ok {
				continue
			}
			bo, ok := ifi.Cond.(*ssa.BinOp)
			if !ok || (bo.Op != token.EQL && bo.Op != token.NEQ) {
				continue
			}
			var ptr ssa.Value
			if isNilConst(bo.Y) {
				ptr = bo.X
			} else if isNilConst(bo.X) {
				ptr = bo.Y
			}
			if f, ok := loadedField(ptr); !ok || f != "app.segOut.seg" {
				continue
			}
			found = true
			nilSide := b.Succs[0]
			if bo.Op == token.NEQ {
				nilSide = b.Succs[1]
			}
			okSucc := !ff.errOnly[nilSide] && !isErrorExit(nilSide)
			r.Decide(okSucc, "E5-SIBLING", shortFn(fn), "raw-data-case", p.pos(instrPos(ifi)), "a segment without ISOBMFF data (thumbnail) can be delivered successfully",
				"a segment without ISOBMFF data (thumbnail image) always ends in an error in this delivery mode although the MPD lists it", nil)
		}
		if !found {
			r.Violate("E5-SIBLING", shortFn(fn), "raw-data-case", p.pos(fn.Pos()), "no test of segOut.seg == nil: raw-data segments (thumbnails) are not distinguished in this delivery mode", nil)
		}
	}
}

func blockInCycle(b *ssa.BasicBlock) bool {
	seen := map[*ssa.BasicBlock]bool{}
	stack := append([]*ssa.BasicBlock{}, b.Succs...)
	for len(stack) > 0 {
		x := stack[len(stack)-1]
		stack = stack[:len(stack)-1]
		if x == b {
			return true
		}
		if seen[x] {
			continue
		}
		seen[x] = true
		stack = append(stack, x.Succs...)
	}
	return false
}

// naturalLoop returns the natural loop of header b (nil if b is not a loop header).
func naturalLoop(b *ssa.BasicBlock) map[*ssa.BasicBlock]bool {
	var stack []*ssa.BasicBlock
	for _, t := range b.Preds {
		if b.Dominates(t) {
			stack = append(stack, t)
		}
	}
	if len(stack) == 0 {
		return nil
	}
	loop := map[*ssa.BasicBlock]bool{b: true}
	for len(stack) > 0 {
		x := stack[len(stack)-1]
		stack = stack[:len(stack)-1]
		if loop[x] {
			continue
		}
		loop[x] = true
		stack = append(stack, x.Preds...)
	}
	return loop
}

// loopExitTest: b is a loop header ending in an If one side of which leaves its natural loop.
func loopExitTest(b *ssa.BasicBlock) bool {
	if len(b.Succs) != 2 {
		return false
	}
	loop := naturalLoop(b)
	if loop == nil {
		return false
	}
	return loop[b.Succs[0]] != loop[b.Succs[1]]
}

func localDependsOnParam(p *Program, v ssa.Value, prm *ssa.Parameter) bool {
	q := newDepQuery(p, onParam(prm))
	q.noParams = true
	return q.depends(v, 0)
}

// timelineWindow: the first advertised number/time and the bound of the entry loop of
// generateTimelineEntries depend on the window times and on the availability time offset.
func timelineWindow(p *Program, r *Reporter) {
	r.Rule("E4-TIMELINE", "SegmentTimeline generator: first number, first time and the last-entry bound depend on the window (wrapTimes) and on the availabilityTimeOffset, as the server's availability test does", 4)
	fn := p.mustFunc(r, pkgApp, "(*asset).generateTimelineEntries")
	if fn == nil {
		return
	}
	var prms []*ssa.Parameter
	for _, prm := range fn.Params {
		if prm.Name() == "wt" || prm.Name() == "atoMS" {
			prms = append(prms, prm)
		}
	}
	if len(prms) != 2 {
		r.Broken("generateTimelineEntries: parameters wt/atoMS not found")
		return
	}
	check := func(v ssa.Value, construct, pos string) {
		for _, prm := range prms {
			ok := localDependsOnParam(p, v, prm)
			r.Decide(ok, "E4-TIMELINE", shortFn(fn), construct+"<-"+prm.Name(), pos, "depends on "+prm.Name(),
				"the advertised SegmentTimeline "+construct+" cannot depend on "+prm.Name()+": the MPD window would differ from the interval in which the server answers 200", nil)
		}
	}
	for _, b := range fn.Blocks {
		for _, in := range b.Instrs {
			switch x := in.(type) {
			case *ssa.Store:
				f, ok := fieldOfAddr(x.Addr)
				if !ok {
					continue
				}
				if _, isConst := x.Val.(*ssa.Const); isConst {
					continue
				}
				if f == "app.segEntries.startNr" {
					check(x.Val, "store:segEntries.startNr", p.pos(x.Pos()))
				}
			case *ssa.If:
				if blockInCycle(b) && loopExitTest(b) {
					if _, isRange := x.Cond.(*ssa.BinOp); isRange {
						check(x.Cond, "loop-bound", p.pos(instrPos(x)))
					}
				}
			}
		}
	}
}

// searchConvention: segments are half-open intervals [start, end): an instant equal to a segment's end belongs to the
// next segment. Every binary search for "the first segment that ends after t" (a sort.Search closure comparing a
// segment's EndTime) must therefore use the strict form EndTime > t; EndTime >= t selects the previous segment for
// instants exactly on a boundary (wrong content and availability one segment early for boundary-aligned tracks).
func searchConvention(p *Program, r *Reporter) {
	r.Rule("E5-SEARCHCONV", "binary searches over segment end times use the half-open convention (EndTime > t)", 1)
	n := 0
	for _, fn := range livesimFuncs(p) {
		for _, b := range fn.Blocks {
			for _, in := range b.Instrs {
				c, ok := isCallTo(in, "sort.Search")
				if !ok {
					continue
				}
				clo := unwrapFuncValue(c.Call.Args[1])
				if clo == nil {
					continue
				}
				for _, cb := range clo.Blocks {
					ret, ok := cb.Instrs[len(cb.Instrs)-1].(*ssa.Return)
					if !ok || len(ret.Results) != 1 {
						continue
					}
					bo, ok := ret.Results[0].(*ssa.BinOp)
					if !ok {
						continue
					}
					fx, okx := loadedField(bo.X)
					fy, oky := loadedField(bo.Y)
					var strict bool
					switch {
					case okx && fx == "app.Segment.EndTime":
						strict = bo.Op == token.GTR
					case oky && fy == "app.Segment.EndTime":
						strict = bo.Op == token.LSS
					default:
						continue
					}
					n++
					r.Decide(strict, "E5-SEARCHCONV", shortFn(fn), "sort.Search:EndTime", p.pos(bo.Pos()), "strict comparison: an instant on a boundary belongs to the next segment",
						"the search predicate "+bo.String()+" is not the strict EndTime > t: an instant exactly on a segment boundary is mapped to the previous segment", nil)
				}
			}
		}
	}
	if n == 0 {
		r.Broken("no binary search over segment end times found")
	}
}
