// Reproduction of MPD/segment-server disagreements (package app of cmd/livesim2).
// go test -vet=off -run TestProbeC02 ./cmd/livesim2/app
package app

import (
	"context"
	"net/http/httptest"
	"testing"

	"github.com/Dash-Industry-Forum/livesim2/pkg/logging"
)

func TestProbeC02AudioTimeWithStart(t *testing.T) {
	cfg := ServerConfig{VodRoot: "testdata/assets", TimeoutS: 0, LogFormat: logging.LogDiscard}
	_ = logging.InitSlog(cfg.LogLevel, cfg.LogFormat)
	s, err := SetupServer(context.Background(), &cfg)
	if err != nil {
		t.Fatal(err)
	}
	get := func(url string) int {
		w := httptest.NewRecorder()
		s.livesimHandlerFunc(w, httptest.NewRequest("GET", url, nil))
		return w.Code
	}
	// 100 s after availabilityStartTime = 1000000 s; video and audio segment of the same instant (90 s)
	v := get("/livesim2/segtimeline_1/start_1000000/testpic_2s/V300/8100000.m4s?nowMS=1000100000")
	a := get("/livesim2/segtimeline_1/start_1000000/testpic_2s/A48/4320256.m4s?nowMS=1000100000")
	t.Logf("video %d audio %d", v, a)
	if v != 200 || a != 200 {
		t.Fatalf("video %d, audio %d: both segments are listed as available and must be served", v, a)
	}
}

// The MPD's startNumber + timeline must name the segment the server returns for that number.
func TestProbeC02StartNrTimelineNumber(t *testing.T) {
	cfg := ServerConfig{VodRoot: "testdata/assets", TimeoutS: 0, LogFormat: logging.LogDiscard}
	_ = logging.InitSlog(cfg.LogLevel, cfg.LogFormat)
	s, err := SetupServer(context.Background(), &cfg)
	if err != nil {
		t.Fatal(err)
	}
	asset, ok := s.assetMgr.findAsset("testpic_2s")
	if !ok {
		t.Fatal("asset")
	}
	nowMS := 100_000
	for _, url := range []string{"/livesim2/segtimelinenr_1/snr_7/testpic_2s/Manifest.mpd", "/livesim2/periods_60/snr_7/testpic_2s/Manifest.mpd"} {
		rc, err := processURLCfg(url, nowMS)
		if err != nil {
			t.Fatal(err)
		}
		mpd, err := LiveMPD(asset, "Manifest.mpd", rc, nil, nowMS)
		if err != nil {
			t.Fatal(err)
		}
		p := mpd.Periods[len(mpd.Periods)-1]
		for _, as := range p.AdaptationSets {
			if as.ContentType != "video" {
				continue
			}
			st := as.SegmentTemplate
			nr := uint32(1)
			if st.StartNumber != nil {
				nr = *st.StartNumber
			}
			var declared uint64
			if st.SegmentTimeline != nil {
				declared = *st.SegmentTimeline.S[0].T
			} else {
				pto := uint64(0)
				if st.PresentationTimeOffset != nil {
					pto = *st.PresentationTimeOffset
				}
				declared = pto
			}
			sm, err := findSegMetaFromNr(asset, asset.Reps["V300"], nr, rc, nowMS)
			if err != nil {
				t.Errorf("%s: number %d declared by the MPD is not served: %v", url, nr, err); continue
			}
			if declared*uint64(sm.timescale) != sm.newTime*uint64(st.GetTimescale()) {
				t.Errorf("%s: MPD declares number %d at time %d, the server returns the segment at time %d", url, nr, declared, sm.newTime)
			}
		}
	}
}
