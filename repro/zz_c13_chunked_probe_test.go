// Reproduction: a SCTE-35 event carried by a video segment is missing when the same segment is
// delivered in low-latency (chunked) mode.
// go test -vet=off -run TestProbeC13EventInChunkedMode ./cmd/livesim2/app
package app

import (
	"bytes"
	"context"
	"net/http/httptest"
	"testing"

	"github.com/Dash-Industry-Forum/livesim2/pkg/logging"
	"github.com/Eyevinn/mp4ff/mp4"
)

func TestProbeC13EventInChunkedMode(t *testing.T) {
	cfg := ServerConfig{VodRoot: "testdata/assets", TimeoutS: 0, LogFormat: logging.LogDiscard}
	_ = logging.InitSlog(cfg.LogLevel, cfg.LogFormat)
	s, err := SetupServer(context.Background(), &cfg)
	if err != nil {
		t.Fatal(err)
	}
	nrEmsg := func(url string) int {
		w := httptest.NewRecorder()
		s.livesimHandlerFunc(w, httptest.NewRequest("GET", url, nil))
		if w.Code != 200 {
			t.Fatalf("%s: status %d: %s", url, w.Code, w.Body.String())
		}
		f, err := mp4.DecodeFile(bytes.NewReader(w.Body.Bytes()))
		if err != nil {
			t.Fatal(err)
		}
		n := 0
		for _, seg := range f.Segments {
			for _, fr := range seg.Fragments {
				n += len(fr.Emsgs)
			}
		}
		return n
	}
	// segment 301 of testpic_2s covers [602 s, 604 s], which contains 10:03, 7 s before the 10:10 splice
	whole := nrEmsg("/livesim2/scte35_1/testpic_2s/V300/301.m4s?nowMS=610000")
	chunked := nrEmsg("/livesim2/scte35_1/ato_1/chunkdur_1/ltgt_3000/testpic_2s/V300/301.m4s?nowMS=610000")
	if whole != 1 || chunked != 1 {
		t.Fatalf("events in whole-segment mode: %d, in chunked mode: %d (want 1 and 1)", whole, chunked)
	}
}
