// Reproduction: a licence request whose URL does not end with /eccp.json is answered 400 and then processed anyway.
// go test -vet=off -run TestProbeC10LaURLBadSuffix ./cmd/livesim2/app
package app

import (
	"context"
	"net/http/httptest"
	"strings"
	"testing"

	"github.com/Dash-Industry-Forum/livesim2/pkg/logging"
)

func TestProbeC10LaURLBadSuffix(t *testing.T) {
	cfg := ServerConfig{VodRoot: "testdata/assets", TimeoutS: 0, LogFormat: logging.LogDiscard}
	_ = logging.InitSlog(cfg.LogLevel, cfg.LogFormat)
	s, err := SetupServer(context.Background(), &cfg)
	if err != nil {
		t.Fatal(err)
	}
	w := httptest.NewRecorder()
	s.laURLHandlerFunc(w, httptest.NewRequest("POST", "/laurl/other.json", strings.NewReader(`{"kids":[],"type":"temporary"}`)))
	body := w.Body.String()
	if w.Code != 400 {
		t.Fatalf("status %d", w.Code)
	}
	if strings.Count(strings.TrimSpace(body), "\n") > 0 || strings.Contains(body, "keys") {
		t.Errorf("the 400 answer is followed by a second response body: %q", body)
	}
}
