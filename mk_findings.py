#!/usr/bin/env python3
"""usage: mk_findings.py <ID> <repro-file> <rule-prefix> [<key-substring>]
Adds the violations currently reported by check <ID> (rule starting with rule-prefix, key containing the
substring) to known_findings_manual.json. To be used only after each of them was triaged as a genuine defect
with a demonstration (the repro file). Never run by the checks themselves."""
import json, subprocess, sys, re
pid, repro, rulepre = sys.argv[1], sys.argv[2], sys.argv[3]
sub = sys.argv[4] if len(sys.argv) > 4 else ""
out = subprocess.run(['/verif/check.sh', pid, 'quick'], capture_output=True, text=True, env={**__import__('os').environ, 'VERIF_OUT': '/tmp/ev'}).stdout
man = json.load(open('/verif/known_findings_manual.json'))
have = {(f['property'], f['key']) for f in man['findings']}
n = 0
for line in out.splitlines():
    m = re.match(r'violation: (\S.*?) at (\S+): (.*)', line)
    if not m:
        continue
    key, pos, msg = m.group(1), m.group(2), m.group(3)
    if not key.startswith(rulepre) or sub not in key:
        continue
    if (pid, key) in have:
        continue
    msg = msg.replace('github.com/Dash-Industry-Forum/livesim2/', '')
    what = re.sub(r'\s+', ' ', msg)[:260]
    man['findings'].append({"property": pid, "key": key, "what": what, "repro": repro})
    n += 1
json.dump(man, open('/verif/known_findings_manual.json', 'w'), indent=1)
print("added", n, "findings for", pid)
