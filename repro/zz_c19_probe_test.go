// Reproduction (run with -race): concurrent first uploads race on the receiver's tables and
// can create two channel objects for one name.
// go test -race -vet=off -run TestProbeC19 ./cmd/cmaf-ingest-receiver/app
package app

import (
	"bytes"
	"context"
	"fmt"
	"net/http"
	"net/http/httptest"
	"os"
	"path/filepath"
	"sync"
	"testing"

	"github.com/Dash-Industry-Forum/livesim2/pkg/logging"
)

func TestProbeC19ConcurrentFirstUploads(t *testing.T) {
	_ = logging.InitSlog("error", "text")
	tmpDir, err := os.MkdirTemp("", "recv-probe-c19")
	if err != nil {
		t.Fatal(err)
	}
	defer os.RemoveAll(tmpDir)
	opts := Options{prefix: "/upload", timeShiftBufferDepthS: 30, storage: tmpDir}
	ctx, cancel := context.WithCancel(context.Background())
	defer cancel()
	receiver, err := NewReceiver(ctx, &opts, &Config{})
	if err != nil {
		t.Fatal(err)
	}
	server := httptest.NewServer(setupRouter(receiver, opts.storage, ""))
	defer server.Close()
	src := filepath.Join("testdata", "zero_3.84s")
	tracks := []string{"video-500Kbps", "video-800Kbps", "audio-nor-128Kbps"}
	var wg sync.WaitGroup
	for c := 0; c < 4; c++ {
		for _, tr := range tracks {
			wg.Add(1)
			go func(c int, tr string) {
				defer wg.Done()
				ext := ".cmfv"
				if tr[0] == 'a' {
					ext = ".cmfa"
				}
				data, err := os.ReadFile(filepath.Join(src, tr, "init_org"+ext))
				if err != nil {
					t.Error(err)
					return
				}
				url := fmt.Sprintf("%s/upload/ch%d/%s/init%s", server.URL, c, tr, ext)
				req, _ := http.NewRequest(http.MethodPut, url, bytes.NewReader(data))
				resp, err := http.DefaultClient.Do(req)
				if err == nil {
					resp.Body.Close()
				}
			}(c, tr)
		}
	}
	wg.Wait()
}
