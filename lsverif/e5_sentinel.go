package main

// E5: sentinel-error propagation and error -> HTTP status tables.

import (
	"fmt"
	"go/constant"
	"go/token"
	"strings"

	"golang.org/x/tools/go/ssa"
)

// sentinelSources: how a sentinel enters an error value.
func isSentinelValue(v ssa.Value, sentinels map[string]bool, errTypes map[string]bool) bool {
	switch x := v.(type) {
	case *ssa.UnOp:
		if g, ok := x.X.(*ssa.Global); ok && x.Op == token.MUL && sentinels[g.String()] {
			return true
		}
	case *ssa.MakeInterface:
		if n := namedStructOf(x.X.Type()); n != nil && errTypes[typeID(n)] {
			return true
		}
	}
	return false
}

// mayCarrySentinel computes the repository functions whose error result may carry one of the sentinels.
func mayCarrySentinel(p *Program, fns []*ssa.Function, sentinels, errTypes map[string]bool) map[*ssa.Function]bool {
	carry := map[*ssa.Function]bool{}
	var carries func(v ssa.Value, depth int, seen map[ssa.Value]bool) bool
	carries = func(v ssa.Value, depth int, seen map[ssa.Value]bool) bool {
		if v == nil || seen[v] || depth > 12 {
			return false
		}
		seen[v] = true
		if isSentinelValue(v, sentinels, errTypes) {
			return true
		}
		switch x := v.(type) {
		case *ssa.Phi:
			for _, e := range x.Edges {
				if carries(e, depth+1, seen) {
					return true
				}
			}
		case *ssa.Extract:
			if c, ok := x.Tuple.(*ssa.Call); ok {
				if callee := c.Call.StaticCallee(); callee != nil && carry[callee] {
					return true
				}
			}
		case *ssa.Call:
			if callee := x.Call.StaticCallee(); callee != nil {
				if carry[callee] {
					return true
				}
				if callee.String() == "fmt.Errorf" {
					// wraps (or swallows) whatever error argument it is given
					for _, a := range errorfErrorArgs(x) {
						if carries(a, depth+1, seen) {
							return true
						}
					}
				}
			}
		case *ssa.ChangeInterface:
			return carries(x.X, depth+1, seen)
		case *ssa.UnOp:
			if al, ok := x.X.(*ssa.Alloc); ok && x.Op == token.MUL && al.Referrers() != nil {
				for _, ref := range *al.Referrers() {
					if st, ok := ref.(*ssa.Store); ok && st.Addr == ssa.Value(al) && carries(st.Val, depth+1, seen) {
						return true
					}
				}
			}
		}
		return false
	}
	changed := true
	for changed {
		changed = false
		for _, fn := range fns {
			if carry[fn] {
				continue
			}
			for _, b := range fn.Blocks {
				ret, ok := b.Instrs[len(b.Instrs)-1].(*ssa.Return)
				if !ok {
					continue
				}
				for _, res := range ret.Results {
					if isErrorType(res.Type()) && carries(res, 0, map[ssa.Value]bool{}) {
						carry[fn] = true
						changed = true
					}
				}
			}
		}
	}
	return carry
}

// errorfErrorArgs returns the error-typed values passed in the variadic part of fmt.Errorf.
func errorfErrorArgs(c *ssa.Call) []ssa.Value {
	var out []ssa.Value
	if len(c.Call.Args) < 2 {
		return nil
	}
	sl, ok := c.Call.Args[1].(*ssa.Slice)
	if !ok {
		return nil
	}
	arr, ok := sl.X.(*ssa.Alloc)
	if !ok || arr.Referrers() == nil {
		return nil
	}
	for _, ref := range *arr.Referrers() {
		ia, ok := ref.(*ssa.IndexAddr)
		if !ok || ia.Referrers() == nil {
			continue
		}
		for _, r2 := range *ia.Referrers() {
			if st, ok := r2.(*ssa.Store); ok {
				v := st.Val
				if ci, ok := v.(*ssa.ChangeInterface); ok {
					v = ci.X
				}
				if mi, ok := v.(*ssa.MakeInterface); ok {
					v = mi.X
				}
				if isErrorType(v.Type()) {
					out = append(out, v)
				}
			}
		}
	}
	return out
}

// ruleSentinelPropagation: in every error-returning function of `chain`, the error of every call to a
// sentinel-carrying function is returned on all non-nil paths, wrapped only with %w.
func ruleSentinelPropagation(p *Program, r *Reporter, rule string, chain []*ssa.Function, carry map[*ssa.Function]bool) {
	for _, fn := range chain {
		returnsErr := false
		res := fn.Signature.Results()
		for i := 0; i < res.Len(); i++ {
			if isErrorType(res.At(i).Type()) {
				returnsErr = true
			}
		}
		if !returnsErr {
			continue
		}
		for _, b := range fn.Blocks {
			for _, in := range b.Instrs {
				c, ok := in.(*ssa.Call)
				if !ok {
					continue
				}
				callee := c.Call.StaticCallee()
				if callee == nil || !carry[callee] {
					continue
				}
				for _, e := range errorValuesOfCall(c) {
					construct := "sentinel<-" + shortFn(callee)
					pos := p.pos(instrPos(c))
					if e == nil {
						r.Violate(rule, shortFn(fn), construct, pos, "error of "+shortFn(callee)+" (may carry not-found/too-early/gone) is discarded", nil)
						continue
					}
					ok, why := errorReturnedWhenNonNilFlag(e, c, callee)
					r.Decide(ok, rule, shortFn(fn), construct, pos, why,
						"an error that may carry not-found/too-early/gone does not reach the handler's status switch intact: "+why, nil)
				}
			}
		}
	}
}

// errorReturnedWhenNonNilFlag: like errorReturnedWhenNonNil, but if the callee returns a non-nil error only
// together with a true first (bool) result, the caller's false-branch of that flag is exempt.
func errorReturnedWhenNonNilFlag(e ssa.Value, c *ssa.Call, callee *ssa.Function) (bool, string) {
	strictErrorIdentity = true
	ok, why := errorReturnedWhenNonNil(e)
	strictErrorIdentity = false
	if ok {
		return ok, why
	}
	// correlated flag idiom
	k := calleeErrOnlyWithTrueFlag(callee)
	if k < 0 {
		return false, why
	}
	var flag ssa.Value
	for _, ref := range *c.Referrers() {
		if ex, ok := ref.(*ssa.Extract); ok && ex.Index == k {
			flag = ex
		}
	}
	if flag == nil {
		return false, why
	}
	ok2, why2 := errorReturnedWhenNonNilF(e, flag)
	if ok2 {
		return true, why2 + " (the callee returns an error only together with a true handled-flag; the flag's false side is exempt)"
	}
	return false, why2
}

// calleeErrOnlyWithTrueFlag returns the index of a bool result that is the constant true on every
// return of fn whose error result is not the nil constant, or -1.
func calleeErrOnlyWithTrueFlag(fn *ssa.Function) int {
	res := fn.Signature.Results()
	n := res.Len()
	if n < 2 || !isErrorType(res.At(n-1).Type()) {
		return -1
	}
	for k := 0; k < n-1; k++ {
		if res.At(k).Type().String() != "bool" {
			continue
		}
		good := true
		for _, b := range fn.Blocks {
			ret, ok := b.Instrs[len(b.Instrs)-1].(*ssa.Return)
			if !ok {
				continue
			}
			if isNilConst(ret.Results[n-1]) {
				continue
			}
			c, ok := ret.Results[k].(*ssa.Const)
			if !ok || c.Value == nil || c.Value.Kind() != constant.Bool || !constant.BoolVal(c.Value) {
				good = false
			}
		}
		if good {
			return k
		}
	}
	return -1
}

// statusOfBranch: the block entered when cond holds calls http.Error with a constant status; returns it.
func statusOfBranch(b *ssa.BasicBlock) (int64, bool) {
	for _, in := range b.Instrs {
		c, ok := in.(*ssa.Call)
		if !ok || c.Call.StaticCallee() == nil || c.Call.StaticCallee().String() != "net/http.Error" {
			continue
		}
		if k, ok := constInt(c.Call.Args[2]); ok {
			return k, true
		}
	}
	return 0, false
}

// ruleStatusTable checks, in handler fn, that each errors.Is/As test on the given sentinel leads to the expected status.
func ruleStatusTable(p *Program, r *Reporter, rule string, handler *ssa.Function, want map[string]int64) {
	found := map[string]bool{}
	var blocks []*ssa.BasicBlock
	for _, cf := range cluster(handler) {
		blocks = append(blocks, cf.Blocks...)
	}
	for _, b := range blocks {
		fn := b.Parent()
		for _, in := range b.Instrs {
			c, ok := in.(*ssa.Call)
			if !ok || c.Call.StaticCallee() == nil {
				continue
			}
			name := c.Call.StaticCallee().String()
			if name != "errors.Is" && name != "errors.As" {
				continue
			}
			var label string
			target := c.Call.Args[1]
			if u, ok := target.(*ssa.UnOp); ok {
				if g, ok := u.X.(*ssa.Global); ok {
					label = g.Name()
				}
			}
			if mi, ok := target.(*ssa.MakeInterface); ok {
				if pt := namedStructOf(mi.X.Type()); pt != nil {
					label = pt.Obj().Name()
				}
			}
			exp, wanted := want[label]
			if !wanted {
				continue
			}
			found[label] = true
			construct := "status:" + label
			// the If using this call
			ok2 := false
			got := int64(-1)
			for _, ref := range *c.Referrers() {
				if ifi, ok := ref.(*ssa.If); ok {
					if st, ok := statusOfBranch(ifi.Block().Succs[0]); ok {
						got = st
						ok2 = st == exp
					} else if st, idx, ok := statusReturned(ifi.Block().Succs[0]); ok && fn != handler {
						// a helper of the handler returns the status: it must be the status the handler answers with
						got = st
						ok2 = st == exp && helperStatusIsAnswered(p, fn, idx)
					}
				}
			}
			r.Decide(ok2, rule, shortFn(fn), construct, p.pos(c.Pos()), fmt.Sprintf("answered with status %d", exp),
				fmt.Sprintf("the branch for %s answers %d, expected %d", label, got, exp), nil)
		}
	}
	fn := handler
	for label := range want {
		if !found[label] {
			r.Violate(rule, shortFn(fn), "status:"+label, p.pos(fn.Pos()), "the handler no longer distinguishes "+label+" with errors.Is/As", nil)
		}
	}
	_ = strings.Contains
}

// statusReturned: the block returns a constant integer (an HTTP status chosen by a helper); returns it and its result index.
func statusReturned(b *ssa.BasicBlock) (int64, int, bool) {
	ret, ok := b.Instrs[len(b.Instrs)-1].(*ssa.Return)
	if !ok {
		return 0, 0, false
	}
	for i, res := range ret.Results {
		if k, ok := constInt(res); ok && k >= 100 && k <= 599 {
			return k, i, true
		}
	}
	return 0, 0, false
}

// helperStatusIsAnswered: result idx of helper is used, at its unique call site, as the status of http.Error / WriteHeader.
func helperStatusIsAnswered(p *Program, helper *ssa.Function, idx int) bool {
	site := uniqueCallSite(helper)
	if site == nil {
		return false
	}
	c, ok := site.(*ssa.Call)
	if !ok {
		return false
	}
	isResult := func(v ssa.Value) bool {
		if ex, ok := v.(*ssa.Extract); ok && ex.Tuple == ssa.Value(c) && ex.Index == idx {
			return true
		}
		return v == ssa.Value(c) && idx == 0
	}
	for _, b := range site.Parent().Blocks {
		for _, in := range b.Instrs {
			if hc, ok := isCallTo(in, "net/http.Error"); ok && isResult(hc.Call.Args[2]) {
				return true
			}
			if wc, ok := in.(*ssa.Call); ok && wc.Call.IsInvoke() && wc.Call.Method.Name() == "WriteHeader" && len(wc.Call.Args) == 1 && isResult(wc.Call.Args[0]) {
				return true
			}
		}
	}
	return false
}
