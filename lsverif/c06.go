package main

import (
	"fmt"
	"go/token"
	"sort"
	"strings"

	"golang.org/x/tools/go/ssa"
)

func init() { register("C06", checkC06) }

// condDependsOnlyOn: every non-constant leaf of the (local) slice of v that is a field load is one of the allowed fields.
func fieldLeavesOf(p *Program, v ssa.Value) map[string]bool {
	out := map[string]bool{}
	sliceVisit(p, v, true, func(x ssa.Value) {
		if f, ok := loadedField(x); ok {
			out[f] = true
		}
	})
	return out
}

func isLoopTest(c cond) bool {
	return blockInCycle(c.At) && loopExitTest(c.At)
}

func checkC06(p *Program, r *Reporter) {
	unitsRuleByName(p, r, "splitPeriod")
	r.Explanation = "Static analysis of structural necessary conditions of C06 in splitPeriod: (a) the multiple-of-segment-duration test guards every period-emitting path unconditionally: its failing side is an error return, it dominates the creation of every period, and it is control-dependent (modulo error exits) on nothing but the periods-per-hour presence test; " +
		"(b) the period-continuity descriptor is created at a single site that is control-dependent on the continuity flag, on the loops over periods and adaptation sets, and on nothing else; " +
		"(c) the divisions of the period arithmetic have divisors proven non-zero for all request values (E3-A); (d) the per-period startNumber depends on the configured start number (E4). " +
		"Tiling, stable ids, one-period-per-segment and byte equality with single-period mode are not decided."
	r.NotCovered = "tiling of wall-clock time, stable ids, each segment in exactly one period with equal time/duration/number, byte equality of period-relative URLs"
	r.Assumptions = []string{"control dependence computed on the SSA CFG with error-only exits pruned", "E3-A assumptions as in C08"}
	sp := p.mustFunc(r, pkgApp, "splitPeriod")
	if sp == nil {
		return
	}
	ff := factsOf(sp)
	// (a) the multiple-of-segment test
	r.Rule("E5-MULTIPLE", "period duration must be a multiple of the segment duration: unconditional guard in front of every emitted period", 3)
	var guard *ssa.If
	for _, b := range sp.Blocks {
		ifi, ok := b.Instrs[len(b.Instrs)-1].(*ssa.If)
		if !ok {
			continue
		}
		cmp, ok := ifi.Cond.(*ssa.BinOp)
		if !ok || (cmp.Op != token.NEQ && cmp.Op != token.EQL) {
			continue
		}
		for _, side := range []ssa.Value{cmp.X, cmp.Y} {
			rem, ok := side.(*ssa.BinOp)
			if !ok || rem.Op != token.REM {
				continue
			}
			if f, ok := loadedField(rem.Y); ok && f == "app.asset.SegmentDurMS" && valueDependsOnField(p, rem.X, "app.ResponseConfig.PeriodsPerHour") {
				guard = ifi
			}
		}
	}
	if guard == nil {
		r.Violate("E5-MULTIPLE", shortFn(sp), "guard", p.pos(sp.Pos()), "no test 'period duration % segment duration' found in splitPeriod: incompatible period durations are not rejected", nil)
	} else {
		gb := guard.Block()
		cmp := guard.Cond.(*ssa.BinOp)
		failIdx := 0
		if cmp.Op == token.EQL {
			failIdx = 1
		}
		r.Decide(isErrorExit(gb.Succs[failIdx]) || ff.errOnly[gb.Succs[failIdx]], "E5-MULTIPLE", shortFn(sp), "guard-fails-with-error", p.pos(instrPos(guard)),
			"the non-multiple side returns an error", "the non-multiple side of the test does not return an error", nil)
		// unconditional: control dependences limited to the periods-per-hour presence test
		bad := ""
		for _, c := range ff.transitiveCDeps(gb, true) {
			leaves := fieldLeavesOf(p, c.V)
			for f := range leaves {
				if f != "app.ResponseConfig.PeriodsPerHour" && f != "mpd.MPD.Periods" {
					bad = fmt.Sprintf("condition %s (depends on %s)", c.V.String(), f)
				}
			}
		}
		r.Decide(bad == "", "E5-MULTIPLE", shortFn(sp), "guard-unconditional", p.pos(instrPos(guard)), "evaluated for every MPD type and asset whenever periods are requested",
			"the multiple-of-segment test is only evaluated under "+bad+": other configurations accept period durations that cut segments", nil)
		// dominates every period creation (Clone of the input period / AppendPeriod)
		n := 0
		for _, b := range sp.Blocks {
			for _, in := range b.Instrs {
				c, ok := in.(*ssa.Call)
				if !ok || c.Call.StaticCallee() == nil {
					continue
				}
				name := c.Call.StaticCallee().Name()
				if (name == "Clone" || name == "AppendPeriod") && calleePkgPath(c.Call.StaticCallee()) != pkgApp {
					n++
					okDom := gb.Dominates(b) && gb != b
					r.Decide(okDom, "E5-MULTIPLE", shortFn(sp), "dominates:"+name, p.pos(c.Pos()), "period creation is dominated by the test",
						"a period is created on a path that does not pass the multiple-of-segment test", nil)
				}
			}
		}
		if n == 0 {
			r.Broken("splitPeriod: no period creation site (Clone/AppendPeriod) found")
		}
	}
	// (b) period continuity descriptor
	r.Rule("E5-CONTINUITY", "period-continuity descriptor created exactly under the continuity flag", 1)
	sites := 0
	for _, fn := range livesimFuncs(p) {
		for _, b := range fn.Blocks {
			for _, in := range b.Instrs {
				st, ok := in.(*ssa.Store)
				if !ok {
					continue
				}
				s, ok := constString(st.Val)
				if !ok || s != "urn:mpeg:dash:period-continuity:2015" {
					continue
				}
				sites++
				hasFlag := false
				bad := ""
				for _, c := range effectiveCDeps(b, true) {
					if f, ok := loadedField(c.V); ok && f == "app.ResponseConfig.ContMultiPeriodFlag" && c.Pos {
						hasFlag = true
						continue
					}
					if isLoopTest(c) {
						continue
					}
					leaves := fieldLeavesOf(p, c.V)
					for f := range leaves {
						if f != "app.ResponseConfig.PeriodsPerHour" && f != "mpd.MPD.Periods" && f != "app.asset.SegmentDurMS" {
							bad = fmt.Sprintf("%s (depends on %s)", c.V.String(), f)
						}
					}
				}
				switch {
				case !inCluster(sp, fn):
					r.Violate("E5-CONTINUITY", shortFn(fn), "descriptor", p.pos(st.Pos()), "a period-continuity descriptor is created outside splitPeriod", nil)
				case !hasFlag:
					r.Violate("E5-CONTINUITY", shortFn(fn), "descriptor", p.pos(st.Pos()), "period continuity is signalled without testing the continuity flag", nil)
				case bad != "":
					r.Violate("E5-CONTINUITY", shortFn(fn), "descriptor", p.pos(st.Pos()), "period continuity is signalled only under the additional condition "+bad+": some adaptation sets or periods lack it although requested", nil)
				default:
					r.Discharge("E5-CONTINUITY", shortFn(fn), "descriptor", p.pos(st.Pos()), "control-dependent on ContMultiPeriodFlag, the period/adaptation-set loops and the admission tests only")
				}
			}
		}
	}
	if sites != 1 {
		r.Violate("E5-CONTINUITY", shortFn(sp), "descriptor-sites", p.pos(sp.Pos()), fmt.Sprintf("%d creation sites of the period-continuity descriptor (expected exactly one, in the adaptation-set loop of splitPeriod)", sites), nil)
	}
	// (c) divisions
	e := sharedE3(p, r)
	r.Rule("E3-A", "period arithmetic: divisors proven non-zero for every request", 3)
	var fns []*ssa.Function
	for _, n := range []string{"splitPeriod", "reduceS", "lastPeriodStartTime"} {
		if fn := p.mustFunc(r, pkgApp, n); fn != nil {
			fns = append(fns, fn)
		}
	}
	e.classA("E3-A", fns)
	periodRangeRule(p, r, sp)
	if rs := p.mustFunc(r, pkgApp, "reduceS"); rs != nil {
		periodCutRule(p, r, rs)
	}
	// (d) start numbers
	r.Rule("E4-STARTNR", "per-period startNumber depends on the configured start number", 2)
	for _, b := range sp.Blocks {
		for _, in := range b.Instrs {
			st, ok := in.(*ssa.Store)
			if !ok {
				continue
			}
			f, ok := fieldOfAddr(st.Addr)
			if !ok || f != "mpd.MultipleSegmentBaseType.StartNumber" || isNilConst(st.Val) {
				continue
			}
			okDep := valueDependsOnField(p, st.Val, "app.ResponseConfig.StartNr") || valueDependsOnField(p, st.Val, "mpd.MultipleSegmentBaseType.StartNumber")
			r.Decide(okDep, "E4-STARTNR", shortFn(sp), "store:SegmentTemplate.StartNumber", p.pos(st.Pos()), "depends on the configured start number (or copies a startNumber that does)",
				"the per-period startNumber cannot depend on the configured start number (snr_N)", nil)
		}
	}
}

// periodRangeRule: the set of emitted periods (the bounds of the loop that clones the input period) is a
// function of the window edges, the period duration and nothing else. A bound that also reads the asset,
// the MPD type or another request option makes the newest or oldest period appear late or early for some
// instants, so that a segment listed in single-period mode is in no period.
func periodRangeRule(p *Program, r *Reporter, sp *ssa.Function) {
	r.Rule("E4-PERIODRANGE", "the range of emitted periods depends on the window edges and the period duration only", 1)
	allowed := map[string]bool{
		"app.wrapTimes.startTimeMS": true, "app.wrapTimes.nowMS": true,
		"app.ResponseConfig.PeriodsPerHour": true, "app.ResponseConfig.PeriodsPerHour*": true,
	}
	n := 0
	for _, fn := range cluster(sp) {
		for _, b := range fn.Blocks {
			for _, in := range b.Instrs {
				c, ok := in.(*ssa.Call)
				if !ok {
					continue
				}
				callee := c.Common().StaticCallee()
				if callee == nil || callee.Name() != "Clone" || calleePkgPath(callee) == pkgApp || !strings.HasSuffix(callee.String(), "Period).Clone") {
					continue
				}
				seenTest := map[ssa.Value]bool{}
				for _, cd := range effectiveCDeps(b, true) {
					if !isLoopTest(cd) || seenTest[cd.V] {
						continue
					}
					seenTest[cd.V] = true
					n++
					leaves := map[string]bool{}
					sliceVisitUntil(p, cd.V, true, func(x ssa.Value) {
						if f, ok := loadedField(x); ok {
							leaves[f] = true
						}
					}, func(x ssa.Value) bool {
						f, ok := loadedField(x)
						return ok && allowed[f]
					})
					// the bounds are computed with the very period duration that gives Period@start its value
					usesDur := false
					seenV := map[ssa.Value]bool{}
					sliceVisit(p, cd.V, true, func(x ssa.Value) {
						if seenV[x] {
							return
						}
						seenV[x] = true
						if q, ok := x.(*ssa.BinOp); ok && q.Op == token.QUO && q.Parent() == sp {
							if k, isC := constInt(q.X); isC && k == 3600 {
								usesDur = true
							}
						}
					})
					r.Decide(usesDur, "E4-PERIODRANGE", shortFn(fn), "period-loop-bound:duration", p.pos(instrPos(cd.At.Instrs[len(cd.At.Instrs)-1])),
						"the period numbers are computed from the whole-second period duration 3600/N that also gives Period@start",
						"the numbers of the first and last period are not computed from the period duration (3600/N, whole seconds) that Period@start, ids and offsets use: for N that does not divide 3600 the generated periods drift away from the window", nil)
					var bad, have []string
					for f := range leaves {
						if allowed[f] {
							have = append(have, f)
						} else {
							bad = append(bad, f)
						}
					}
					sort.Strings(bad)
					sort.Strings(have)
					r.Decide(len(bad) == 0, "E4-PERIODRANGE", shortFn(fn), "period-loop-bound", p.pos(instrPos(cd.At.Instrs[len(cd.At.Instrs)-1])),
						"the loop test reads only "+strings.Join(have, ", "),
						"the range of emitted periods also depends on "+strings.Join(bad, ", ")+": for some instants a period is announced late/early and its segments are in no period", nil)
				}
			}
		}
	}
	if n == 0 {
		r.Broken("splitPeriod: no loop around the period Clone call found")
	}
}

func inCluster(anchor, fn *ssa.Function) bool {
	for _, f := range cluster(anchor) {
		if f == fn {
			return true
		}
	}
	return false
}
