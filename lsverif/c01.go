package main

import (
	"fmt"
	"strings"

	"golang.org/x/tools/go/ssa"
)

func init() { register("C01", checkC01); register("C12", checkC12) }

// metaStore is a store into a segMeta field together with the parameter binding of the call site through which
// the analysed function reaches it (nil if the store is in the function itself).
type metaStore struct {
	st   *ssa.Store
	bind map[*ssa.Parameter]ssa.Value
}

// metaFieldStores: the values stored into the fields of the segMeta composite(s) that fn fills, in fn itself
// or in a constructor helper it calls (analysed per call site).
func metaFieldStores(fn *ssa.Function) map[string][]metaStore {
	out := map[string][]metaStore{}
	scan := func(f *ssa.Function, bind map[*ssa.Parameter]ssa.Value) {
		for _, b := range f.Blocks {
			for _, in := range b.Instrs {
				st, ok := in.(*ssa.Store)
				if !ok {
					continue
				}
				if fld, ok := fieldOfAddr(st.Addr); ok && strings.HasPrefix(fld, "app.segMeta.") {
					out[fld] = append(out[fld], metaStore{st, bind})
				}
			}
		}
	}
	scan(fn, nil)
	for _, b := range fn.Blocks {
		for _, in := range b.Instrs {
			c, ok := in.(*ssa.Call)
			if !ok || c.Call.StaticCallee() == nil || summaryProgram == nil || !summaryProgram.isRepoFunc(c.Call.StaticCallee()) {
				continue
			}
			callee := c.Call.StaticCallee()
			res := callee.Signature.Results()
			returnsMeta := false
			for i := 0; i < res.Len(); i++ {
				if strings.HasSuffix(res.At(i).Type().String(), "app.segMeta") {
					returnsMeta = true
				}
			}
			if !returnsMeta || len(callee.Blocks) == 0 || callee == fn {
				continue
			}
			// only constructor-like helpers: they do not call the lookups themselves
			bind := map[*ssa.Parameter]ssa.Value{}
			for i, prm := range callee.Params {
				if i < len(c.Call.Args) {
					bind[prm] = c.Call.Args[i]
				}
			}
			if len(callee.Blocks) <= 3 {
				scan(callee, bind)
			}
		}
	}
	return out
}

func checkC01(p *Program, r *Reporter) {
	unitsRuleByName(p, r, "genLiveSegment", "findSegMetaFromNr", "findSegMetaFromTime")
	r.Explanation = "Static analysis of structural necessary conditions of C01 by dependence slices: (a) the two addressing siblings ($Number$ and $Time$ lookup) fill the segment metadata from the same sources: original time/number/duration from the selected VoD segment, the timescale from the representation, the new time (by number) from the VoD start time, the loop duration and the requested number, the new number (by time) from the configured start number, the loop count and the index; " +
		"(b) the served segment is rewritten from that metadata: the sequence number written into every fragment depends on the new number, the decode time on the new time, the sidx earliest presentation time on the new time, and embedded TTML timestamps are shifted by the very value the decode time is shifted by. " +
		"Numeric correctness (n mod N, floor(n/N)*loopDuration, contiguity across wraps) and sample identity are not decided."
	r.NotCovered = "the arithmetic itself: which VoD segment is selected, the exact start time, contiguity n -> n+1 and across loop wraps, samples unchanged, thumbnails byte-identical"
	r.Assumptions = []string{"dependence slices over-approximate: a missing dependence is definite, a present one is not a proof of the right formula"}
	fromNr := p.mustFunc(r, pkgApp, "findSegMetaFromNr")
	fromTime := p.mustFunc(r, pkgApp, "findSegMetaFromTime")
	gen := p.mustFunc(r, pkgApp, "genLiveSegment")
	if fromNr == nil || fromTime == nil || gen == nil {
		return
	}
	r.Rule("E4-SIBLINGS", "$Number$ and $Time$ lookups fill the segment metadata from the same sources", 12)
	common := map[string][]string{
		"app.segMeta.origTime":  {"app.Segment.StartTime"},
		"app.segMeta.origNr":    {"app.Segment.Nr"},
		"app.segMeta.origDur":   {"app.Segment.StartTime", "app.Segment.EndTime"},
		"app.segMeta.newDur":    {"app.Segment.StartTime", "app.Segment.EndTime"},
		"app.segMeta.timescale": {"app.RepData.MediaTimescale"},
	}
	specific := map[*ssa.Function]map[string][]string{
		fromNr:   {"app.segMeta.newTime": {"app.Segment.StartTime", "app.asset.LoopDurMS", "param:nr"}, "app.segMeta.newNr": {"param:nr"}},
		fromTime: {"app.segMeta.newNr": {"app.ResponseConfig.StartNr", "app.asset.LoopDurMS", "param:time"}, "app.segMeta.newTime": {"param:time"}},
	}
	for _, fn := range []*ssa.Function{fromNr, fromTime} {
		stores := metaFieldStores(fn)
		want := map[string][]string{}
		for f, srcs := range common {
			want[f] = srcs
		}
		for f, srcs := range specific[fn] {
			want[f] = srcs
		}
		var fields []string
		for f := range want {
			fields = append(fields, f)
		}
		sortStrings(fields)
		for _, f := range fields {
			sts := stores[f]
			if len(sts) == 0 {
				r.Violate("E4-SIBLINGS", shortFn(fn), "field:"+f, p.pos(fn.Pos()), "the lookup no longer fills "+f, nil)
				continue
			}
			for _, src := range want[f] {
				ok := true
				for _, ms := range sts {
					st := ms.st
					var q *depQuery
					if strings.HasPrefix(src, "param:") {
						var prm *ssa.Parameter
						for _, pr := range fn.Params {
							if pr.Name() == strings.TrimPrefix(src, "param:") {
								prm = pr
							}
						}
						if prm == nil {
							ok = false
							continue
						}
						q = newDepQueryLocal(p, onParam(prm))
					} else {
						q = newDepQueryLocal(p, onField(src))
					}
					q.bind = ms.bind
					if !q.depends(st.Val, 0) {
						ok = false
					}
				}
				r.Decide(ok, "E4-SIBLINGS", shortFn(fn), "field:"+strings.TrimPrefix(f, "app.segMeta.")+"<-"+src, p.pos(sts[0].st.Pos()), "depends on "+src,
					fmt.Sprintf("%s filled by %s cannot depend on %s, unlike its sibling / the documented formula: the same segment addressed the other way gets other metadata", f, shortFn(fn), src), nil)
			}
		}
	}
	// the timeline arithmetic stays in integers: a float round trip loses ticks for loop durations such as 8.008 s
	r.Rule("E4-INTEGER", "new time and new number of a segment are computed without float rounding", 4)
	for _, fn := range []*ssa.Function{fromNr, fromTime} {
		stores := metaFieldStores(fn)
		for _, f := range []string{"app.segMeta.newTime", "app.segMeta.newNr"} {
			for _, ms := range stores[f] {
				coarse, _, visited := coarseRoundings(p, ms.st.Val)
				if ms.bind != nil {
					for _, a := range ms.bind {
						c2, _, v2 := coarseRoundings(p, a)
						coarse = append(coarse, c2...)
						visited += v2
					}
				}
				if len(coarse) == 0 {
					r.Discharge("E4-INTEGER", shortFn(fn), "field:"+strings.TrimPrefix(f, "app.segMeta."), p.pos(ms.st.Pos()), fmt.Sprintf("integer arithmetic only (slice of %d values)", visited))
				} else {
					r.Violate("E4-INTEGER", shortFn(fn), "field:"+strings.TrimPrefix(f, "app.segMeta."), p.pos(ms.st.Pos()),
						"the value goes through a float-to-integer rounding: "+describeValue(p, coarse[0])+" (for loop durations that are not whole seconds, e.g. 8.008 s at timescale 30000, a tick is lost per loop and segments overlap at every wrap)", nil)
				}
			}
		}
	}
	// (b) rewriting of the served segment
	r.Rule("E4-REWRITE", "sequence number, decode time, sidx time and TTML timestamps of the served segment come from the metadata", 4)
	var tfdtShift ssa.Value
	for _, b := range gen.Blocks {
		for _, in := range b.Instrs {
			switch x := in.(type) {
			case *ssa.Store:
				f, ok := fieldOfAddr(x.Addr)
				if !ok {
					continue
				}
				switch f {
				case "mp4.MfhdBox.SequenceNumber":
					q := newDepQueryLocal(p, onField("app.segMeta.newNr"))
					r.Decide(q.depends(x.Val, 0), "E4-REWRITE", shortFn(gen), "store:Mfhd.SequenceNumber<-newNr", p.pos(x.Pos()), "depends on segMeta.newNr",
						"the sequence number written into the fragment cannot depend on the segment's new number", nil)
				case "mp4.SidxBox.EarliestPresentationTime":
					q := newDepQueryLocal(p, onField("app.segMeta.newTime"))
					r.Decide(q.depends(x.Val, 0), "E4-REWRITE", shortFn(gen), "store:Sidx.EarliestPresentationTime<-newTime", p.pos(x.Pos()), "depends on segMeta.newTime",
						"the sidx earliest presentation time cannot depend on the segment's new time", nil)
				}
			case *ssa.Call:
				callee := x.Call.StaticCallee()
				if callee == nil {
					continue
				}
				if callee.Name() == "SetBaseMediaDecodeTime" && strings.Contains(callee.String(), "mp4.TfdtBox") {
					arg := x.Call.Args[len(x.Call.Args)-1]
					q := newDepQueryLocal(p, onField("app.segMeta.newTime"))
					r.Decide(q.depends(arg, 0), "E4-REWRITE", shortFn(gen), "tfdt<-newTime", p.pos(x.Pos()), "the decode time written depends on segMeta.newTime",
						"the decode time written into the fragment cannot depend on the segment's new time", nil)
					if bo, ok := arg.(*ssa.BinOp); ok {
						tfdtShift = bo.Y
						if _, isCall := bo.Y.(*ssa.Call); isCall {
							tfdtShift = bo.X
						}
					}
				}
			}
		}
	}
	shiftFn := p.mustFunc(r, pkgApp, "shiftStppTimes")
	if shiftFn != nil {
		n := 0
		for _, s := range callsTo(p, shiftFn) {
			if s.Parent() != gen {
				continue
			}
			n++
			args := s.Common().Args
			same := tfdtShift != nil && (args[2] == tfdtShift || sameValue(args[2], tfdtShift))
			r.Decide(same, "E4-REWRITE", shortFn(gen), "shiftStppTimes.timeShift==tfdt-shift", p.pos(s.Pos()), "TTML timestamps are shifted by the very value the decode time is shifted by",
				"embedded TTML timestamps are shifted by another value than the decode time", nil)
			q := newDepQueryLocal(p, onField("app.segMeta.newNr"))
			r.Decide(q.depends(args[3], 0), "E4-REWRITE", shortFn(gen), "shiftStppTimes.nr<-newNr", p.pos(s.Pos()), "depends on segMeta.newNr",
				"the number given to the stpp rewriter cannot depend on the segment's new number", nil)
		}
		if n == 0 {
			r.Violate("E4-REWRITE", shortFn(gen), "calls:shiftStppTimes", p.pos(gen.Pos()), "stpp segments are no longer rewritten by shiftStppTimes", nil)
		}
	}
}

func checkC12(p *Program, r *Reporter) {
	unitsRuleByName(p, r, "addTimeSubs", "writeTimeSubsMediaSegment", "createSubtitlesStppMediaSegment", "createSubtitlesWvttMediaSegment")
	r.Explanation = "Static analysis of structural necessary conditions of C12: (a) the generated stpp and wvtt segments get their number, decode time and duration from the reference video segment (dependence of the generator arguments on the reference metadata and its timescale), the UTC time of the cues additionally from the availability start time, and both generators receive the very same values; " +
		"(b) the millisecond timescale is one constant at all its sites (MPD template, timeline conversion, init segment, segment time conversion); (c) the subtitle adaptation set mirrors the video template: start number, duration and SegmentTimeline are derived from the video adaptation set's. " +
		"Which cues a segment contains, their clipping, ordering and text are not decided."
	r.NotCovered = "cue intervals per UTC second, clipping at segment ends, cue text, wvtt sample tiling"
	r.Assumptions = []string{"dependence slices over-approximate: a missing dependence is definite"}
	w := p.mustFunc(r, pkgApp, "writeTimeSubsMediaSegment")
	stpp := p.mustFunc(r, pkgApp, "createSubtitlesStppMediaSegment")
	wvtt := p.mustFunc(r, pkgApp, "createSubtitlesWvttMediaSegment")
	ats := p.mustFunc(r, pkgApp, "addTimeSubs")
	if w == nil || stpp == nil || wvtt == nil || ats == nil {
		return
	}
	r.Rule("E4-SUBSREF", "generated subtitle segments take number, time and duration from the reference video segment", 10)
	want := []struct {
		idx   int
		srcs  []string
		label string
	}{
		{0, []string{"app.segMeta.newNr"}, "number"},
		{1, []string{"app.segMeta.newTime", "app.segMeta.timescale"}, "decode time"},
		{2, []string{"app.segMeta.newDur", "app.segMeta.timescale"}, "duration"},
		{4, []string{"app.segMeta.newTime", "app.ResponseConfig.StartTimeS"}, "UTC time"},
	}
	var first []ssa.Value
	for _, g := range []*ssa.Function{stpp, wvtt} {
		n := 0
		for _, s := range callsTo(p, g) {
			if !inCluster(w, s.Parent()) {
				continue
			}
			n++
			args := s.Common().Args
			for _, wt := range want {
				for _, src := range wt.srcs {
					q := newDepQueryLocal(p, onField(src))
					r.Decide(q.depends(args[wt.idx], 0), "E4-SUBSREF", shortFn(g), fmt.Sprintf("arg%d(%s)<-%s", wt.idx, wt.label, src), p.pos(s.Pos()), "depends on "+src,
						fmt.Sprintf("the %s of the generated subtitle segment cannot depend on %s of the reference video segment", wt.label, src), nil)
				}
			}
			if first == nil {
				first = args
			} else {
				same := true
				for _, i := range []int{0, 1, 2, 4} {
					if args[i] != first[i] && !sameValue(args[i], first[i]) {
						same = false
					}
				}
				r.Decide(same, "E4-SUBSREF", shortFn(w), "stpp/wvtt-same-arguments", p.pos(s.Pos()), "both generators receive the same number, time, duration and UTC time",
					"the stpp and the wvtt generator are called with different number/time/duration values", nil)
			}
		}
		if n == 0 {
			r.Violate("E4-SUBSREF", shortFn(w), "calls:"+shortFn(g), p.pos(w.Pos()), "the subtitle generator is not called from writeTimeSubsMediaSegment", nil)
		}
	}
	// (b) one millisecond timescale
	r.Rule("E5-TIMESCALE", "the subtitle timescale is the same constant at all its sites", 4)
	consts := map[string]int64{}
	constPos := map[string]string{}
	note := func(site string, v ssa.Value, pos string) {
		if k, ok := constInt(v); ok {
			consts[site] = k
			constPos[site] = pos
		}
	}
	for _, fn := range livesimFuncs(p) {
		for _, b := range fn.Blocks {
			for _, in := range b.Instrs {
				c, ok := in.(*ssa.Call)
				if !ok || c.Call.StaticCallee() == nil {
					continue
				}
				callee := c.Call.StaticCallee()
				switch {
				case callee.Name() == "createTimeSubsInitSegment":
					note("init segment timescale in "+shortFn(fn), c.Call.Args[2], p.pos(c.Pos()))
				case callee.Name() == "changeTimelineTimescale" && fn == ats:
					note("timeline conversion target", c.Call.Args[2], p.pos(c.Pos()))
				case callee.Name() == "SetTimescale" && fn == ats:
					note("MPD template timescale", c.Call.Args[len(c.Call.Args)-1], p.pos(c.Pos()))
				}
			}
		}
	}
	if r2s := p.mustFunc(r, pkgApp, "rep2SubsTime"); r2s != nil {
		for _, b := range r2s.Blocks {
			for _, in := range b.Instrs {
				if bo, ok := in.(*ssa.BinOp); ok && bo.Op.String() == "*" {
					note("segment time conversion", bo.Y, p.pos(bo.Pos()))
					note("segment time conversion", bo.X, p.pos(bo.Pos()))
				}
			}
		}
	}
	var ref int64 = -1
	var sites []string
	for s := range consts {
		sites = append(sites, s)
	}
	sortStrings(sites)
	for _, s := range sites {
		if ref < 0 {
			ref = consts[s]
		}
		r.Decide(consts[s] == ref, "E5-TIMESCALE", "app.SUBS_TIME_TIMESCALE", s, constPos[s], fmt.Sprintf("= %d", consts[s]),
			fmt.Sprintf("the subtitle timescale is %d here but %d at %s: declared and served subtitle times disagree", consts[s], ref, sites[0]), nil)
	}
	// (c) MPD mirrors the video template
	r.Rule("E4-MIRROR", "subtitle adaptation set: start number, duration and timeline derived from the video adaptation set", 3)
	mirror := map[string][]string{
		"mpd.MultipleSegmentBaseType.StartNumber":     {"mpd.MultipleSegmentBaseType.StartNumber"},
		"mpd.MultipleSegmentBaseType.Duration":        {"mpd.MultipleSegmentBaseType.Duration"},
		"mpd.MultipleSegmentBaseType.SegmentTimeline": {"mpd.MultipleSegmentBaseType.SegmentTimeline"},
	}
	for _, b := range ats.Blocks {
		for _, in := range b.Instrs {
			st, ok := in.(*ssa.Store)
			if !ok {
				continue
			}
			f, ok := fieldOfAddr(st.Addr)
			if !ok {
				continue
			}
			for _, src := range mirror[f] {
				q := newDepQueryLocal(p, onField(src))
				q.intra = false
				r.Decide(q.depends(st.Val, 0), "E4-MIRROR", shortFn(ats), "store:"+f[strings.LastIndex(f, ".")+1:], p.pos(st.Pos()), "derived from the video adaptation set's "+src[strings.LastIndex(src, ".")+1:],
					"the subtitle template's "+f+" is not derived from the video adaptation set's: the subtitle timeline no longer mirrors the video timeline", nil)
			}
		}
	}
}
