package main

import (
	"fmt"
	"go/token"
	"sort"
	"strings"

	"golang.org/x/tools/go/ssa"
)

func init() { register("C09", checkC09) }

func isCallTo(in ssa.Instruction, name string) (*ssa.Call, bool) {
	c, ok := in.(*ssa.Call)
	if !ok {
		return nil, false
	}
	if f := c.Call.StaticCallee(); f != nil && f.String() == name {
		return c, true
	}
	return nil, false
}

func checkC09(p *Program, r *Reporter) {
	unitsRuleByName(p, r, "writeChunkedSegment")
	r.Explanation = "Static analysis of structural necessary conditions of C09: (a) in the chunk pacing loop every call of the chunk writer is either control-dependent on a comparison 'chunk end < now' whose left side depends on the accumulated chunk durations, the segment's media time and the availability start time and whose right side depends on the request time, or follows, in its block, a sleep whose duration depends on all of these; " +
		"(b) the chunk writer flushes on every successful return (the flush is conditional only on the writer implementing http.Flusher); (c) the duration recorded for every chunk closed inside the sample loop depends on the sample durations; the chunk duration handed to the splitter and used as divisor is proven positive (E3-A); " +
		"(d) chunk writing happens only after the segment generator (which applies the availability test shared with whole-segment delivery) returned without error; (e) the first chunk is created with the segment's styp, chunks created in the loop without. " +
		"Equality with the unchunked samples, contiguity and the bound 'no chunk spans more than segment - offset' are not decided."
	r.NotCovered = "sample equality with whole-segment mode, contiguity/order of chunks, the per-chunk media-time bound, wall-clock behaviour of time.Sleep"
	r.Assumptions = []string{"time.Sleep(d) returns not earlier than d", "dependence slices over-approximate: a missing dependence is definite", "E3-A assumptions as in C08"}
	wcs := p.mustFunc(r, pkgApp, "writeChunkedSegment")
	wc := p.mustFunc(r, pkgApp, "writeChunk")
	cs := p.mustFunc(r, pkgApp, "chunkSegment")
	gen := p.mustFunc(r, pkgApp, "genLiveSegment")
	if wcs == nil || wc == nil || cs == nil || gen == nil {
		return
	}
	var nowPrm *ssa.Parameter
	for _, prm := range wcs.Params {
		if prm.Name() == "nowMS" {
			nowPrm = prm
		}
	}
	if nowPrm == nil {
		r.Broken("writeChunkedSegment has no nowMS parameter")
		return
	}
	availFields := []string{"app.chunk.dur", "app.segMeta.newTime", "app.ResponseConfig.StartTimeS"}
	isAvail := func(v ssa.Value) (bool, string) {
		for _, f := range availFields {
			q := newDepQuery(p, onField(f))
			q.noParams = true // the pacing values are computed in this function from its own loads
			if !q.depends(v, 0) {
				return false, f
			}
		}
		return true, ""
	}
	isNow := func(v ssa.Value) bool { return localDependsOnParam(p, v, nowPrm) }
	// the error of the segment generator
	var genErr ssa.Value
	var genCall *ssa.Call
	for _, b := range wcs.Blocks {
		for _, in := range b.Instrs {
			if c, ok := in.(*ssa.Call); ok && c.Call.StaticCallee() == gen {
				genCall = c
				for _, e := range errorValuesOfCall(c) {
					genErr = e
				}
			}
		}
	}
	r.Rule("E5-PACING", "every path to a chunk write passes the true edge of chunk-end < now (roles and dependences checked) or a sleep for the remaining time", 1)
	r.Rule("E5-AFTERGEN", "chunks are written only after the segment generator (availability test included) succeeded", 1)
	nWrites := 0
	// a closure of the delivery function that writes a chunk counts as the writer at each of its calls
	writers := map[*ssa.Function]bool{wc: true}
	for _, an := range wcs.AnonFuncs {
		for _, ab := range an.Blocks {
			for _, ain := range ab.Instrs {
				if ac, ok := ain.(*ssa.Call); ok && ac.Call.StaticCallee() == wc {
					writers[an] = true
				}
			}
		}
	}
	var clusterBlocks []*ssa.BasicBlock
	for _, cf := range cluster(wcs) {
		if writers[cf] {
			continue
		}
		clusterBlocks = append(clusterBlocks, cf.Blocks...)
	}
	for _, b := range clusterBlocks {
		if writers[b.Parent()] {
			continue
		}
		for idx, in := range b.Instrs {
			c, ok := in.(*ssa.Call)
			if !ok || c.Call.StaticCallee() == nil || !writers[c.Call.StaticCallee()] {
				continue
			}
			nWrites++
			pos := p.pos(c.Pos())
			// (a) every path from the loop header to the write passes the true edge of 'chunk end < now'
			// (roles checked) or a sleep whose duration depends on chunk end and request time
			validCond := func(cd cond) (bool, string) {
				bo, isBo := cd.V.(*ssa.BinOp)
				if !isBo {
					return false, ""
				}
				var avail, now ssa.Value
				switch {
				case (bo.Op == token.LSS || bo.Op == token.LEQ) && cd.Pos, (bo.Op == token.GEQ || bo.Op == token.GTR) && !cd.Pos:
					avail, now = bo.X, bo.Y
				case (bo.Op == token.GTR || bo.Op == token.GEQ) && cd.Pos, (bo.Op == token.LEQ || bo.Op == token.LSS) && !cd.Pos:
					avail, now = bo.Y, bo.X
				default:
					return false, ""
				}
				if !isNow(avail) && !isNow(now) {
					return false, "" // not a comparison with the request time
				}
				okA, miss := isAvail(avail)
				if okA && isNow(now) {
					return true, ""
				}
				if !okA && isNow(avail) {
					if okN, _ := isAvail(now); okN {
						return false, "the guarding comparison " + bo.String() + " is reversed: the chunk is written while its end time is still in the future"
					}
				}
				if !okA {
					return false, "the chunk end time compared in " + bo.String() + " cannot depend on " + miss
				}
				return false, ""
			}
			validSleep := func(blk *ssa.BasicBlock, before int) (bool, string) {
				for k := before - 1; k >= 0; k-- {
					if sl, ok := isCallTo(blk.Instrs[k], "time.Sleep"); ok {
						arg := sl.Call.Args[0]
						okA, miss := isAvail(arg)
						switch {
						case okA && isNow(arg):
							return true, ""
						case !okA:
							return false, "the sleep before the write cannot depend on " + miss
						default:
							return false, "the sleep before the write cannot depend on the request time"
						}
					}
				}
				return false, ""
			}
			// the pacing loop: the innermost loop around the write, in this function or around the (unique) call of it
			headerOf := func(x *ssa.BasicBlock) *ssa.BasicBlock {
				for d := x.Idom(); d != nil; d = d.Idom() {
					if loopExitTest(d) && naturalLoop(d)[x] {
						return d
					}
				}
				return nil
			}
			header := headerOf(b)
			for fn := b.Parent(); header == nil; {
				site := uniqueCallSite(fn)
				if site == nil {
					break
				}
				header = headerOf(site.Block())
				fn = site.Parent()
			}
			okPace, why := true, "every path to the write passes 'chunk end < now' or a sleep for the remaining time"
			if header == nil {
				okPace, why = false, "the chunk write is not inside the pacing loop"
			} else {
				onPath := map[*ssa.BasicBlock]bool{}
				var back func(x *ssa.BasicBlock, before int) bool
				back = func(x *ssa.BasicBlock, before int) bool {
					if ok, w := validSleep(x, before); ok {
						return true
					} else if w != "" {
						why = w
					}
					if x == header {
						return false
					}
					if onPath[x] {
						return true // a cycle inside the body: judged on its other entries
					}
					onPath[x] = true
					defer delete(onPath, x)
					if len(x.Preds) == 0 {
						// entry of a helper: continue before its (unique) call
						if site := uniqueCallSite(x.Parent()); site != nil {
							return back(site.Block(), instrIndex(site.(ssa.Instruction)))
						}
						return false
					}
					for _, pr := range x.Preds {
						if ec, ok := edgeCond(pr, x); ok {
							if v, w := validCond(ec); v {
								continue
							} else if w != "" {
								why = w
							}
						}
						if !back(pr, len(pr.Instrs)) {
							return false
						}
					}
					return len(x.Preds) > 0
				}
				if !back(b, idx) {
					okPace = false
					if why == "every path to the write passes 'chunk end < now' or a sleep for the remaining time" {
						why = "a path from the loop header reaches the write without a guarding comparison and without a sleep"
					}
				}
			}
			r.Decide(okPace, "E5-PACING", shortFn(wcs), "call:writeChunk", pos, why, "a chunk can be written before its end time: "+why, nil)
			// (d)
			okGen := false
			if genErr != nil {
				for _, cd := range effectiveDomConds(b) {
					if is, nonNilOnTrue := nilTest(cd.V, genErr); is && nonNilOnTrue != cd.Pos {
						okGen = true
					}
				}
			}
			r.Decide(okGen, "E5-AFTERGEN", shortFn(wcs), "call:writeChunk", pos, "dominated by the nil side of the segment generator's error test",
				"a chunk is written on a path on which the segment generator (and its availability test) did not succeed", nil)
		}
	}
	if genCall == nil {
		r.Violate("E5-AFTERGEN", shortFn(wcs), "call:genLiveSegment", p.pos(wcs.Pos()), "chunked delivery no longer goes through genLiveSegment, the generator shared with whole-segment delivery", nil)
	}
	// (b) flush
	r.Rule("E5-FLUSH", "the chunk writer flushes before every successful return", 1)
	fw := factsOf(wc)
	var flushBlocks []*ssa.BasicBlock
	for _, b := range wc.Blocks {
		for _, in := range b.Instrs {
			if c, ok := in.(*ssa.Call); ok && c.Call.IsInvoke() && c.Call.Method.Name() == "Flush" {
				flushBlocks = append(flushBlocks, b)
			}
		}
	}
	for _, b := range wc.Blocks {
		ret, ok := b.Instrs[len(b.Instrs)-1].(*ssa.Return)
		if !ok || !isNilConst(ret.Results[0]) {
			continue
		}
		okFlush, why := false, "no Flush call in the chunk writer"
		for _, fb := range flushBlocks {
			if fb.Dominates(b) {
				okFlush, why = true, "dominated by Flush"
				continue
			}
			// conditional flush: its only control dependence is the comma-ok of the Flusher assertion, whose block dominates the return
			cds := fw.cdeps[fb]
			if len(cds) == 1 && cds[0].Pos && cds[0].At.Dominates(b) {
				if ex, ok := cds[0].V.(*ssa.Extract); ok && ex.Index == 1 {
					if ta, ok := ex.Tuple.(*ssa.TypeAssert); ok && ta.CommaOk && ta.AssertedType.String() == "net/http.Flusher" {
						okFlush, why = true, "flush conditional only on the writer implementing http.Flusher; the assertion dominates the return"
						continue
					}
				}
			}
			if !okFlush {
				why = "the Flush call does not cover this return"
			}
		}
		r.Decide(okFlush, "E5-FLUSH", shortFn(wc), "return-nil", p.pos(instrPos(ret)), why, "a chunk can be reported written without being flushed to the client: "+why, nil)
	}
	// (c) chunk durations
	r.Rule("E4-CHUNKDUR", "duration recorded for a chunk closed inside the sample loop depends on the sample durations", 1)
	for _, b := range cs.Blocks {
		if !blockInCycle(b) {
			continue
		}
		for _, in := range b.Instrs {
			st, ok := in.(*ssa.Store)
			if !ok {
				continue
			}
			if f, ok := fieldOfAddr(st.Addr); ok && f == "app.chunk.dur" {
				okDep := valueDependsOnField(p, st.Val, "mp4.Sample.Dur")
				r.Decide(okDep, "E4-CHUNKDUR", shortFn(cs), "store:chunk.dur", p.pos(st.Pos()), "depends on mp4.Sample.Dur",
					"the duration recorded for a chunk cannot depend on the durations of its samples: when the nominal chunk duration is not a whole number of samples the chunk is written before its real end", nil)
			}
		}
	}
	// the nominal chunk duration is the segment duration minus the advertised offset: of the request options
	// only availabilityTimeOffset may enter it (the MPD advertises that offset and nothing else)
	r.Rule("E4-NOMINAL", "nominal chunk duration handed to the splitter: computed from the segment duration and, of all URL options, from availabilityTimeOffset only", 1)
	durIdx := -1
	for i, prm := range cs.Params {
		if prm.Name() == "chunkDur" {
			durIdx = i
		}
	}
	if durIdx < 0 {
		r.Broken("chunkSegment has no chunkDur parameter")
	} else {
		for _, s := range callsTo(p, cs) {
			arg := s.Common().Args[durIdx]
			leaves := map[string]bool{}
			sliceVisitUntil(p, arg, true, func(x ssa.Value) {
				if f, ok := loadedField(x); ok {
					leaves[f] = true
				}
			}, nil)
			var other []string
			for f := range leaves {
				if strings.HasPrefix(f, "app.ResponseConfig.") && !strings.HasPrefix(f, "app.ResponseConfig.AvailabilityTimeOffsetS") {
					other = append(other, f)
				}
			}
			sort.Strings(other)
			switch {
			case !leaves["app.ResponseConfig.AvailabilityTimeOffsetS"] || !leaves["app.asset.SegmentDurMS"]:
				r.Violate("E4-NOMINAL", shortFn(s.Parent()), "chunkDur-argument", p.pos(s.Pos()), "the chunk duration handed to chunkSegment does not depend on both the segment duration and availabilityTimeOffset: chunks are not sized to what the advertised offset leaves", nil)
			case len(other) > 0:
				r.Violate("E4-NOMINAL", shortFn(s.Parent()), "chunkDur-argument", p.pos(s.Pos()), "the chunk duration handed to chunkSegment also depends on the URL option(s) "+strings.Join(other, ", ")+": the MPD advertises availabilityTimeOffset only, so a chunk can span more media time than the offset leaves", nil)
			default:
				r.Discharge("E4-NOMINAL", shortFn(s.Parent()), "chunkDur-argument", p.pos(s.Pos()), "depends on asset.SegmentDurMS and ResponseConfig.AvailabilityTimeOffsetS and on no other URL option")
			}
		}
	}
	e := sharedE3(p, r)
	r.Rule("E3-A", "chunk arithmetic: divisors proven non-zero for every request", 1)
	e.classA("E3-A", []*ssa.Function{wcs, cs})
	// (e) styp
	r.Rule("E5-STYP", "first chunk created with the segment's styp, later ones without", 2)
	cc := p.mustFunc(r, pkgApp, "createChunk")
	if cc != nil {
		first := 0
		for _, s := range callsTo(p, cc) {
			if s.Parent() != cs {
				continue
			}
			arg := s.Common().Args[0]
			if blockInCycle(s.Block()) {
				r.Decide(isNilConst(arg), "E5-STYP", shortFn(cs), "createChunk-in-loop", p.pos(s.Pos()), "chunks after the first carry no styp", "a chunk other than the first is created with a segment type box", nil)
			} else {
				first++
				f, ok := loadedField(arg)
				r.Decide(ok && f == "mp4.MediaSegment.Styp", "E5-STYP", shortFn(cs), "createChunk-first", p.pos(s.Pos()), "the first chunk gets the segment's styp",
					fmt.Sprintf("the first chunk is not created with the segment's styp box (argument %s)", arg.String()), nil)
			}
		}
		if first != 1 {
			r.Violate("E5-STYP", shortFn(cs), "createChunk-first", p.pos(cs.Pos()), fmt.Sprintf("%d chunk creations outside the sample loop (expected exactly one: the first chunk)", first), nil)
		}
	}
	if nWrites == 0 {
		r.Broken("no writeChunk call found in writeChunkedSegment")
	}
}
