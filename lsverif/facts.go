package main

// Validated-field facts: ranges of struct fields that hold for every instance
// that handler code can observe, because the only code that fills the field
// rejects other values. Each table entry says WHERE to look; the code must
// still SHOW the guard on every run (structural re-verification), otherwise the
// fact is withdrawn and the check that needed it reports CHECK-BROKEN.

import (
	"go/token"
	"strings"

	"golang.org/x/tools/go/ssa"
)

type fieldFactSpec struct {
	field       string // "app.SegStatusCodes.Cycle"
	lo, hi      int64
	pkg         string
	establisher string // function that contains the guard
	kind        string // "accerr": failing side stores non-nil into strConvAccErr.err; "errret": failing side returns a non-nil error
	reason      string
}

var fieldFactTable = []fieldFactSpec{
	{field: "app.SegStatusCodes.Cycle", lo: 1, hi: posInf, pkg: pkgApp, establisher: "(*strConvAccErr).ParseSegStatusCodes", kind: "accerr",
		reason: "statuscode patterns with cycle <= 0 are rejected while parsing (C14d)"},
	{field: "app.SegStatusCodes.Rsq", lo: 0, hi: posInf, pkg: pkgApp, establisher: "(*strConvAccErr).ParseSegStatusCodes", kind: "accerr",
		reason: "negative rsq rejected while parsing (C14d)"},
	{field: "app.ResponseConfig.PeriodsPerHour*", lo: 1, hi: 3600, pkg: pkgApp, establisher: "verifyAndFillConfig", kind: "errret",
		reason: "periods per hour outside 1..3600 are rejected before the configuration is handed out (C06c)"},
	{field: "app.ResponseConfig.TimeSubsDurMS", lo: 1, hi: posInf, pkg: pkgApp, establisher: "verifyAndFillConfig", kind: "errret",
		reason: "cue duration <= 0 is rejected before the configuration is handed out (C12 fault clause)"},
	{field: "recv.trData.timeScaleIn", lo: 1, hi: posInf, pkg: pkgRecv, establisher: "(*channel).addInitDataAndUpdateTimescale", kind: "ctorguard",
		reason: "an init segment with media timescale 0 is rejected before the track is registered (C17d)"},
	{field: "recv.trData.timeScaleOut", lo: 1, hi: posInf, pkg: pkgRecv, establisher: "(*channel).addInitDataAndUpdateTimescale", kind: "ctorguard",
		reason: "output timescale 0 is rejected before the track is registered (C17d)"},
	{field: "app.SegStatusCodes.Code", lo: 400, hi: 599, pkg: pkgApp, establisher: "(*strConvAccErr).ParseSegStatusCodes", kind: "accerr",
		reason: "codes outside 400-599 rejected while parsing (C14d)"},
}

// lenFactSpec: minimum length of a slice field of objects visible to handlers.
type lenFactSpec struct {
	field       string
	minLen      int64
	pkg         string
	establisher string // function that registers the object after testing the length
	regField    string // the map field the object is registered into
	reason      string
}

var lenFactTable = []lenFactSpec{
	{field: "app.RepData.Segments", minLen: 1, pkg: pkgApp, establisher: "(*assetMgr).loadAsset", regField: "app.asset.Reps",
		reason: "representations without segments are refused before they are registered in asset.Reps (C15c)"},
}

func (ff *fieldFacts) minLenOfField(f string) (int64, bool) {
	if ff == nil {
		return 0, false
	}
	n, ok := ff.minLens[f]
	return n, ok
}

// verifyLenFact: in the establisher, every MapUpdate into regField stores a value v
// such that the update is dominated by the test len(v.field) == 0 -> error exit;
// and the field is stored only by code that cannot run while serving.
func verifyLenFact(p *Program, spec lenFactSpec) (bool, string) {
	fn := p.lookupFunc(spec.pkg, spec.establisher)
	if fn == nil {
		return false, "establisher " + spec.establisher + " not found"
	}
	f := factsOf(fn)
	n := 0
	// all registrations (anywhere in the repository) must be in the establisher
	for _, g := range p.allRepoFuncs() {
		for _, b := range g.Blocks {
			for _, in := range b.Instrs {
				mu, ok := in.(*ssa.MapUpdate)
				if !ok {
					continue
				}
				if fld, ok := loadedField(mu.Map); !ok || fld != spec.regField {
					continue
				}
				if g != fn {
					return false, "objects are also registered into " + spec.regField + " in " + shortFn(g) + " at " + p.pos(mu.Pos())
				}
				n++
				guarded := false
				for _, c := range f.dominatingConds(b) {
					bo, ok := c.V.(*ssa.BinOp)
					if !ok {
						continue
					}
					lc, ok := bo.X.(*ssa.Call)
					if !ok {
						continue
					}
					bi, ok := lc.Call.Value.(*ssa.Builtin)
					if !ok || bi.Name() != "len" {
						continue
					}
					fld, ok := loadedField(lc.Call.Args[0])
					if !ok || fld != spec.field {
						continue
					}
					// the tested object is the registered one
					var base ssa.Value
					switch a := lc.Call.Args[0].(type) {
					case *ssa.UnOp:
						if fa, ok := a.X.(*ssa.FieldAddr); ok {
							base = fa.X
						}
					}
					if base == nil || !sameValue(base, mu.Value) {
						continue
					}
					k, ok := constInt(bo.Y)
					if !ok {
						continue
					}
					op := bo.Op
					if !c.Pos {
						op = negateOp(op)
					}
					if (op == token.NEQ && k == 0 && spec.minLen <= 1) || (op == token.GTR && k+1 >= spec.minLen) || (op == token.GEQ && k >= spec.minLen) {
						guarded = true
					}
				}
				if !guarded {
					return false, "registration at " + p.pos(mu.Pos()) + " is not dominated by a test that len(" + spec.field + ") >= " + itv{lo: spec.minLen, hi: spec.minLen}.String()
				}
			}
		}
	}
	if n == 0 {
		return false, "no registration into " + spec.regField + " found in " + spec.establisher
	}
	for _, st := range fieldStores(p, spec.field) {
		if _, serving := p.reachH[st.Parent()]; serving {
			return false, "field is stored while serving in " + shortFn(st.Parent())
		}
	}
	return true, "every registration into " + spec.regField + " is dominated by the length test; the field is written at start-up only"
}

type fieldFacts struct {
	p      *Program
	minLens map[string]int64
	ranges map[string]itv
	notes  []string
	failed []string
}

func (ff *fieldFacts) rangeOfField(f string) (itv, bool) {
	if ff == nil {
		return itv{}, false
	}
	r, ok := ff.ranges[f]
	return r, ok
}

// fieldStores lists every Store to the given struct field in repository code.
func fieldStores(p *Program, field string) []*ssa.Store {
	var out []*ssa.Store
	for _, fn := range p.allRepoFuncs() {
		for _, b := range fn.Blocks {
			for _, in := range b.Instrs {
				st, ok := in.(*ssa.Store)
				if !ok {
					continue
				}
				if f, ok := fieldOfAddr(st.Addr); ok && f == field {
					out = append(out, st)
				}
			}
		}
	}
	return out
}

func buildFieldFacts(p *Program, r *Reporter, needed map[string]bool) *fieldFacts {
	ff := &fieldFacts{p: p, ranges: map[string]itv{}, minLens: map[string]int64{}}
	for _, spec := range lenFactTable {
		if needed != nil && !needed[spec.field] {
			continue
		}
		ok, msg := verifyLenFact(p, spec)
		fnName := spec.establisher
		if ok {
			ff.minLens[spec.field] = spec.minLen
			ff.notes = append(ff.notes, "len("+spec.field+") >= 1: "+msg)
			if r != nil {
				r.Discharge("FIELD-FACT", fnName, "lenguard:"+spec.field, "-", msg+" — "+spec.reason)
			}
		} else {
			ff.failed = append(ff.failed, spec.field+": "+msg)
			if r != nil {
				r.Violate("FIELD-FACT", fnName, "lenguard:"+spec.field, "-", "length validation of "+spec.field+" not found: "+msg+" ("+spec.reason+")", nil)
			}
		}
	}
	accErrProtocolOK, why := verifyAccErrProtocol(p)
	errRetProtocolOK, why2 := verifyErrRetProtocol(p)
	for _, spec := range fieldFactTable {
		if needed != nil && !needed[spec.field] {
			continue
		}
		fn := p.lookupFunc(spec.pkg, spec.establisher)
		if fn == nil {
			ff.failed = append(ff.failed, spec.field+": establisher "+spec.establisher+" not found")
			continue
		}
		ok, msg := verifyFieldGuard(p, fn, spec)
		if ok && spec.kind == "accerr" && !accErrProtocolOK {
			ok, msg = false, "accumulated-error protocol premise failed: "+why
		}
		if ok && spec.kind == "errret" && !errRetProtocolOK {
			ok, msg = false, "verify-before-return protocol premise failed: "+why2
		}
		if ok && spec.kind == "errret" {
			// the field may be stored by the URL parser (which runs before the validation) and by the
			// constructor of the default configuration only
			base := strings.TrimSuffix(spec.field, "*")
			allowed := p.reachableFrom(p.lookupFunc(pkgApp, "processURLCfg"))
			for _, st := range fieldStores(p, base) {
				if !allowed[st.Parent()] {
					ok, msg = false, "field is also stored in "+shortFn(st.Parent())+" at "+p.pos(st.Pos())+", which does not pass through the validation"
				}
			}
		}
		if ok && spec.kind == "ctorguard" {
			if ok2, why3 := verifyEscapeAfterGuard(p, fn, spec); !ok2 {
				ok, msg = false, why3
			}
		}
		if ok && spec.kind != "errret" {
			// every store to the field is inside the establisher
			for _, st := range fieldStores(p, spec.field) {
				if st.Parent() != fn {
					ok, msg = false, "field is also stored in "+shortFn(st.Parent())+" at "+p.pos(st.Pos())+" which does not apply the guard"
				}
			}
		}
		if ok {
			ff.ranges[spec.field] = itv{lo: spec.lo, hi: spec.hi, why: "validated field " + spec.field + " (" + msg + ")"}
			ff.notes = append(ff.notes, spec.field+" in "+itv{lo: spec.lo, hi: spec.hi}.String()+": "+msg)
			if r != nil {
				r.Discharge("FIELD-FACT", shortFn(fn), "guard:"+spec.field, p.pos(fn.Pos()), msg+" — "+spec.reason)
			}
		} else {
			ff.failed = append(ff.failed, spec.field+": "+msg)
			if r != nil {
				r.Violate("FIELD-FACT", shortFn(fn), "guard:"+spec.field, p.pos(fn.Pos()),
					"validation of "+spec.field+" not found: "+msg+" ("+spec.reason+")", nil)
			}
		}
	}
	return ff
}

// verifyFieldGuard looks in fn for `if <load field> OP const` whose failing
// side (values outside [lo,hi]) reaches the rejection action.
func verifyFieldGuard(p *Program, fn *ssa.Function, spec fieldFactSpec) (bool, string) {
	needLo := spec.lo != negInf
	needHi := spec.hi != posInf
	gotLo, gotHi := !needLo, !needHi
	var where []string
	condWhy := ""
	// the guard may sit in a helper that only the establisher calls (helper extraction): the helper's call must
	// then be unconditional in the establisher and its error returned
	var blocks []*ssa.BasicBlock
	helperOK := map[*ssa.Function]string{}
	for _, cf := range cluster(fn) {
		if cf != fn {
			why := ""
			for h := cf; h != fn && why == ""; {
				site := uniqueCallSite(h)
				if site == nil {
					why = "helper " + shortFn(h) + " has several callers"
					break
				}
				if w := guardConditionalOn(p, site.Parent(), site.Block(), spec); w != "" {
					why = w
				}
				if spec.kind != "accerr" {
					c, isCall := site.(*ssa.Call)
					if !isCall {
						why = "helper called in a go/defer statement"
						break
					}
					for _, e := range errorValuesOfCall(c) {
						if e == nil {
							why = "the error of " + shortFn(h) + " is discarded"
						} else if ok, w := errorReturnedWhenNonNil(e); !ok {
							why = "the error of " + shortFn(h) + " is not returned: " + w
						}
					}
				}
				h = site.Parent()
			}
			helperOK[cf] = why
		}
		blocks = append(blocks, cf.Blocks...)
	}
	for _, b := range blocks {
		ifi, ok := b.Instrs[len(b.Instrs)-1].(*ssa.If)
		if !ok {
			continue
		}
		bo, ok := ifi.Cond.(*ssa.BinOp)
		if !ok {
			continue
		}
		if b.Parent() != fn && helperOK[b.Parent()] != "" {
			continue
		}
		var c int64
		var op token.Token
		if f, ok := loadedField(bo.X); ok && f == spec.field {
			cv, ok := constInt(bo.Y)
			if !ok {
				continue
			}
			c, op = cv, bo.Op
		} else if f, ok := loadedField(bo.Y); ok && f == spec.field {
			cv, ok := constInt(bo.X)
			if !ok {
				continue
			}
			c = cv
			switch bo.Op {
			case token.LSS:
				op = token.GTR
			case token.LEQ:
				op = token.GEQ
			case token.GTR:
				op = token.LSS
			case token.GEQ:
				op = token.LEQ
			default:
				op = bo.Op
			}
		} else {
			continue
		}
		// the guard must apply to every instance: it may only be conditional on loop
		// conditions, on other validation branches, and on tests of the same field
		if why := guardConditionalOn(p, b.Parent(), b, spec); why != "" {
			condWhy = why
			continue
		}
		// which successor rejects?
		for si, s := range b.Succs {
			if !rejects(p, s, spec.kind) {
				continue
			}
			// condition holding on the rejecting edge
			eop := op
			if si == 1 {
				eop = negateOp(op)
			}
			// rejected set: field eop c
			switch eop {
			case token.EQL: // field == c rejected: on an unsigned field, rejecting 0 means field >= 1
				if needLo && c == 0 && spec.lo <= 1 && (isUnsigned(bo.X.Type()) || isUnsigned(bo.Y.Type())) {
					gotLo = true
					where = append(where, p.pos(bo.Pos()))
				}
			case token.LSS: // field < c rejected → field >= c accepted
				if needLo && c >= spec.lo {
					gotLo = true
					where = append(where, p.pos(bo.Pos()))
				}
			case token.LEQ:
				if needLo && c+1 >= spec.lo {
					gotLo = true
					where = append(where, p.pos(bo.Pos()))
				}
			case token.GTR:
				if needHi && c <= spec.hi {
					gotHi = true
					where = append(where, p.pos(bo.Pos()))
				}
			case token.GEQ:
				if needHi && c-1 <= spec.hi {
					gotHi = true
					where = append(where, p.pos(bo.Pos()))
				}
			}
		}
	}
	if gotLo && gotHi {
		return true, "rejecting guard(s) at " + strings.Join(where, ", ")
	}
	miss := ""
	if !gotLo {
		miss += " lower bound"
	}
	if !gotHi {
		miss += " upper bound"
	}
	if condWhy != "" {
		return false, "no unconditional rejecting guard for" + miss + " in " + shortFn(fn) + ": " + condWhy
	}
	return false, "no rejecting guard for" + miss + " in " + shortFn(fn)
}

// guardConditionalOn returns a description if the guard block is control
// dependent on a condition that is neither a loop condition, nor a validation
// branch (one side rejects), nor a test of the guarded field itself; "" if the
// guard applies unconditionally.
func guardConditionalOn(p *Program, fn *ssa.Function, g *ssa.BasicBlock, spec fieldFactSpec) string {
	f := factsOf(fn)
	base := strings.TrimSuffix(spec.field, "*")
	for _, c := range f.transitiveCDeps(g, true) {
		at := c.At
		// accumulated-error protocol: "if s.err != nil { return }" at entry
		if bo, ok := c.V.(*ssa.BinOp); ok {
			if fx, okx := loadedField(bo.X); okx && fx == "app.strConvAccErr.err" {
				continue
			}
		}
		// loop condition: the branch block is a loop header (some predecessor is dominated by it)
		isLoop := false
		for _, pr := range at.Preds {
			if at.Dominates(pr) {
				isLoop = true
			}
		}
		if isLoop {
			continue
		}
		// range-over-slice loops test the condition in the header's successor; accept conditions whose block is in a loop and whose other side leaves the loop
		// validation branch: one successor rejects
		rej := false
		for _, s := range at.Succs {
			if rejects(p, s, spec.kind) || rejects(p, s, "errret") {
				rej = true
			}
		}
		if rej {
			continue
		}
		// test of the same field (nil test of the pointer, or another range test)
		if bo, ok := c.V.(*ssa.BinOp); ok {
			fx, okx := loadedField(bo.X)
			fy, oky := loadedField(bo.Y)
			if (okx && (fx == base || fx == spec.field)) || (oky && (fy == base || fy == spec.field)) {
				continue
			}
		}
		// comma-ok of a range Next (for range loops)
		if ex, ok := c.V.(*ssa.Extract); ok {
			if _, isNext := ex.Tuple.(*ssa.Next); isNext {
				continue
			}
		}
		return "the guard at " + p.pos(g.Instrs[len(g.Instrs)-1].Pos()) + " is only reached under the condition " + describe(c.V) + " (" + p.pos(c.V.Pos()) + "), so instances that skip it are not validated"
	}
	return ""
}

func negateOp(op token.Token) token.Token {
	switch op {
	case token.LSS:
		return token.GEQ
	case token.LEQ:
		return token.GTR
	case token.GTR:
		return token.LEQ
	case token.GEQ:
		return token.LSS
	case token.EQL:
		return token.NEQ
	case token.NEQ:
		return token.EQL
	}
	return op
}

// rejects: does control entering block s perform the rejection action before
// leaving s's dominated region? accerr: a store of a non-nil value into
// strConvAccErr.err in s itself; errret: s is an error-only block.
func rejects(p *Program, s *ssa.BasicBlock, kind string) bool {
	switch kind {
	case "accerr":
		// `if a || b` puts the rejection one jump away: follow unconditional chains and
		// the short-circuit successor that leads to the same rejection block
		seen := map[*ssa.BasicBlock]bool{}
		for b := s; b != nil && !seen[b]; {
			seen[b] = true
			for _, in := range b.Instrs {
				if st, ok := in.(*ssa.Store); ok {
					if f, ok := fieldOfAddr(st.Addr); ok && f == "app.strConvAccErr.err" && !isNilConst(st.Val) {
						return true
					}
				}
			}
			if len(b.Succs) == 1 && len(b.Instrs) == 1 {
				b = b.Succs[0]
			} else {
				b = nil
			}
		}
		return false
	case "errret", "ctorguard":
		if factsOf(s.Parent()).errOnly[s] {
			return true
		}
		// `a == 0 || b == 0`: the rejecting block may be one short-circuit step away
		return false
	}
	return false
}

// verifyEscapeAfterGuard: the object whose field is guarded (a local allocation
// of the establisher) is passed to other functions or stored only at points
// dominated by the accepting edge of every guard on that field.
func verifyEscapeAfterGuard(p *Program, fn *ssa.Function, spec fieldFactSpec) (bool, string) {
	// find guards: If blocks comparing the field; collect the accepting successor
	var accept []*ssa.BasicBlock
	var obj ssa.Value
	for _, b := range fn.Blocks {
		ifi, ok := b.Instrs[len(b.Instrs)-1].(*ssa.If)
		if !ok {
			continue
		}
		bo, ok := ifi.Cond.(*ssa.BinOp)
		if !ok {
			continue
		}
		f, ok := loadedField(bo.X)
		if !ok || f != spec.field {
			continue
		}
		if u, ok := bo.X.(*ssa.UnOp); ok {
			if fa, ok := u.X.(*ssa.FieldAddr); ok {
				obj = fa.X
			}
		}
		for _, s := range b.Succs {
			if !rejects(p, s, spec.kind) {
				// with `a || b` the non-rejecting successor of the first test is the second test: follow to the final accept
				accept = append(accept, s)
			}
		}
	}
	if obj == nil || len(accept) == 0 {
		return false, "guarded object not found"
	}
	// the last accepting block (dominated by all others) is the point after which the object may escape
	final := accept[0]
	for _, a := range accept[1:] {
		if final.Dominates(a) {
			final = a
		}
	}
	// if the final accept block is itself a guard on another field (a || b), escapes must come after its accepting edge; dominance by `final` is necessary either way
	refs := obj.Referrers()
	if refs == nil {
		return false, "object has no referrers"
	}
	for _, ref := range *refs {
		switch x := ref.(type) {
		case ssa.CallInstruction:
			if !final.Dominates(x.Block()) {
				return false, "object is passed to " + calleeName(x) + " at " + p.pos(x.Pos()) + " before the guard on " + spec.field
			}
		case *ssa.Store:
			if x.Val == obj && !final.Dominates(x.Block()) {
				return false, "object is stored at " + p.pos(x.Pos()) + " before the guard on " + spec.field
			}
		case *ssa.MapUpdate:
			if x.Value == obj && !final.Dominates(x.Block()) {
				return false, "object is registered at " + p.pos(x.Pos()) + " before the guard on " + spec.field
			}
		}
	}
	return true, "object escapes only after the guard"
}

// verifyAccErrProtocol: processURLCfg hands out a non-nil config only after
// testing that the accumulated error is nil.
func verifyAccErrProtocol(p *Program) (bool, string) {
	fn := p.lookupFunc(pkgApp, "processURLCfg")
	if fn == nil {
		return false, "processURLCfg not found"
	}
	f := factsOf(fn)
	nret := 0
	for _, b := range fn.Blocks {
		ret, ok := b.Instrs[len(b.Instrs)-1].(*ssa.Return)
		if !ok || len(ret.Results) == 0 || isNilConst(ret.Results[0]) {
			continue
		}
		nret++
		guarded := false
		for _, c := range f.dominatingConds(b) {
			bo, ok := c.V.(*ssa.BinOp)
			if !ok {
				continue
			}
			var fld string
			var isF bool
			if isNilConst(bo.Y) {
				fld, isF = loadedField(bo.X)
			} else if isNilConst(bo.X) {
				fld, isF = loadedField(bo.Y)
			}
			if !isF || fld != "app.strConvAccErr.err" {
				continue
			}
			if (bo.Op == token.NEQ && !c.Pos) || (bo.Op == token.EQL && c.Pos) {
				guarded = true
			}
		}
		if !guarded {
			return false, "processURLCfg returns a config at " + p.pos(ret.Pos()) + " without a dominating test that the accumulated error is nil"
		}
	}
	if nret == 0 {
		return false, "processURLCfg has no return of a config"
	}
	return true, "every config-returning exit of processURLCfg is dominated by sc.err == nil"
}

// verifyErrRetProtocol: processURLCfg calls verifyAndFillConfig on the config it
// returns and every successful return (nil error) is dominated by the test that
// the validation returned nil.
func verifyErrRetProtocol(p *Program) (bool, string) {
	fn := p.lookupFunc(pkgApp, "processURLCfg")
	vf := p.lookupFunc(pkgApp, "verifyAndFillConfig")
	if fn == nil || vf == nil {
		return false, "processURLCfg / verifyAndFillConfig not found"
	}
	var call *ssa.Call
	for _, b := range fn.Blocks {
		for _, in := range b.Instrs {
			if c, ok := in.(*ssa.Call); ok && c.Call.StaticCallee() == vf {
				call = c
			}
		}
	}
	if call == nil {
		return false, "processURLCfg does not call verifyAndFillConfig"
	}
	f := factsOf(fn)
	n := 0
	for _, b := range fn.Blocks {
		ret, ok := b.Instrs[len(b.Instrs)-1].(*ssa.Return)
		if !ok || len(ret.Results) != 2 || !isNilConst(ret.Results[1]) {
			continue
		}
		n++
		if !sameValue(ret.Results[0], call.Call.Args[0]) {
			return false, "successful return at " + p.pos(ret.Pos()) + " returns a different config than the validated one"
		}
		guarded := false
		for _, c := range f.dominatingConds(b) {
			if is, nonNilOnTrue := nilTest(c.V, call); is && c.Pos != nonNilOnTrue {
				guarded = true
			}
		}
		if !guarded {
			return false, "successful return at " + p.pos(ret.Pos()) + " is not dominated by the test that verifyAndFillConfig returned nil"
		}
	}
	if n == 0 {
		return false, "processURLCfg has no successful return"
	}
	return true, "every successful return of processURLCfg is dominated by verifyAndFillConfig(cfg) == nil"
}
