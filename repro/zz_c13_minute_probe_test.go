// Reproduction: a segment longer than 3 s that straddles a minute boundary contains the announce
// instant (7 s before the :10 splice of the next minute) but carries no event.
// go test -vet=off -run TestProbeC13MinuteBoundary ./pkg/scte35
package scte35

import "testing"

func TestProbeC13MinuteBoundary(t *testing.T) {
	const ts = 90000
	for _, perMinute := range []int{1, 2, 3} {
		for segDur := uint64(1); segDur <= 10; segDur++ {
			// all segments of two minutes, aligned at 0
			for minute := uint64(5); minute < 7; minute++ {
				announce := (minute*60 + 3) * ts // 7 s before minute:10
				n := 0
				for start := uint64(0); start < (minute+1)*60*ts; start += segDur * ts {
					end := start + segDur*ts
					if !(start < announce && announce <= end) {
						continue
					}
					e, err := CreateEmsgAhead(start, end, ts, perMinute)
					if err != nil {
						t.Fatal(err)
					}
					if e != nil && e.PresentationTime == (minute*60+10)*ts {
						n++
					}
				}
				if n != 1 {
					t.Errorf("perMinute=%d segDur=%ds: the :10 event of minute %d is carried by %d segments (the segment containing second %d carries none)", perMinute, segDur, minute, n, minute*60+3)
				}
			}
		}
	}
}
