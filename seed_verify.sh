#!/bin/bash
# usage: seed_verify.sh <ID> <variant>
# Confirms a seeded change delivered by a sub-agent in /tmp/wt/<ID>/_out/<variant> against
# /repo's current HEAD in a scratch worktree: (1) demo passes on the unchanged tree, (2) with the
# patch the repository builds and the full existing suite passes, (3) the demo fails with the patch.
# On success stores it as /verif/seeded/<ID>-<variant>/ (patch.diff, demo, meta.json).
set -u
ID="$1"; V="$2"
SRC=/tmp/wt/$ID/_out/$V
export GOFLAGS=-mod=mod GOPROXY=off GOSUMDB=off GOTOOLCHAIN=local
[ -f "$SRC/patch.diff" ] || { echo "no patch in $SRC"; exit 2; }
PKGDIR=$(python3 -c "
import json,os,re;m=json.load(open('$SRC/meta.json'));f=m.get('files_changed');f=f if isinstance(f,list) else [f]
c=m.get('demo_cmd','');r=re.findall(r'((?:cmd|pkg|internal)/[A-Za-z0-9_/.-]*)', c)
r=[x.rstrip('/') for x in r if os.path.isdir('/repo/'+x.rstrip('/'))]
print(r[-1] if r else os.path.dirname(f[0]))")
RUNPAT=$(python3 -c "
import json,re;m=json.load(open('$SRC/meta.json'));c=m.get('demo_cmd','')
r=re.search(r\"-run[ =]+'?\\\"?([^ '\\\"]+)\", c);print(r.group(1) if r else 'TestSeeded')")
SV=$(mktemp -d /tmp/sv.XXXXXX); rmdir "$SV"
git -C /repo worktree add -q --detach "$SV" HEAD || exit 2
cleanup() { git -C /repo worktree remove --force "$SV" 2>/dev/null; rm -rf "$SV"; }
trap cleanup EXIT
cd "$SV"
cp "$SRC"/zz_seeded_*_test.go "$PKGDIR"/ 2>/dev/null || cp "$SRC"/*_test.go "$PKGDIR"/
R1=$(go test -vet=off -count=1 -run "$RUNPAT" ./"$PKGDIR"/ 2>&1 | tail -3)
S1=fail; echo "$R1" | grep -q '^ok' && S1=pass
rm -f "$PKGDIR"/zz_seeded_*_test.go
APPLY=clean
if ! git apply --whitespace=nowarn "$SRC/patch.diff" 2>/dev/null; then
  if git apply --3way --whitespace=nowarn "$SRC/patch.diff" 2>/dev/null; then APPLY=3way; else echo "RESULT $ID-$V patch-does-not-apply"; exit 3; fi
fi
git diff HEAD -- . ':(exclude)*_test.go' > /tmp/seed_patch_$$.diff
go build ./... 2>&1 | tail -3; B=$?
R2=$(go test -vet=off -count=1 ./... 2>&1 | grep -v 'no test files' | tail -12)
S2=pass; echo "$R2" | grep -q 'FAIL' && S2=fail
cp "$SRC"/zz_seeded_*_test.go "$PKGDIR"/ 2>/dev/null || cp "$SRC"/*_test.go "$PKGDIR"/
R3=$(go test -vet=off -count=1 -run "$RUNPAT" ./"$PKGDIR"/ 2>&1 | tail -15)
S3=pass; echo "$R3" | grep -q 'FAIL\|panic' && S3=fail
echo "RESULT $ID-$V apply=$APPLY demo_without_patch=$S1 suite_with_patch=$S2 demo_with_patch=$S3"
if [ "$S1" = pass ] && [ "$S2" = pass ] && [ "$S3" = fail ]; then
  D=/verif/seeded/$ID-$V; mkdir -p "$D"
  cp /tmp/seed_patch_$$.diff "$D/patch.diff"
  cp "$SRC"/*_test.go "$D"/
  python3 - "$SRC/meta.json" "$D/meta.json" "$PKGDIR" "$RUNPAT" "$APPLY" <<'PY'
import json,sys
m=json.load(open(sys.argv[1]))
out={"property":m.get("property"),"variant":m.get("variant"),"summary":m.get("summary"),"needs":m.get("needs"),
 "files_changed":m.get("files_changed"),"demo_package":sys.argv[3],"demo_run":sys.argv[4],
 "confirmed":{"against":"/repo HEAD with the fix: commits","patch_apply":sys.argv[5],
   "demo_passes_without_patch":True,"build_and_full_suite_pass_with_patch":True,"demo_fails_with_patch":True,
   "how":"seed_verify.sh: scratch git worktree of /repo; go test -vet=off -count=1 -run <demo_run> ./<demo_package>/ before and after git apply; go build ./... && go test -vet=off -count=1 ./... with the patch"}}
json.dump(out,open(sys.argv[2],"w"),indent=1)
PY
  echo "STORED $D"
else
  echo "--- demo without patch:"; echo "$R1" | tail -3; echo "--- suite with patch:"; echo "$R2" | tail -5; echo "--- demo with patch:"; echo "$R3" | tail -5
fi
rm -f /tmp/seed_patch_$$.diff
