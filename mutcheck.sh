#!/bin/bash
# usage: mutcheck.sh [-R] <patch> <ID> [<ID>...]
# Applies <patch> (git apply; -R = reversed) to a scratch copy of /repo's working tree,
# runs the given checks against the copy and removes it. Prints one line per check.
set -u
REV=""
if [ "$1" = "-R" ]; then REV="-R"; shift; fi
PATCH=$(readlink -f "$1"); shift
D=$(mktemp -d /tmp/mut.XXXXXX)
rsync -a --exclude .git /repo/ "$D/"
( cd "$D" && git init -q . 2>/dev/null && git apply $REV --whitespace=nowarn "$PATCH" ) || { echo "PATCH-DOES-NOT-APPLY $PATCH"; rm -rf "$D"; exit 3; }
( cd "$D" && go build ./... ) || { echo "MUTANT-DOES-NOT-BUILD $PATCH"; rm -rf "$D"; exit 4; }
rc=0
for ID in "$@"; do
  out=$(VERIF_REPO="$D" VERIF_OUT="$D/.ev" /verif/check.sh "$ID" quick 2>&1)
  code=$?
  nv=$(echo "$out" | grep -c '^VIOLATION')
  echo "== $ID exit=$code violations=$nv patch=$(basename $PATCH) $REV"
  echo "$out" | grep '^violation:\|^CHECK-BROKEN' | sed "s#$D/##g" | cut -c1-260
  [ $code -ne 0 ] && rc=1
done
rm -rf "$D"
exit $rc
