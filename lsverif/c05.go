package main

import (
	"fmt"
	"go/constant"
	"go/token"
	"go/types"
	"math"

	"golang.org/x/tools/go/ssa"
)

func init() { register("C05", checkC05) }

// roundingOperand: if v rounds a float to a whole number (math.Round & co, float->int conversion),
// returns the rounded operand.
func roundingOperand(v ssa.Value) (ssa.Value, string, bool) {
	switch x := v.(type) {
	case *ssa.Call:
		if callee := x.Call.StaticCallee(); callee != nil {
			switch callee.String() {
			case "math.Round", "math.Floor", "math.Ceil", "math.Trunc", "math.RoundToEven":
				return x.Call.Args[0], callee.String(), true
			}
		}
	case *ssa.Convert:
		from, ok1 := x.X.Type().Underlying().(*types.Basic)
		to, ok2 := x.Type().Underlying().(*types.Basic)
		if ok1 && ok2 && from.Info()&types.IsFloat != 0 && to.Info()&types.IsInteger != 0 {
			if _, _, inner := roundingOperand(x.X); inner {
				return nil, "", false // converting an already whole value
			}
			return x.X, "float->int conversion", true
		}
	}
	return nil, "", false
}

func constFloat(v ssa.Value) (float64, bool) {
	c, ok := v.(*ssa.Const)
	if !ok || c.Value == nil {
		return 0, false
	}
	switch c.Value.Kind() {
	case constant.Int, constant.Float:
		f, _ := constant.Float64Val(constant.ToFloat(c.Value))
		return f, true
	}
	return 0, false
}

// scaledToMillis: the operand is a product with a constant >= 1000 (or a quotient by a constant <= 0.001):
// rounding it keeps millisecond (or finer) resolution.
func scaledToMillis(v ssa.Value) bool {
	bo, ok := v.(*ssa.BinOp)
	if !ok {
		return false
	}
	switch bo.Op {
	case token.MUL:
		if f, ok := constFloat(bo.X); ok && math.Abs(f) >= 1000 {
			return true
		}
		if f, ok := constFloat(bo.Y); ok && math.Abs(f) >= 1000 {
			return true
		}
	case token.QUO:
		if f, ok := constFloat(bo.Y); ok && f != 0 && math.Abs(f) <= 0.001 {
			return true
		}
	case token.ADD, token.SUB:
		return scaledToMillis(bo.X) || scaledToMillis(bo.Y)
	}
	return false
}

// coarseRoundings lists the rounding operations in the backward slice of v that lose sub-second resolution.
func coarseRoundings(p *Program, v ssa.Value) (coarse []ssa.Value, fine int, visited int) {
	seen := map[ssa.Value]bool{}
	sliceVisit(p, v, true, func(x ssa.Value) {
		if seen[x] {
			return
		}
		seen[x] = true
		visited++
		if op, _, ok := roundingOperand(x); ok {
			if scaledToMillis(op) {
				fine++
			} else {
				coarse = append(coarse, x)
			}
		}
	})
	return
}

func describeValue(p *Program, v ssa.Value) string {
	s := v.String()
	if in, ok := v.(ssa.Instruction); ok && in.Parent() != nil {
		return fmt.Sprintf("%s in %s at %s", s, shortFn(in.Parent()), p.pos(instrPos(in)))
	}
	return s
}

// flagSources: the conditions that decide a bool flag (phi of constants: the branch conditions of the
// edges that supply true; otherwise the value itself).
func flagSources(v ssa.Value, seen map[ssa.Value]bool) []ssa.Value {
	if seen[v] {
		return nil
	}
	seen[v] = true
	phi, ok := v.(*ssa.Phi)
	if !ok {
		// a flag returned by a repository helper: the conditions under which it returns the constant true
		if call, idx, errForm, isSummary := calleeOfCondition(cond{V: v, Pos: true}); isSummary && !errForm {
			var out []ssa.Value
			callee := call.Call.StaticCallee()
			for _, rb := range summaryReturns(callee, idx, false) {
				for _, cd := range factsOf(callee).baseDominatingConds(rb) {
					out = append(out, cd.V)
				}
			}
			if len(out) > 0 {
				return out
			}
		}
		return []ssa.Value{v}
	}
	var out []ssa.Value
	for i, e := range phi.Edges {
		if c, ok := e.(*ssa.Const); ok {
			if c.Value != nil && c.Value.Kind() == constant.Bool && constant.BoolVal(c.Value) {
				pred := phi.Block().Preds[i]
				ff := factsOf(pred.Parent())
				for _, cd := range ff.dominatingConds(pred) {
					out = append(out, cd.V)
				}
				if ec, ok := edgeCond(pred, phi.Block()); ok {
					out = append(out, ec.V)
				}
			}
			continue
		}
		out = append(out, flagSources(e, seen)...)
	}
	return out
}

func checkC05(p *Program, r *Reporter) {
	unitsRuleByName(p, r, "LiveMPD")
	r.Explanation = "Static analysis of structural necessary conditions of C05: (a) no operation on the data path from the newest listed segment to the stored publishTime, and none in the comparison that decides 'after the stop time', rounds a quantity to whole seconds (rounding is accepted only on values scaled to milliseconds or finer); " +
		"(b) every successful return of the MPD generator is decided by the after-stop test, the after-stop side passes through the call that makes the MPD static, and the duration it is given depends on both the stop time and the start time; the after-stop test depends on the stop time and on the request time; " +
		"(c) in the SegmentTimeline generator the duration of the newest listed segment recorded for publishTime is updated wherever a timeline entry with a new duration is created. " +
		"Monotonicity of the window edges, 'same publishTime implies same MPD' and immutability of the $Number$ MPD are not decided."
	r.NotCovered = "monotonicity of first/last listed segment, live edge advancing at the exact instant, same publishTime <=> same content, immutability of the plain $Number$ MPD"
	r.Assumptions = []string{"explicit data flow only; rounding operations are math.Round/Floor/Ceil/Trunc and float->int conversions; integer division is not treated as rounding",
		"a rounding is accepted when its operand is a product with a constant >= 1000 or a quotient by a constant <= 0.001"}
	live := p.mustFunc(r, pkgApp, "LiveMPD")
	if live == nil {
		return
	}
	reach := p.reachableFrom(live)
	// (a) publishTime data path
	r.Rule("E4-NOROUND", "no whole-second rounding on the data path to MPD.publishTime / in the after-stop comparison", 3)
	for _, fn := range livesimFuncs(p) {
		if !reach[fn] {
			continue
		}
		for _, b := range fn.Blocks {
			for _, in := range b.Instrs {
				st, ok := in.(*ssa.Store)
				if !ok {
					continue
				}
				f, ok := fieldOfAddr(st.Addr)
				if !ok || f != "mpd.MPD.PublishTime" {
					continue
				}
				coarse, fine, visited := coarseRoundings(p, st.Val)
				if len(coarse) == 0 {
					r.Discharge("E4-NOROUND", shortFn(fn), "store:MPD.PublishTime", p.pos(st.Pos()),
						fmt.Sprintf("slice of %d values: %d roundings, all on millisecond-scaled operands", visited, fine))
				} else {
					r.Violate("E4-NOROUND", shortFn(fn), "store:MPD.PublishTime", p.pos(st.Pos()),
						"publishTime is computed through a rounding that loses sub-second resolution: "+describeValue(p, coarse[0])+
							" (with segment ends that are not whole seconds publishTime can lie after the request instant or before the last change)", nil)
				}
			}
		}
	}
	// publishTime = availabilityStartTime is right only for an MPD that never changes (plain $Number$, one period):
	// such a store must be decided by the MPD type of the request itself, not by a per-adaptation-set value
	r.Rule("E5-PUBLISHTYPE", "publishTime is set to availabilityStartTime only under a test of the request's MPD type", 1)
	nAst := 0
	for _, fn := range cluster(live) {
		for _, b := range fn.Blocks {
			for _, in := range b.Instrs {
				st, ok := in.(*ssa.Store)
				if !ok {
					continue
				}
				if f, ok := fieldOfAddr(st.Addr); !ok || f != "mpd.MPD.PublishTime" {
					continue
				}
				if f, ok := loadedField(st.Val); !ok || f != "mpd.MPD.AvailabilityStartTime" {
					continue
				}
				nAst++
				okType := false
				for _, cd := range effectiveDomConds(b) {
					bo, ok := cd.V.(*ssa.BinOp)
					if !ok || bo.Op != token.EQL || !cd.Pos {
						continue
					}
					for _, side := range []ssa.Value{bo.X, bo.Y} {
						if c, ok := side.(*ssa.Call); ok && c.Call.StaticCallee() != nil && c.Call.StaticCallee().Name() == "liveMPDType" {
							okType = true
						}
					}
				}
				r.Decide(okType, "E5-PUBLISHTYPE", shortFn(fn), "store:PublishTime=AST", p.pos(st.Pos()), "dominated by a test of cfg.liveMPDType() itself",
					"publishTime is reset to availabilityStartTime under a condition that is not the MPD type of the request (e.g. the template type of one adaptation set): a SegmentTimeline MPD with such an adaptation set changes while its publishTime never does", nil)
			}
		}
	}
	if nAst == 0 {
		r.Broken("no store of availabilityStartTime into publishTime found")
	}
	// (b) after-stop
	mk := p.mustFunc(r, pkgApp, "makeMPDStatic")
	if mk == nil {
		return
	}
	r.Rule("E5-STATIC", "after the stop time every successful return of LiveMPD is static with duration stop-start", 6)
	ff := factsOf(live)
	var mkCalls []ssa.CallInstruction
	flags := map[ssa.Value]bool{}
	for _, s := range callsTo(p, mk) {
		if s.Parent() != live {
			r.Violate("E5-STATIC", shortFn(s.Parent()), "call:makeMPDStatic", p.pos(s.Pos()), "makeMPDStatic is called outside LiveMPD: the after-stop analysis does not cover it", nil)
			continue
		}
		mkCalls = append(mkCalls, s)
		var flag ssa.Value
		for _, cd := range ff.dominatingConds(s.Block()) {
			if cd.Pos {
				flag = cd.V
				break
			}
		}
		if flag == nil {
			r.Violate("E5-STATIC", shortFn(live), "call:makeMPDStatic", p.pos(s.Pos()), "the call that makes the MPD static is not guarded by an after-stop test", nil)
			continue
		}
		flags[flag] = true
		for _, fld := range []string{"app.ResponseConfig.StopTimeS", "app.ResponseConfig.StartTimeS"} {
			ok := valueDependsOnField(p, s.Common().Args[1], fld)
			r.Decide(ok, "E5-STATIC", shortFn(live), "makeMPDStatic.duration<-"+fld, p.pos(s.Pos()), "the static duration depends on "+fld,
				"mediaPresentationDuration of the stopped MPD cannot depend on "+fld, nil)
		}
	}
	// every successful return is decided by the flag
	for _, b := range live.Blocks {
		ret, ok := b.Instrs[len(b.Instrs)-1].(*ssa.Return)
		if !ok || len(ret.Results) == 0 || isNilConst(ret.Results[0]) {
			continue
		}
		decided, static := false, false
		for _, cd := range ff.dominatingConds(b) {
			if flags[cd.V] {
				decided = true
				if cd.Pos {
					for _, s := range mkCalls {
						if instrDominates(s.(ssa.Instruction), ret) {
							static = true
						}
					}
				} else {
					static = true // the still-live side
				}
			}
		}
		switch {
		case !decided:
			r.Violate("E5-STATIC", shortFn(live), "return", p.pos(instrPos(ret)), "a successful return of the MPD generator is not decided by the after-stop test: after the stop time this path can return a dynamic MPD", nil)
		case !static:
			r.Violate("E5-STATIC", shortFn(live), "return", p.pos(instrPos(ret)), "the after-stop side returns without making the MPD static", nil)
		default:
			r.Discharge("E5-STATIC", shortFn(live), "return", p.pos(instrPos(ret)), "decided by the after-stop flag; the after-stop side is dominated by makeMPDStatic")
		}
	}
	// the flag itself
	var nowPrm *ssa.Parameter
	for _, prm := range live.Params {
		if prm.Name() == "nowMS" {
			nowPrm = prm
		}
	}
	if nowPrm == nil {
		r.Broken("LiveMPD has no nowMS parameter")
		return
	}
	for flag := range flags {
		srcs := flagSources(flag, map[ssa.Value]bool{})
		depStop, depNow := false, false
		var coarseAll []ssa.Value
		for _, s := range srcs {
			if valueDependsOnField(p, s, "app.ResponseConfig.StopTimeS") {
				depStop = true
			}
			if localDependsOnParam(p, s, nowPrm) || valueDependsOnParam(p, s, nowPrm) {
				depNow = true
			}
			coarse, _, _ := coarseRoundings(p, s)
			coarseAll = append(coarseAll, coarse...)
		}
		pos := "-"
		if in, ok := flag.(ssa.Instruction); ok {
			pos = p.pos(instrPos(in))
		}
		r.Decide(depStop, "E5-STATIC", shortFn(live), "afterStop<-StopTimeS", pos, "the after-stop test depends on the stop time", "the after-stop test cannot depend on the configured stop time", nil)
		r.Decide(depNow, "E5-STATIC", shortFn(live), "afterStop<-nowMS", pos, "the after-stop test depends on the request time", "the after-stop test cannot depend on the request time", nil)
		if len(coarseAll) == 0 {
			r.Discharge("E4-NOROUND", shortFn(live), "afterStop-comparison", pos, "compared at millisecond resolution")
		} else {
			r.Violate("E4-NOROUND", shortFn(live), "afterStop-comparison", pos, "the after-stop test compares values rounded to whole seconds: "+describeValue(p, coarseAll[0])+
				" (for part of the second around the stop time the MPD is still dynamic, or already static)", nil)
		}
	}
	// (c) newest-segment record follows the timeline entries
	gen := p.mustFunc(r, pkgApp, "(*asset).generateTimelineEntries")
	if gen == nil {
		return
	}
	r.Rule("E5-PAIRED", "wherever a SegmentTimeline entry with a (new) duration is created, the newest-segment record used for publishTime gets the same duration", 2)
	for _, b := range gen.Blocks {
		var dStores, lsiStores []*ssa.Store
		for _, in := range b.Instrs {
			if st, ok := in.(*ssa.Store); ok {
				if f, ok := fieldOfAddr(st.Addr); ok {
					switch f {
					case "mpd.S.D":
						dStores = append(dStores, st)
					case "app.lastSegInfo.dur":
						lsiStores = append(lsiStores, st)
					}
				}
			}
		}
		for _, ds := range dStores {
			ok := false
			for _, ls := range lsiStores {
				if ls.Val == ds.Val {
					ok = true
				}
			}
			r.Decide(ok, "E5-PAIRED", shortFn(gen), "store:S.D", p.pos(ds.Pos()), "lastSegInfo.dur is set to the same value in the same block",
				"a timeline entry with a new duration is created without updating the duration of the newest-segment record: publishTime is computed from a stale duration", nil)
		}
	}
}
