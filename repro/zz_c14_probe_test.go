package app

import (
	"context"
	"fmt"
	"log/slog"
	"net/http/httptest"
	"os"
	"testing"
)

// The set of segment numbers hit by a status-code pattern (counted from the start of the stream)
// must not depend on the availability start time.
func TestProbeC14StatusCodeWithStartTime(t *testing.T) {
	vodFS := os.DirFS("testdata/assets")
	am := newAssetMgr(vodFS, "", false)
	if err := am.discoverAssets(slog.Default()); err != nil {
		t.Fatal(err)
	}
	asset, _ := am.findAsset("testpic_2s")
	hits := func(startS, startNr int) string {
		out := ""
		for nr := 28; nr < 64; nr++ {
			cfg := NewResponseConfig()
			cfg.StartTimeS = startS
			cfg.StartNr = Ptr(startNr)
			cfg.SegStatusCodes = []SegStatusCodes{{Cycle: 30, Code: 404, Rsq: 0}}
			rr := httptest.NewRecorder()
			nowMS := startS*1000 + (nr+1)*2000 + 1000
			code, err := writeSegment(context.TODO(), rr, slog.Default(), cfg, nil, vodFS, asset, fmt.Sprintf("V300/%d.m4s", nr+startNr), nowMS, nil, false)
			if err != nil {
				out += fmt.Sprintf("%d:err(%v) ", nr, err)
				continue
			}
			if code != 0 {
				out += fmt.Sprintf("%d:%d ", nr, code)
			}
		}
		return out
	}
	h0, h1 := hits(0, 0), hits(600, 0)
	h2 := hits(600, 7)
	t.Logf("start 600 snr 7: %s", h2)
	if h2 != h0 {
		t.Errorf("with startNumber 7 the hits (relative numbers) differ: %q vs %q", h2, h0)
	}
	t.Logf("start 0: %s", h0)
	t.Logf("start 600: %s", h1)
	if h0 != h1 || h0 == "" {
		t.Fatalf("status-code pattern hits differ: start=0 %q, start=600 %q", h0, h1)
	}
}
