#!/usr/bin/env python3
"""Regenerates the 'fixed' section of known_findings.json from the fix: commits of /repo.
The 'findings' section (genuine defects recorded, not repaired) is maintained by hand below."""
import json, subprocess

# subject prefix -> properties whose checks reported it before the repair
PROPS = [
 ("fix: stoprel_<non-number>", ["C08"]),
 ("fix: Location generation dereferenced", ["C08"]),
 ("fix: annexI key without value", ["C08"]),
 ("fix: empty traffic pattern", ["C08", "C14"]),
 ("fix: BaseURL index beyond", ["C08", "C14"]),
 ("fix: periods_0 and periods", ["C08", "C06"]),
 ("fix: chunked delivery with availabilityTimeOffset", ["C08", "C09"]),
 ("fix: timesubsdur <= 0", ["C08"]),
 ("fix: segment numbers below startNumber", ["C08", "C04"]),
 ("fix: DRM request for a representation without encryption data", ["C08", "C10"]),
 ("fix: drm_<name> without a DRM configuration", ["C08"]),
 ("fix: licence request with a foreign key ID", ["C08"]),
 ("fix: non-numeric tsbd", ["C08"]),
 ("fix: /urlgen/drms without", ["C08"]),
 ("fix: chunked segment written to a ResponseWriter without Flush", ["C08"]),
 ("fix: segment request whose path equals an asset path", ["C08"]),
 ("fix: a representation or MPD was registered before", ["C15", "C08"]),
 ("fix: receiver: an init segment with media timescale 0", ["C08", "C17"]),
 ("fix: receiver: two consecutive zero-duration segments", ["C08", "C17"]),
 ("fix: receiver: a master segment duration shorter", ["C08", "C17"]),
 ("fix: receiver: an init segment with an empty stsd", ["C08"]),
 ("fix: chunk parser looped forever", ["C08", "C18"]),
 ("fix: a step request for an ingest session", ["C08", "C16"]),
 ("fix: audio segments addressed by $Time$", ["C02", "C04"]),
 ("fix: publishTime was rounded", ["C05"]),
 ("fix: MPD startNumber ignored the configured start number", ["C02"]),
 ("fix: generated time-subtitle segments listed by a low-latency MPD", ["C02"]),
 ("fix: thumbnail segments listed by a low-latency MPD", ["C02"]),
 ("fix: a patch request without publishTime", ["C11"]),
 ("fix: status-code patterns with a non-zero availability start time", ["C14"]),
 ("fix: an ingest session for a SegmentTimeline URL with generated subtitles crashed", ["C08", "C16"]),
 ("fix: in a SegmentTimeline MPD with a thumbnail adaptation set publishTime was reset", ["C05"]),
 ("fix: the MPD patch for two MPDs whose element lists differ much in length", ["C08", "C11"]),
 ("fix: MPD patch: adaptation sets other than video/audio", ["C11"]),
 ("fix: EndTime read ResetTime without the limiter mutex", ["C20"]),
 ("fix: receiver: the stream table was read and written by concurrent upload handlers", ["C19"]),
 ("fix: receiver: two concurrent first uploads", ["C19"]),
 ("fix: an MPD request with generated time subtitles for an asset whose video SegmentTimeline has more than one S entry", ["C08", "C12"]),
 ("fix: a video segment longer than 3 s that straddles a minute boundary", ["C13"]),
 ("fix: SCTE-35 events were lost in low-latency mode", ["C13", "C09"]),
 ("fix: an ingest session skipped segments of assets with fractional-millisecond segment ends", ["C16"]),
 ("fix: generated subtitle cues ended before they started", ["C12"]),
 ("fix: the 425 answer to a request made before availabilityStartTime", ["C04", "C02"]),
 ("fix: a patch request whose regenerated MPD is an error text", ["C08", "C11"]),
 ("fix: a stop time before the start time combined with periods crashed", ["C08", "C06"]),
 ("fix: creating an ingest session with a malformed livesim URL", ["C08", "C16"]),
 ("fix: a licence request whose URL does not end with /eccp.json", ["C10", "C08"]),
 ("fix: an ingest session with a duration sent one media segment too many", ["C16"]),
]

FINDINGS = json.load(open('/verif/known_findings_manual.json'))['findings']

def main():
    log = subprocess.check_output(['git', '-C', '/repo', 'log', '--reverse', '--format=%h\t%s', '--grep=^fix:']).decode().strip().split('\n')
    fixed = []
    for line in log:
        if not line.strip():
            continue
        h, subj = line.split('\t', 1)
        props = None
        for pre, ps in PROPS:
            if subj.startswith(pre):
                props = ps
        if props is None:
            raise SystemExit("fix commit without property mapping: " + subj)
        for pid in props:
            fixed.append({"property": pid, "commit": h, "what": subj[len("fix: "):]})
    json.dump({"findings": FINDINGS, "fixed": fixed}, open('/verif/known_findings.json', 'w'), indent=1)
    print(len(FINDINGS), "findings,", len(fixed), "fixed entries")

main()
