package main

// E3: fault-site analysis. For every faulting instruction in handler-reachable
// repository code whose faulting operand is request-controlled (explicit data
// flow from *http.Request / upload bytes), prove that a guard excludes the
// faulting value; otherwise report a violation.

import (
	"os"
	"regexp"
	"fmt"
	"go/token"
	"go/types"
	"regexp/syntax"
	"strings"

	"golang.org/x/tools/go/ssa"
)

// taintSet answers taint queries over the per-binary dependence graphs.
type taintSet struct {
	gs []*depGraph
}

func (t *taintSet) isTainted(v ssa.Value) bool {
	for _, g := range t.gs {
		if g.isTainted(v) {
			return true
		}
	}
	return false
}

func (t *taintSet) isShapeTainted(v ssa.Value) bool {
	for _, g := range t.gs {
		if g.isShapeTainted(v) {
			return true
		}
	}
	return false
}

func (t *taintSet) isDirect(v ssa.Value) bool {
	for _, g := range t.gs {
		if g.isDirect(v) {
			return true
		}
	}
	return false
}

func (t *taintSet) directTrail(v ssa.Value, max int) []string {
	for _, g := range t.gs {
		if tr := g.directTrail(v, max); tr != nil {
			return tr
		}
	}
	return nil
}

func (t *taintSet) shapeTrail(v ssa.Value, max int) []string {
	for _, g := range t.gs {
		if g.isShapeTainted(v) {
			return g.shapeTrail(v, max)
		}
	}
	return nil
}

func (t *taintSet) taintTrail(v ssa.Value, max int) []string {
	for _, g := range t.gs {
		if g.isTainted(v) {
			return g.taintTrail(v, max)
		}
	}
	return nil
}

func buildTaint(p *Program) *taintSet {
	t := &taintSet{}
	for _, side := range []string{"livesim2", "recv"} {
		g := buildDepGraph(p, side)
		g.markSources()
		g.propagateTaint()
		t.gs = append(t.gs, g)
	}
	return t
}

type e3 struct {
	p   *Program
	g   *taintSet
	rg  *ranger
	ff  *fieldFacts
	r   *Reporter
	fns []*ssa.Function
}

var e3cache *e3

func newE3(p *Program, r *Reporter) *e3 {
	g := buildTaint(p)
	ff := buildFieldFacts(p, nil, nil)
	for _, n := range ff.notes {
		fmt.Println("field fact:", n)
	}
	for _, n := range ff.failed {
		fmt.Println("field fact NOT established:", n)
	}
	if r != nil {
		r.Extra["field_facts"] = ff.notes
		r.Extra["field_facts_failed"] = ff.failed
	}
	exceptionProgram = p
	e := &e3{p: p, g: g, ff: ff, rg: newRanger(p, ff), r: r, fns: p.handlerReachableRepoFuncs()}
	return e
}

// ---------------------------------------------------------------- class A

// nonZero tries to prove that request data cannot make v zero at `at`.
// Returns (proved, explanation).
func (e *e3) nonZero(v ssa.Value, at *ssa.BasicBlock, depth int) (bool, string) {
	if !e.g.isTainted(v) {
		return true, "factor " + describe(v) + " is not request-controlled"
	}
	r := e.rg.rangeAt(v, at, 0)
	if r.excludesZero() {
		return true, fmt.Sprintf("%s in %s (%s)", describe(v), r, r.why)
	}
	if depth > 8 {
		return false, describe(v) + " unproven (depth)"
	}
	switch x := v.(type) {
	case *ssa.BinOp:
		if x.Op == token.MUL {
			ok1, w1 := e.nonZero(x.X, at, depth+1)
			ok2, w2 := e.nonZero(x.Y, at, depth+1)
			if ok1 && ok2 {
				return true, w1 + " * " + w2
			}
			if !ok1 {
				return false, w1
			}
			return false, w2
		}
	case *ssa.Convert:
		if b, ok := x.X.Type().Underlying().(*types.Basic); ok && b.Info()&types.IsInteger != 0 {
			return e.nonZero(x.X, at, depth+1)
		}
	case *ssa.ChangeType:
		return e.nonZero(x.X, at, depth+1)
	case *ssa.Phi:
		var ws []string
		for i, ed := range x.Edges {
			ok, w := e.nonZero(ed, x.Block().Preds[i], depth+1)
			if !ok {
				return false, w
			}
			ws = append(ws, w)
		}
		return true, "phi: " + strings.Join(ws, " | ")
	case *ssa.Parameter:
		// every call site must pass a proven value
		fn := x.Parent()
		idx := -1
		for i, q := range fn.Params {
			if q == x {
				idx = i
			}
		}
		sites := e.p.callersOf(fn)
		if idx >= 0 && len(sites) > 0 && depth < 4 {
			all := true
			var ws []string
			for _, s := range sites {
				cc := s.Common()
				args := cc.Args
				if cc.IsInvoke() {
					args = append([]ssa.Value{cc.Value}, args...)
				}
				if idx >= len(args) || !e.p.isRepoFunc(s.Parent()) {
					all = false
					break
				}
				ok, w := e.nonZero(args[idx], s.Block(), depth+1)
				if !ok {
					return false, "call site " + e.p.pos(s.Pos()) + ": " + w
				}
				ws = append(ws, w)
			}
			if all {
				return true, "all call sites: " + strings.Join(ws, " | ")
			}
		}
	}
	return false, fmt.Sprintf("%s is request-controlled with range %s; no guard excludes 0", describe(v), r)
}

func describe(v ssa.Value) string {
	k := exprKey(v)
	if k == "" || k[0] == '@' {
		if in, ok := v.(ssa.Instruction); ok {
			_ = in
		}
		return v.Name() + "=" + strings.TrimSpace(v.String())
	}
	if len(k) > 80 {
		k = k[:80] + "…"
	}
	return k
}

// roleKey describes the divisor by roles, not positions.
func roleKey(v ssa.Value) string {
	v = stripConv(v)
	if f, ok := loadedField(v); ok {
		return "load(" + f + ")"
	}
	switch x := v.(type) {
	case *ssa.Call:
		return "call(" + calleeName(x) + ")"
	case *ssa.BinOp:
		return "(" + roleKey(x.X) + x.Op.String() + roleKey(x.Y) + ")"
	case *ssa.Parameter:
		return "param(" + x.Name() + ")"
	case *ssa.Const:
		return x.Value.String()
	case *ssa.Phi:
		if x.Comment != "" {
			return "var(" + x.Comment + ")"
		}
		return "phi"
	case *ssa.Extract:
		if c, ok := x.Tuple.(*ssa.Call); ok {
			return fmt.Sprintf("result%d(%s)", x.Index, calleeName(c))
		}
	case *ssa.UnOp:
		if x.Op == token.MUL {
			if a, ok := x.X.(*ssa.Alloc); ok && a.Comment != "" {
				return "var(" + a.Comment + ")"
			}
			return "*" + roleKey(x.X)
		}
	case *ssa.FreeVar:
		return "freevar(" + x.Name() + ")"
	}
	return "expr"
}

func (e *e3) classA(rule string, fns []*ssa.Function) {
	for _, fn := range fns {
		for _, b := range fn.Blocks {
			for _, in := range b.Instrs {
				bo, ok := in.(*ssa.BinOp)
				if !ok || (bo.Op != token.QUO && bo.Op != token.REM) {
					continue
				}
				bt, ok := bo.Type().Underlying().(*types.Basic)
				if !ok || bt.Info()&types.IsInteger == 0 {
					continue
				}
				if c, ok := constInt(bo.Y); ok && c != 0 {
					continue
				}
				construct := "div:" + roleKey(bo.X) + bo.Op.String() + roleKey(bo.Y)
				pos := e.p.pos(instrPos(bo))
				if !e.g.isTainted(bo.Y) {
					e.r.OutOfScope(rule, shortFn(fn), construct, pos, "divisor does not depend on request data (asset table / server configuration)")
					continue
				}
				ok2, why := e.nonZero(bo.Y, b, 0)
				e.r.Decide(ok2, rule, shortFn(fn), construct, pos, why,
					"integer division by a request-controlled value that may be zero: "+why+" [taint: "+strings.Join(e.g.taintTrail(bo.Y, 6), " <- ")+"]",
					e.p.callPath(fn))
			}
		}
	}
}

// ---------------------------------------------------------------- class C: explicit panics

func (e *e3) classC(rule string, fns []*ssa.Function) {
	for _, fn := range fns {
		f := factsOf(fn)
		for _, b := range fn.Blocks {
			pn, ok := b.Instrs[len(b.Instrs)-1].(*ssa.Panic)
			if !ok || !pn.Pos().IsValid() {
				continue // synthetic (blocking select matched no case)
			}
			construct := "panic:" + panicText(pn)
			pos := e.p.pos(pn.Pos())
			conds := f.transitiveCDeps(b, false)
			tainted := false
			var which string
			for _, c := range conds {
				if e.g.isTainted(c.V) {
					tainted = true
					which = describe(c.V)
					break
				}
			}
			// reachability of the function itself may be request-controlled through a tainted argument:
			// a panic that is unconditional in a helper is attributed to the helper's callers' conditions
			if !tainted && len(conds) == 0 {
				e.r.OutOfScope(rule, shortFn(fn), construct, pos, "unconditional in its function; reached only if the function is (callers are checked through their own control dependence)")
				continue
			}
			if !tainted {
				e.r.OutOfScope(rule, shortFn(fn), construct, pos, "no controlling condition depends on request data")
				continue
			}
			if why, ok := reviewedException("E3-C", shortFn(fn), construct); ok {
				e.r.Exception(rule, shortFn(fn), construct, pos, why)
				continue
			}
			// proven unreachable by ranges? every tainted controlling condition must be possible…
			if e.unreachableByRanges(b) {
				e.r.Discharge(rule, shortFn(fn), construct, pos, "block unreachable: controlling conditions contradict range facts")
				continue
			}
			e.r.Violate(rule, shortFn(fn), construct, pos, "explicit panic reachable under request-controlled condition "+which, e.p.callPath(fn))
		}
	}
}

func panicText(pn *ssa.Panic) string {
	v := pn.X
	if mi, ok := v.(*ssa.MakeInterface); ok {
		v = mi.X
	}
	if s, ok := constString(v); ok {
		if len(s) > 40 {
			s = s[:40]
		}
		return fmt.Sprintf("%q", s)
	}
	return roleKey(v)
}

// unreachableByRanges: some dominating condition of b is contradicted by intervals.
func (e *e3) unreachableByRanges(b *ssa.BasicBlock) bool {
	f := factsOf(b.Parent())
	for _, c := range f.dominatingConds(b) {
		bo, ok := c.V.(*ssa.BinOp)
		if !ok {
			continue
		}
		// err != nil where err is the error result of a call documented never to fail
		if ex, ok := bo.X.(*ssa.Extract); ok && isNilConst(bo.Y) {
			if call, ok := ex.Tuple.(*ssa.Call); ok && infallibleWrite(call) && isErrorType(ex.Type()) {
				if (bo.Op == token.NEQ && c.Pos) || (bo.Op == token.EQL && !c.Pos) {
					return true
				}
			}
		}
		if tb, ok := bo.X.Type().Underlying().(*types.Basic); !ok || tb.Info()&types.IsInteger == 0 {
			continue
		}
		x := e.rg.rangeAt(bo.X, c.At, 0)
		y := e.rg.rangeAt(bo.Y, c.At, 0)
		op := bo.Op
		if !c.Pos {
			op = negateOp(op)
		}
		switch op {
		case token.EQL:
			if x.hi < y.lo || x.lo > y.hi {
				return true
			}
		case token.NEQ:
			if x.lo == x.hi && y.lo == y.hi && x.lo == y.lo && x.lo != negInf && x.lo != posInf {
				return true
			}
		case token.LSS:
			if x.lo >= y.hi && x.lo != negInf && y.hi != posInf {
				return true
			}
		case token.GTR:
			if x.hi <= y.lo && x.hi != posInf && y.lo != negInf {
				return true
			}
		}
	}
	// switch default after exhaustive cases on an enum-returning call: the chain of != tests
	return e.switchDefaultUnreachable(b)
}

// switchDefaultUnreachable: b is the default arm of a switch over value v, and
// the tested constants cover v's whole return range.
func (e *e3) switchDefaultUnreachable(b *ssa.BasicBlock) bool {
	f := factsOf(b.Parent())
	excluded := map[int64]bool{}
	var subject ssa.Value
	for _, c := range f.dominatingConds(b) {
		bo, ok := c.V.(*ssa.BinOp)
		if !ok {
			continue
		}
		ne := (bo.Op == token.EQL && !c.Pos) || (bo.Op == token.NEQ && c.Pos)
		if !ne {
			continue
		}
		k, ok := constInt(bo.Y)
		if !ok {
			continue
		}
		if subject == nil {
			subject = bo.X
		}
		if bo.X != subject {
			continue
		}
		excluded[k] = true
	}
	if subject == nil {
		return false
	}
	r := e.rg.rangeAt(subject, nil, 0)
	if r.lo == negInf || r.hi == posInf || r.hi-r.lo > 64 {
		return false
	}
	for k := r.lo; k <= r.hi; k++ {
		if !excluded[k] {
			return false
		}
	}
	return true
}

// ---------------------------------------------------------------- class E: type assertions

func (e *e3) classE(rule string, fns []*ssa.Function) {
	for _, fn := range fns {
		for _, b := range fn.Blocks {
			for _, in := range b.Instrs {
				ta, ok := in.(*ssa.TypeAssert)
				if !ok || ta.CommaOk {
					continue
				}
				construct := "assert:" + types.TypeString(ta.X.Type(), shortQual) + ".(" + types.TypeString(ta.AssertedType, shortQual) + ")"
				pos := e.p.pos(instrPos(ta))
				// guarded by a type switch / prior comma-ok on the same value? go/ssa compiles
				// type switches into comma-ok asserts, so a bare assert is a real x.(T).
				bad := e.assertCounterexamples(ta)
				if bad == nil {
					e.r.Discharge(rule, shortFn(fn), construct, pos, "every concrete type that flows into the operand (VTA) satisfies the asserted type")
					continue
				}
				if len(bad) == 1 && bad[0] == "?" {
					if !e.g.isTainted(ta.X) && !isRequestObject(ta.X.Type()) {
						e.r.OutOfScope(rule, shortFn(fn), construct, pos, "operand is not request-controlled and its type set is not enumerable")
						continue
					}
				}
				e.r.Violate(rule, shortFn(fn), construct, pos,
					"type assertion without comma-ok can fail: operand may hold "+strings.Join(bad, ", "), e.p.callPath(fn))
			}
		}
	}
}

func isRequestObject(t types.Type) bool {
	s := types.TypeString(t, nil)
	return s == "net/http.ResponseWriter" || s == "*net/http.Request"
}

// assertCounterexamples returns concrete types that may reach the operand and do
// not satisfy the asserted type; ["?"] if the type set cannot be enumerated; nil if safe.
func (e *e3) assertCounterexamples(ta *ssa.TypeAssert) []string {
	types_ := e.concreteTypesOf(ta.X, map[ssa.Value]bool{}, 0)
	if types_ == nil {
		return []string{"?"}
	}
	var bad []string
	for _, t := range types_ {
		if t == nil {
			return []string{"?"}
		}
		ok := false
		if iface, isI := ta.AssertedType.Underlying().(*types.Interface); isI {
			ok = types.Implements(t, iface)
		} else {
			ok = types.Identical(t, ta.AssertedType)
		}
		if !ok {
			bad = append(bad, types.TypeString(t, shortQual))
		}
	}
	return bad
}

// concreteTypesOf enumerates the dynamic types an interface value may hold by
// walking definitions backwards (phis, parameters through the call graph,
// MakeInterface). Values produced by library code yield nil (unknown).
func (e *e3) concreteTypesOf(v ssa.Value, seen map[ssa.Value]bool, depth int) []types.Type {
	if seen[v] {
		return []types.Type{}
	}
	seen[v] = true
	if depth > 12 {
		return nil
	}
	switch x := v.(type) {
	case *ssa.MakeInterface:
		return []types.Type{x.X.Type()}
	case *ssa.ChangeInterface:
		return e.concreteTypesOf(x.X, seen, depth+1)
	case *ssa.Phi:
		out := []types.Type{}
		for _, ed := range x.Edges {
			ts := e.concreteTypesOf(ed, seen, depth+1)
			if ts == nil {
				return nil
			}
			out = append(out, ts...)
		}
		return out
	case *ssa.Parameter:
		fn := x.Parent()
		idx := -1
		for i, q := range fn.Params {
			if q == x {
				idx = i
			}
		}
		// a root handler's ResponseWriter comes from the library (net/http: implements Flusher);
		// wrappers created in the repository show up through repository call sites
		out := []types.Type{}
		sites := e.p.callersOf(fn)
		for _, s := range sites {
			if !e.p.isRepoFunc(s.Parent()) {
				continue // library caller: server-provided value, assumed to satisfy the documented interfaces
			}
			cc := s.Common()
			args := cc.Args
			if cc.IsInvoke() {
				args = append([]ssa.Value{cc.Value}, args...)
			}
			if idx >= len(args) {
				return nil
			}
			ts := e.concreteTypesOf(args[idx], seen, depth+1)
			if ts == nil {
				return nil
			}
			out = append(out, ts...)
		}
		return out
	case *ssa.Const:
		return []types.Type{}
	}
	return nil
}

// ---------------------------------------------------------------- class B: index / slice bounds

// constPatternGroups: number of elements FindStringSubmatch returns for a regexp
// compiled from a constant pattern.
func (e *e3) submatchLen(call *ssa.Call) (int, bool) {
	callee := call.Call.StaticCallee()
	if callee == nil || !strings.HasSuffix(callee.String(), "(*regexp.Regexp).FindStringSubmatch") {
		return 0, false
	}
	re := call.Call.Args[0]
	// load of a package-level *regexp.Regexp initialised with MustCompile("const")
	u, ok := re.(*ssa.UnOp)
	if !ok {
		return 0, false
	}
	gl, ok := u.X.(*ssa.Global)
	if !ok {
		return 0, false
	}
	pat, ok := e.globalRegexpPattern(gl)
	if !ok {
		return 0, false
	}
	rx, err := syntax.Parse(pat, syntax.Perl)
	if err != nil {
		return 0, false
	}
	return rx.MaxCap() + 1, true
}

func (e *e3) globalRegexpPattern(gl *ssa.Global) (string, bool) {
	pkg := gl.Pkg
	if pkg == nil {
		return "", false
	}
	initFn := pkg.Func("init")
	if initFn == nil {
		return "", false
	}
	var pat string
	n := 0
	// also make sure nobody else stores to the global
	for fn := range e.p.AllFuncs {
		if fn.Pkg != pkg {
			continue
		}
		for _, b := range fn.Blocks {
			for _, in := range b.Instrs {
				st, ok := in.(*ssa.Store)
				if !ok || st.Addr != gl {
					continue
				}
				n++
				c, ok := st.Val.(*ssa.Call)
				if !ok || c.Call.StaticCallee() == nil || c.Call.StaticCallee().String() != "regexp.MustCompile" {
					return "", false
				}
				s, ok := constString(c.Call.Args[0])
				if !ok {
					return "", false
				}
				pat = s
			}
		}
	}
	if n != 1 {
		return "", false
	}
	return pat, true
}

// lenLowerBound returns a proven lower bound for len(s) at block `at`:
// the minimum over all feasible path condition sets.
func (e *e3) lenLowerBound(s ssa.Value, at *ssa.BasicBlock) (int64, string) {
	f := factsOf(at.Parent())
	best := int64(-1)
	why := ""
	for _, set := range f.condSets(at) {
		if !e.rg.feasible(set, 0) {
			continue
		}
		lb, w := e.lenLowerBoundIn(s, at, set)
		if best < 0 || lb < best {
			best, why = lb, w
		}
	}
	if best < 0 {
		return 0, "no feasible path"
	}
	return best, why
}

func (e *e3) lenLowerBoundIn(s ssa.Value, at *ssa.BasicBlock, conds []cond) (int64, string) {
	best := int64(0)
	why := ""
	if r, ok := e.rg.lenOf(s, at, 0); ok && r.lo > best {
		best, why = r.lo, r.why
	}
	exact := int64(-1) // length is 0 or exactly this (regexp submatch contract)
	if c, ok := s.(*ssa.Call); ok {
		if n, ok := e.submatchLen(c); ok {
			exact = int64(n)
		}
	}
	// s = x[k:] : len(s) >= lb(x) - k
	if sl, ok := s.(*ssa.Slice); ok && sl.High == nil && sl.Low != nil {
		if k, ok := constInt(sl.Low); ok {
			if lb, w := e.lenLowerBoundIn(sl.X, at, conds); lb-k > best {
				best, why = lb-k, w
			}
		}
	}
	if n, ok := e.elemLenContract(s); ok && n > best {
		best, why = n, "elements of Find*Index results are index pairs"
	}
	key := exprKey(s)
	for _, c := range conds {
		switch x := c.V.(type) {
		case *ssa.BinOp:
			lr := e.lenCond(x, c.Pos, s, key)
			if lr > best {
				best, why = lr, "guard at "+e.p.pos(x.Pos())
			}
			eq := c.Pos && x.Op == token.EQL || !c.Pos && x.Op == token.NEQ
			ne := c.Pos && x.Op == token.NEQ || !c.Pos && x.Op == token.EQL
			if eq && sameOrKey(x.X, s, key) {
				if str, ok := constString(x.Y); ok && int64(len(str)) > best {
					best, why = int64(len(str)), "equal to constant string at "+e.p.pos(x.Pos())
				}
			}
			if ne && sameOrKey(x.X, s, key) {
				if str, ok := constString(x.Y); ok && str == "" && best < 1 {
					best, why = 1, "non-empty string guard at "+e.p.pos(x.Pos())
				}
				if isNilConst(x.Y) && exact > 0 {
					best, why = exact, "non-nil guard at "+e.p.pos(x.Pos())
				}
			}
			if ne && sameOrKey(x.Y, s, key) && isNilConst(x.X) && exact > 0 {
				best, why = exact, "non-nil guard at "+e.p.pos(x.Pos())
			}
		case *ssa.Call:
			if callee := x.Call.StaticCallee(); callee != nil && c.Pos && callee.String() == "strings.HasPrefix" {
				if sameOrKey(x.Call.Args[0], s, key) {
					if r, ok := e.rg.lenOf(x.Call.Args[1], at, 0); ok && r.lo > best {
						best, why = r.lo, "strings.HasPrefix guard at "+e.p.pos(x.Pos())
					}
				}
			}
		}
	}
	// container is a field (chain) of a parameter: every call site must establish the length
	if best == 0 || why == "" {
		if lb, w, ok := e.lenViaCallers(s, at); ok && lb > best {
			best, why = lb, w
		}
	}
	if exact > 0 && best >= 1 && exact > best {
		best, why = exact, fmt.Sprintf("FindStringSubmatch on a constant pattern returns nil or exactly %d elements; empty result excluded (%s)", exact, why)
	}
	return best, why
}

// lenViaCallers: s is an access path rooted at a parameter of its function
// (e.g. stsd.Children with parameter stsd); returns the minimum over all call
// sites of the length lower bound that holds there for the translated path.
func (e *e3) lenViaCallers(s ssa.Value, at *ssa.BasicBlock) (int64, string, bool) {
	key := exprKey(s)
	fn := at.Parent()
	var prm *ssa.Parameter
	idx := -1
	for i, q := range fn.Params {
		pk := exprKey(q)
		if pk != "" && strings.Contains(key, pk+".") {
			prm, idx = q, i
		}
	}
	if prm == nil {
		return 0, "", false
	}
	sites := e.p.callersOf(fn)
	if len(sites) == 0 {
		return 0, "", false
	}
	best := int64(-1)
	for _, site := range sites {
		if !e.p.isRepoFunc(site.Parent()) {
			return 0, "", false
		}
		cc := site.Common()
		args := cc.Args
		if cc.IsInvoke() {
			args = append([]ssa.Value{cc.Value}, args...)
		}
		if idx >= len(args) {
			return 0, "", false
		}
		ak := exprKey(args[idx])
		if ak == "" {
			return 0, "", false
		}
		tkey := strings.Replace(key, exprKey(prm), ak, 1)
		lb := e.lenLowerBoundByKey(tkey, site.Block())
		if best < 0 || lb < best {
			best = lb
		}
	}
	if best <= 0 {
		return 0, "", false
	}
	return best, fmt.Sprintf("established at all %d call sites of %s", len(sites), shortFn(fn)), true
}

// lenLowerBoundByKey: lower bound of len(<expression with this key>) from the
// conditions holding at block `at` (minimum over feasible paths).
func (e *e3) lenLowerBoundByKey(key string, at *ssa.BasicBlock) int64 {
	f := factsOf(at.Parent())
	best := int64(-1)
	for _, set := range f.condSets(at) {
		if !e.rg.feasible(set, 0) {
			continue
		}
		lb := int64(0)
		for _, c := range set {
			if bo, ok := c.V.(*ssa.BinOp); ok {
				if v := e.lenCond(bo, c.Pos, nil, key); v > lb {
					lb = v
				}
			}
		}
		if best < 0 || lb < best {
			best = lb
		}
	}
	if best < 0 {
		return 0
	}
	return best
}

// elemLenContract: s is an element of the result of (*regexp.Regexp).FindAllStringIndex
// and friends, whose elements always have length >= 2.
func (e *e3) elemLenContract(s ssa.Value) (int64, bool) {
	u, ok := s.(*ssa.UnOp)
	if !ok || u.Op != token.MUL {
		return 0, false
	}
	ia, ok := u.X.(*ssa.IndexAddr)
	if !ok {
		return 0, false
	}
	c, ok := ia.X.(*ssa.Call)
	if !ok || c.Call.StaticCallee() == nil {
		return 0, false
	}
	switch c.Call.StaticCallee().String() {
	case "(*regexp.Regexp).FindAllStringIndex", "(*regexp.Regexp).FindAllIndex", "(*regexp.Regexp).FindAllStringSubmatchIndex":
		return 2, true
	}
	return 0, false
}

func sameOrKey(a, s ssa.Value, key string) bool {
	if s != nil && a == s {
		return true
	}
	return key != "" && key[0] != '@' && exprKey(a) == key
}

func (e *e3) provedNonNilSlice(s ssa.Value, at *ssa.BasicBlock) bool {
	f := factsOf(at.Parent())
	for _, c := range f.dominatingConds(at) {
		bo, ok := c.V.(*ssa.BinOp)
		if !ok {
			continue
		}
		if (bo.X == s && isNilConst(bo.Y)) || (bo.Y == s && isNilConst(bo.X)) {
			if (bo.Op == token.NEQ && c.Pos) || (bo.Op == token.EQL && !c.Pos) {
				return true
			}
		}
	}
	return false
}

// lenCond: if x is a comparison of len(s) with a constant, return the implied lower bound of len(s).
func (e *e3) lenCond(x *ssa.BinOp, pos bool, s ssa.Value, key string) int64 {
	isLen := func(v ssa.Value) bool {
		c, ok := v.(*ssa.Call)
		if !ok {
			return false
		}
		b, ok := c.Call.Value.(*ssa.Builtin)
		if !ok || b.Name() != "len" {
			return false
		}
		return sameOrKey(c.Call.Args[0], s, key)
	}
	op := x.Op
	var k int64
	if isLen(x.X) {
		c, ok := constInt(x.Y)
		if !ok {
			return 0
		}
		k = c
	} else if isLen(x.Y) {
		c, ok := constInt(x.X)
		if !ok {
			return 0
		}
		k = c
		switch op {
		case token.LSS:
			op = token.GTR
		case token.LEQ:
			op = token.GEQ
		case token.GTR:
			op = token.LSS
		case token.GEQ:
			op = token.LEQ
		}
	} else {
		return 0
	}
	if !pos {
		op = negateOp(op)
	}
	switch op {
	case token.GTR:
		return k + 1
	case token.GEQ, token.EQL:
		return k
	case token.NEQ:
		if k == 0 {
			return 1
		}
	}
	return 0
}

func containerIsSliceOrString(t types.Type) bool {
	switch u := t.Underlying().(type) {
	case *types.Slice:
		return true
	case *types.Basic:
		return u.Info()&types.IsString != 0
	}
	return false
}

func (e *e3) classB(rule string, fns []*ssa.Function) {
	for _, fn := range fns {
		for _, b := range fn.Blocks {
			for _, in := range b.Instrs {
				switch x := in.(type) {
				case *ssa.IndexAddr:
					if containerIsSliceOrString(x.X.Type()) {
						e.indexSite(rule, fn, b, x, x.X, x.Index)
					}
				case *ssa.Index:
					if containerIsSliceOrString(x.X.Type()) {
						e.indexSite(rule, fn, b, x, x.X, x.Index)
					}
				case *ssa.Lookup:
					if containerIsSliceOrString(x.X.Type()) {
						e.indexSite(rule, fn, b, x, x.X, x.Index)
					}
				case *ssa.Slice:
					if containerIsSliceOrString(x.X.Type()) {
						e.sliceSite(rule, fn, b, x)
					}
				case *ssa.SliceToArrayPointer:
					e.sliceToArraySite(rule, fn, b, x)
				}
			}
		}
	}
}

// indexClass: "B2" if the index is a directly request-chosen value, "B3" if it
// is x mod n / the wrap idiom over such a value, "" otherwise.
func (e *e3) indexClass(idx ssa.Value) string {
	if e.g.isDirect(idx) {
		return "B2"
	}
	core := stripConv(idx)
	if bo, ok := core.(*ssa.BinOp); ok {
		var a ssa.Value
		if bo.Op == token.REM {
			a = bo.X
		} else if wa, _, ok := wrapIdiom(bo); ok {
			a = wa
		}
		if a != nil {
			a = stripConv(a)
			if e.g.isDirect(a) {
				return "B3"
			}
			if d, ok := a.(*ssa.BinOp); ok && (d.Op == token.SUB || d.Op == token.ADD) && (e.g.isDirect(d.X) || e.g.isDirect(d.Y)) {
				return "B3"
			}
		}
	}
	return ""
}

// modHelperKind classifies a function func(x, n int) int whose single return value is a remainder by n:
// "nonneg" if the result is provably in [0, n) for n > 0 — ((x % n) + n) % n — , "signed" if it is a remainder whose
// dividend is not made non-negative first (x % n, (x + n) % n), "" if the function is not of this shape.
func modHelperKind(g *ssa.Function) (string, string) {
	if len(g.Params) < 2 || len(g.Blocks) != 1 {
		return "", ""
	}
	n := g.Params[len(g.Params)-1]
	ret, ok := g.Blocks[0].Instrs[len(g.Blocks[0].Instrs)-1].(*ssa.Return)
	if !ok || len(ret.Results) != 1 {
		return "", ""
	}
	outer, ok := ret.Results[0].(*ssa.BinOp)
	if !ok || outer.Op != token.REM || outer.Y != ssa.Value(n) {
		return "", ""
	}
	// ((x % n) + n) % n
	if add, ok := outer.X.(*ssa.BinOp); ok && add.Op == token.ADD {
		for _, pair := range [][2]ssa.Value{{add.X, add.Y}, {add.Y, add.X}} {
			if inner, ok := pair[0].(*ssa.BinOp); ok && inner.Op == token.REM && inner.Y == ssa.Value(n) && pair[1] == ssa.Value(n) {
				return "nonneg", "((x % n) + n) % n"
			}
		}
		return "signed", "it computes (x + n) % n, which is negative for x < -n"
	}
	return "signed", "it computes x % n, which is negative for negative x"
}

// mayReturnNilSlice: v is (a field-store round trip of) the slice result of a
// repository function that returns a nil constant on some path.
func (e *e3) mayReturnNilSlice(v ssa.Value) (string, bool) {
	seen := map[ssa.Value]bool{}
	var walk func(v ssa.Value, d int) (string, bool)
	walk = func(v ssa.Value, d int) (string, bool) {
		if v == nil || seen[v] || d > 4 {
			return "", false
		}
		seen[v] = true
		switch x := v.(type) {
		case *ssa.Call:
			callee := x.Call.StaticCallee()
			if callee == nil || !e.p.isRepoFunc(callee) {
				return "", false
			}
			for _, b := range callee.Blocks {
				if ret, ok := b.Instrs[len(b.Instrs)-1].(*ssa.Return); ok && len(ret.Results) >= 1 && isNilConst(ret.Results[0]) {
					if _, isSl := ret.Results[0].Type().Underlying().(*types.Slice); isSl {
						return shortFn(callee), true
					}
				}
			}
		case *ssa.UnOp:
			if x.Op == token.MUL {
				// load of a local struct field / variable: look at the stores in the same function
				if fa, ok := x.X.(*ssa.FieldAddr); ok {
					fld := structFieldOf(fa.X.Type(), fa.Field)
					for _, b := range x.Parent().Blocks {
						for _, in := range b.Instrs {
							if st, ok := in.(*ssa.Store); ok {
								if g, ok := fieldOfAddr(st.Addr); ok && g == fld {
									if n, ok := walk(st.Val, d+1); ok {
										return n, true
									}
								}
							}
						}
					}
				}
			}
		}
		return "", false
	}
	return walk(v, 0)
}

func (e *e3) indexSite(rule string, fn *ssa.Function, b *ssa.BasicBlock, in ssa.Instruction, cont, idx ssa.Value) {
	pos := e.p.pos(instrPos(in))
	if k, ok := constInt(idx); ok {
		// B1: constant index on a container whose length is request-controlled;
		// B1': on the result of a repository function that has an explicit nil/empty return
		if !e.g.isShapeTainted(cont) {
			if fnName, ok := e.mayReturnNilSlice(cont); ok {
				construct := fmt.Sprintf("index:%s[%d]", roleKey(cont), k)
				lb, why := e.lenLowerBound(cont, b)
				e.r.Decide(lb > k, rule+"1p", shortFn(fn), construct, pos, fmt.Sprintf("len >= %d: %s", lb, why),
					fmt.Sprintf("constant index %d into the result of %s, which has an explicit nil return; no dominating length test", k, fnName), e.p.callPath(fn))
			}
			return // otherwise not an obligation: length fixed by server-side data
		}
		construct := fmt.Sprintf("index:%s[%d]", roleKey(cont), k)
		if why, ok := reviewedException(rule+"1", shortFn(fn), construct); ok {
			e.r.Exception(rule+"1", shortFn(fn), construct, pos, why)
			return
		}
		lb, why := e.lenLowerBound(cont, b)
		e.r.Decide(lb > k, rule+"1", shortFn(fn), construct, pos, fmt.Sprintf("len >= %d: %s", lb, why),
			fmt.Sprintf("constant index %d on a request-derived slice/string whose length is only known to be >= %d [shape: %s]", k, lb, strings.Join(e.g.shapeTrail(cont, 8), " <- ")), e.p.callPath(fn))
		return
	}
	if !e.g.isTainted(idx) {
		return
	}
	construct := "index:" + roleKey(cont) + "[" + roleKey(idx) + "]"
	// class B5: the index is the result of a helper that reduces its argument modulo its last parameter,
	// and that parameter is the container's length: decided from the helper's body (Go's % takes the sign of the dividend)
	if call, ok := idx.(*ssa.Call); ok {
		if g := call.Call.StaticCallee(); g != nil && e.p.isRepoFunc(g) {
			if kind, detail := modHelperKind(g); kind != "" {
				n := call.Call.Args[len(call.Call.Args)-1]
				isLen := false
				if mk, ok := cont.(*ssa.MakeSlice); ok && (mk.Len == n || sameValue(mk.Len, n)) {
					isLen = true
				}
				if ph, ok := cont.(*ssa.Phi); ok {
					isLen = len(ph.Edges) > 0
					for _, ed := range ph.Edges {
						mk, ok := ed.(*ssa.MakeSlice)
						if !ok || !(mk.Len == n || sameValue(mk.Len, n)) {
							isLen = false
						}
					}
				}
				if isLen {
					rn := e.rg.rangeAt(n, b, 0)
					switch {
					case kind == "nonneg" && rn.lo >= 1:
						e.r.Discharge(rule+"5", shortFn(fn), construct, pos, "index = "+shortFn(g)+"(x, n) with n = len(container) >= 1, and the helper returns a value in [0, n): "+detail)
					case kind == "nonneg":
						e.r.Violate(rule+"5", shortFn(fn), construct, pos, "the modulus "+describe(n)+" of the index helper is not proven positive", e.p.callPath(fn))
					default:
						e.r.Violate(rule+"5", shortFn(fn), construct, pos,
							"the index helper "+shortFn(g)+" can return a negative value: "+detail+" (Go's % takes the sign of the dividend); the argument here is request-derived, so the index can be -1", e.p.callPath(fn))
					}
					return
				}
			}
		}
	}
	if cls := e.indexClass(idx); cls == "" {
		ok, why := e.indexInBounds(idx, cont, b)
		if ok {
			e.r.Discharge(rule+"x", shortFn(fn), construct, pos, "computed index, proven anyway: "+why)
		} else {
			e.r.OutOfScope(rule+"x", shortFn(fn), construct, pos, "index is computed from request data by an algorithm (not a directly request-chosen value, not the wrap idiom): outside fault classes B2/B3, not decided")
		}
		return
	}
	ok, why := e.indexInBounds(idx, cont, b)
	e.r.Decide(ok, rule+"2", shortFn(fn), construct, pos, why,
		"request-controlled index not proven within bounds: "+why+" [taint: "+strings.Join(e.g.taintTrail(idx, 6), " <- ")+"]", e.p.callPath(fn))
}

// indexInBounds proves 0 <= idx < len(cont) at block b on every feasible path.
func (e *e3) indexInBounds(idx, cont ssa.Value, b *ssa.BasicBlock) (bool, string) {
	f := factsOf(b.Parent())
	why := ""
	n := 0
	for _, set := range f.condSets(b) {
		if !e.rg.feasible(set, 0) {
			continue
		}
		n++
		ok, w := e.indexInBoundsIn(idx, cont, b, set)
		if !ok {
			return false, w
		}
		why = w
	}
	if n == 0 {
		return true, "unreachable: no feasible path"
	}
	return true, why
}

func (e *e3) indexInBoundsIn(idx, cont ssa.Value, b *ssa.BasicBlock, conds []cond) (bool, string) {
	r := e.rg.rangeAt(idx, b, 0)
	lowOK := r.lo >= 0
	ckey := exprKey(cont)
	isLenOfCont := func(v ssa.Value) bool {
		v = stripConv(v)
		c, ok := v.(*ssa.Call)
		if !ok {
			return false
		}
		bi, ok := c.Call.Value.(*ssa.Builtin)
		if !ok || bi.Name() != "len" {
			return false
		}
		return sameOrKey(c.Call.Args[0], cont, ckey)
	}
	// idx = a % len(cont)  or wrap idiom with n = len(cont)
	core := stripConv(idx)
	if bo, ok := core.(*ssa.BinOp); ok {
		var a, n ssa.Value
		if bo.Op == token.REM {
			a, n = bo.X, bo.Y
		} else if wa, wn, ok := wrapIdiom(bo); ok {
			a, n = wa, wn
		}
		if n != nil && isLenOfCont(n) {
			ar := e.rg.rangeAt(a, b, 0)
			if ar.lo >= 0 {
				return true, fmt.Sprintf("index is x mod len(container) with x in %s (%s)", ar, ar.why)
			}
			return false, fmt.Sprintf("index is x mod len(container) but x in %s may be negative (Go's %% keeps the sign)", ar)
		}
	}
	// dominating idx < len(cont)
	upOK := false
	upWhy := ""
	ikey := exprKey(idx)
	for _, c := range conds {
		bo, ok := c.V.(*ssa.BinOp)
		if !ok {
			continue
		}
		op := bo.Op
		if !c.Pos {
			op = negateOp(op)
		}
		if sameOrKey(stripConv(bo.X), stripConv(idx), ikey) && isLenOfCont(bo.Y) && op == token.LSS {
			upOK, upWhy = true, "guard idx < len at "+e.p.pos(bo.Pos())
		}
		if sameOrKey(stripConv(bo.Y), stripConv(idx), ikey) && isLenOfCont(bo.X) && op == token.GTR {
			upOK, upWhy = true, "guard len > idx at "+e.p.pos(bo.Pos())
		}
		// idx != len(cont) together with idx <= len (sort.Search result)
		if (op == token.NEQ) && ((sameOrKey(bo.X, idx, ikey) && isLenOfCont(bo.Y)) || (sameOrKey(bo.Y, idx, ikey) && isLenOfCont(bo.X))) {
			if e.searchResultOver(idx, cont) {
				upOK, upWhy = true, "sort.Search result in [0,len] and != len at "+e.p.pos(bo.Pos())
			}
		}
	}
	if !upOK && r.hasSym && r.symOff <= -1 && sameOrKey(r.symVal, cont, ckey) {
		upOK, upWhy = true, fmt.Sprintf("idx <= len(container)%+d (symbolic bound)", r.symOff)
	}
	if !upOK {
		// numeric upper bound below a proven length lower bound
		lb, why := e.lenLowerBoundIn(cont, b, conds)
		if r.hi != posInf && r.hi < lb {
			upOK, upWhy = true, fmt.Sprintf("idx <= %d < len >= %d (%s)", r.hi, lb, why)
		}
	}
	if lowOK && upOK {
		return true, fmt.Sprintf("idx in %s (%s); %s", r, r.why, upWhy)
	}
	if !lowOK {
		return false, fmt.Sprintf("lower bound: idx in %s may be negative", r)
	}
	return false, fmt.Sprintf("upper bound: no dominating comparison of the index with len(container); idx in %s", r)
}

// searchResultOver: idx is the result of a repository function that returns sort.Search(len(cont'), …)
func (e *e3) searchResultOver(idx, cont ssa.Value) bool {
	c, ok := stripConv(idx).(*ssa.Call)
	if !ok {
		return false
	}
	callee := c.Call.StaticCallee()
	if callee == nil {
		return false
	}
	if callee.String() == "sort.Search" {
		return true
	}
	if !e.p.isRepoFunc(callee) {
		return false
	}
	for _, b := range callee.Blocks {
		if ret, ok := b.Instrs[len(b.Instrs)-1].(*ssa.Return); ok {
			if len(ret.Results) != 1 {
				return false
			}
			rc, ok := ret.Results[0].(*ssa.Call)
			if !ok || rc.Call.StaticCallee() == nil || rc.Call.StaticCallee().String() != "sort.Search" {
				return false
			}
		}
	}
	return true
}

func (e *e3) sliceSite(rule string, fn *ssa.Function, b *ssa.BasicBlock, x *ssa.Slice) {
	pos := e.p.pos(instrPos(x))
	// constant bounds on request-derived containers; tainted bounds anywhere
	for _, bd := range []struct {
		v    ssa.Value
		name string
	}{{x.Low, "low"}, {x.High, "high"}} {
		if bd.v == nil {
			continue
		}
		if k, ok := constInt(bd.v); ok {
			if k == 0 || !e.g.isShapeTainted(x.X) {
				continue
			}
			construct := fmt.Sprintf("slice:%s[%s=%d]", roleKey(x.X), bd.name, k)
			if why, ok := reviewedException(rule+"1", shortFn(fn), construct); ok {
				e.r.Exception(rule+"1", shortFn(fn), construct, pos, why)
				continue
			}
			lb, why := e.lenLowerBound(x.X, b)
			// also capacity for high bound on slices; use len as the safe requirement
			e.r.Decide(lb >= k, rule+"1", shortFn(fn), construct, pos, fmt.Sprintf("len >= %d: %s", lb, why),
				fmt.Sprintf("constant slice bound %d on a request-derived slice/string whose length is only known to be >= %d", k, lb), e.p.callPath(fn))
			continue
		}
		if !e.g.isTainted(bd.v) {
			continue
		}
		construct := "slice:" + roleKey(x.X) + "[" + bd.name + "=" + roleKey(bd.v) + "]"
		if e.indexClass(bd.v) == "" {
			ok, why := e.sliceBoundOK(bd.v, x, b)
			if ok {
				e.r.Discharge(rule+"x", shortFn(fn), construct, pos, "computed bound, proven anyway: "+why)
			} else {
				e.r.OutOfScope(rule+"x", shortFn(fn), construct, pos, "slice bound is computed from request data by an algorithm (not directly request-chosen): outside fault classes B2/B3, not decided")
			}
			continue
		}
		ok, why := e.sliceBoundOK(bd.v, x, b)
		e.r.Decide(ok, rule+"2", shortFn(fn), construct, pos, why,
			"request-controlled slice bound not proven within bounds: "+why+" [direct: "+strings.Join(e.g.directTrail(bd.v, 8), " <- ")+"]", e.p.callPath(fn))
	}
}

// sliceBoundOK proves 0 <= bound <= len(cont) (cap for slices is >= len).
func (e *e3) sliceBoundOK(bound ssa.Value, x *ssa.Slice, b *ssa.BasicBlock) (bool, string) {
	cont := x.X
	r := e.rg.rangeAt(bound, b, 0)
	ckey := exprKey(cont)
	// bound is len(const) guarded by HasPrefix, or len(cont) itself
	core := stripConv(bound)
	if c, ok := core.(*ssa.Call); ok {
		if bi, ok := c.Call.Value.(*ssa.Builtin); ok && bi.Name() == "len" {
			if sameOrKey(c.Call.Args[0], cont, ckey) {
				return true, "bound is len(container)"
			}
			if lr, ok := e.rg.lenOf(c.Call.Args[0], b, 0); ok && lr.hi != posInf {
				lb, why := e.lenLowerBound(cont, b)
				if lb >= lr.hi {
					return true, fmt.Sprintf("bound = %d <= len >= %d (%s)", lr.hi, lb, why)
				}
			}
		}
	}
	if r.lo < 0 {
		return false, fmt.Sprintf("bound in %s may be negative", r)
	}
	lb, why := e.lenLowerBound(cont, b)
	if r.hi != posInf && r.hi <= lb {
		return true, fmt.Sprintf("bound <= %d <= len >= %d (%s)", r.hi, lb, why)
	}
	// dominating bound <= len(cont)
	bkey := exprKey(bound)
	f := factsOf(b.Parent())
	for _, c := range f.dominatingConds(b) {
		bo, ok := c.V.(*ssa.BinOp)
		if !ok {
			continue
		}
		op := bo.Op
		if !c.Pos {
			op = negateOp(op)
		}
		isLen := func(v ssa.Value) bool {
			cl, ok := stripConv(v).(*ssa.Call)
			if !ok {
				return false
			}
			bi, ok := cl.Call.Value.(*ssa.Builtin)
			return ok && (bi.Name() == "len" || bi.Name() == "cap") && sameOrKey(cl.Call.Args[0], cont, ckey)
		}
		if sameOrKey(stripConv(bo.X), stripConv(bound), bkey) && isLen(bo.Y) && (op == token.LEQ || op == token.LSS) {
			return true, "guard bound <= len at " + e.p.pos(bo.Pos())
		}
		if sameOrKey(stripConv(bo.Y), stripConv(bound), bkey) && isLen(bo.X) && (op == token.GEQ || op == token.GTR) {
			return true, "guard len >= bound at " + e.p.pos(bo.Pos())
		}
	}
	// high bound of a slice expression whose low bound is the same cursor etc. is not modelled
	return false, fmt.Sprintf("no dominating comparison of the bound with len(container); bound in %s", r)
}

func (e *e3) sliceToArraySite(rule string, fn *ssa.Function, b *ssa.BasicBlock, x *ssa.SliceToArrayPointer) {
	if !e.g.isShapeTainted(x.X) {
		return
	}
	pt, ok := x.Type().Underlying().(*types.Pointer)
	if !ok {
		return
	}
	arr, ok := pt.Elem().Underlying().(*types.Array)
	if !ok {
		return
	}
	lb, why := e.lenLowerBound(x.X, b)
	construct := fmt.Sprintf("toarray:%s->[%d]", roleKey(x.X), arr.Len())
	e.r.Decide(lb >= arr.Len(), rule+"4", shortFn(fn), construct, e.p.pos(instrPos(x)),
		fmt.Sprintf("len >= %d: %s", lb, why),
		fmt.Sprintf("slice to array conversion needs len >= %d, known >= %d", arr.Len(), lb), e.p.callPath(fn))
}

// ---------------------------------------------------------------- reviewed exceptions

// Reviewed exceptions: obligations that stay undecided without failing. One
// function, one construct, one reason each; anything else undecided is a violation.
type exceptionEntry struct {
	rule, fn, constructPrefix, reason string
	premise                            func(p *Program) (bool, string) // optional: re-verified structurally on every run
}

var exceptionProgram *Program
var premiseMemo = map[string]string{}

var reviewedExceptions = []exceptionEntry{
	{rule: "E3-C", fn: "app.makeWvttCuePayload", constructPrefix: `panic:"cannot write vttc"`,
		reason: "internal invariant: the writer is sized by Size() of the very box that is encoded into it"},
	{rule: "E3-C", fn: "patch.diffInternal", constructPrefix: `panic:"Should never hit this!"`,
		reason: "algorithmic invariant of the Myers diff (the snake search always meets within the loop bound); not a request-value guard"},
	{rule: "E3-D2", fn: "app.genLiveSegment", constructPrefix: "deref:load(app.segOut.seg)",
		reason: "segOut invariant: createOutSeg sets exactly one of data/seg; the data branch above assigns seg after a successful decode, image segments return earlier"},
	{rule: "E3-D1", fn: "app.writeTimeSubsMediaSegment", constructPrefix: "deref:var(mediaSeg)",
		reason: "the callee fails only if the embedded, fixed TTML template fails to execute or fragment creation fails; neither depends on the request (isLast is set by the ingester only)"},
	{rule: "E3-D2", fn: "app.createAudioSeg", constructPrefix: "deref:load(app.RepData.ConstantSampleDuration)",
		reason: "reached for audio representations only, which are registered only with a non-nil, non-zero constant sample duration", premise: verifyAudioSampleDurGuard},
	{rule: "E3-D2", fn: "app.calcAudioSegRecipe", constructPrefix: "deref:load(app.RepData.ConstantSampleDuration)",
		reason: "reached for audio representations only, which are registered only with a non-nil, non-zero constant sample duration", premise: verifyAudioSampleDurGuard},
	{rule: "E3-D2", fn: "(*app.asset).generateTimelineEntriesFromRef", constructPrefix: "deref:load(mpd.S.T)",
		reason: "entries[0] of the reference timeline: the generator creates an S without @t only after an earlier S exists, so the first entry always carries @t", premise: verifyFirstEntryHasT},
	{rule: "E3-D2", fn: "(*recv.ChannelMgr).AddChannel", constructPrefix: "deref:load(recv.ChannelMgr.cfg)",
		reason: "the receiver is always constructed with a non-nil configuration (GetEmptyConfig or a successfully read file in Run); the nil test above is defensive"},
	{rule: "E3-B1", fn: "(*recv.channel).receivedSegData", constructPrefix: "index:load(recv.segDataBuffer.items)[",
		reason: "circular-buffer invariant _nrItems <= len(items) (maintained by add/resize/drop); the indices 0 and 1 are guarded by nrItems() >= 2; buffer internals are outside classes B1-B3"},
	{rule: "E3-B1", fn: "(*recv.channel).deriveAndSetFrameRates", constructPrefix: "index:load(recv.segDataBuffer.items)[0]",
		reason: "circular-buffer invariant _nrItems <= len(items); index 0 is guarded by nrItems() != 0"},
	{rule: "E3-B1", fn: "(*recv.segDataBuffer).add", constructPrefix: "index:load(recv.segDataBuffer.items)[0]",
		reason: "the buffer is created and resized with size >= 1 (window = tsbd*timescale/segDur + 1)"},
	{rule: "E3-B1", fn: "(*recv.seqCounters).add", constructPrefix: "index:load(recv.seqCounters.counters)[0]",
		reason: "the counter window is created and resized with size >= 1 (window = tsbd*timescale/segDur + 1)"},
	{rule: "E3-B1", fn: "(*recv.seqCounters).add", constructPrefix: "slice:load(recv.seqCounters.counters)[low=1]",
		reason: "reached only in the insert-in-the-middle loop, which runs for i >= 1, i.e. with at least two counters in a window of size >= 2"},
	{rule: "E3-D2", fn: "app.chunkSegment", constructPrefix: "deref:param(init)",
		reason: "reached only after the segment was decoded (seg != nil), which excludes image representations, the only ones loaded without an init segment"},
	{rule: "E3-B1", fn: "app.shiftTimestamp", constructPrefix: "index:call((*regexp.Regexp).FindStringSubmatch)[",
		reason: "the argument is a substring returned by FindAllStringIndex of the same regexp, so the match succeeds with all groups"},
}

var nameInKey = regexp.MustCompile(`\b(var|param|freevar)\([^()]*\)`)

// stableConstruct removes local variable and parameter names from a construct key, so that renaming them
// neither detaches nor attaches a reviewed exception.
func stableConstruct(s string) string { return nameInKey.ReplaceAllString(s, "$1(_)") }

func reviewedException(rule, fn, construct string) (string, bool) {
	for _, x := range reviewedExceptions {
		if x.rule == rule && (x.fn == fn || privateHelperOf(fn, x.fn)) && strings.HasPrefix(stableConstruct(construct), stableConstruct(x.constructPrefix)) {
			if x.premise != nil {
				key := x.rule + x.fn + x.constructPrefix
				res, done := premiseMemo[key]
				if !done {
					ok, why := x.premise(exceptionProgram)
					res = "FAIL: " + why
					if ok {
						res = "ok: " + why
					}
					premiseMemo[key] = res
					if os.Getenv("LSVERIF_VERBOSE") != "" {
						fmt.Fprintln(os.Stderr, "premise", key, res)
					}
				}
				if strings.HasPrefix(res, "FAIL") {
					return "", false // premise no longer holds: the obligation becomes a violation
				}
				return "reviewed exception: " + x.reason + " [premise " + res + "]", true
			}
			return "reviewed exception: " + x.reason, true
		}
	}
	return "", false
}

// verifyAudioSampleDurGuard: every registration into asset.Reps in loadAsset is
// dominated, on every path where the adaptation set is audio, by the test that
// the representation has a non-nil constant sample duration.
func verifyAudioSampleDurGuard(p *Program) (bool, string) {
	fn := p.lookupFunc(pkgApp, "(*assetMgr).loadAsset")
	if fn == nil {
		return false, "loadAsset not found"
	}
	f := factsOf(fn)
	n := 0
	for _, b := range fn.Blocks {
		for _, in := range b.Instrs {
			mu, ok := in.(*ssa.MapUpdate)
			if !ok {
				continue
			}
			if fld, ok := loadedField(mu.Map); !ok || fld != "app.asset.Reps" {
				continue
			}
			n++
			for _, set := range f.condSets(b) {
				notAudio, nonNil, nonZero := false, false, false
				for _, c := range set {
					bo, ok := c.V.(*ssa.BinOp)
					if !ok {
						continue
					}
					if fld, ok := loadedField(bo.X); ok && strings.HasSuffix(fld, ".ContentType") {
						if s, ok := constString(bo.Y); ok && s == "audio" && ((bo.Op == token.EQL && !c.Pos) || (bo.Op == token.NEQ && c.Pos)) {
							notAudio = true
						}
					}
					if fld, ok := loadedField(bo.X); ok && fld == "app.RepData.ConstantSampleDuration" && isNilConst(bo.Y) {
						if (bo.Op == token.EQL && !c.Pos) || (bo.Op == token.NEQ && c.Pos) {
							nonNil = true
						}
					}
					if fld, ok := loadedField(bo.X); ok && fld == "app.RepData.ConstantSampleDuration*" {
						if k, ok := constInt(bo.Y); ok && k == 0 && ((bo.Op == token.EQL && !c.Pos) || (bo.Op == token.NEQ && c.Pos)) {
							nonZero = true
						}
					}
				}
				if !notAudio && !(nonNil && nonZero) {
					return false, "registration at " + p.pos(mu.Pos()) + " can be reached for an audio representation without the constant-sample-duration test"
				}
			}
		}
	}
	if n == 0 {
		return false, "no registration into asset.Reps in loadAsset"
	}
	return true, "audio representations are registered only after ConstantSampleDuration != nil && != 0 (loadAsset)"
}

// verifyFirstEntryHasT: in the timeline generators of livesim2 every mpd.S that is created without @t is
// created on paths where the running entry variable is known to be non-nil (an earlier S exists), and the
// dereference concerned reads element 0.
func verifyFirstEntryHasT(p *Program) (bool, string) {
	n := 0
	for _, name := range []string{"(*asset).generateTimelineEntries", "(*asset).generateTimelineEntriesFromRef"} {
		fn := p.lookupFunc(pkgApp, name)
		if fn == nil {
			return false, name + " not found"
		}
		f := factsOf(fn)
		var withT []*ssa.BasicBlock
		for _, b := range fn.DomPreorder() {
			for _, in := range b.Instrs {
				al, ok := in.(*ssa.Alloc)
				if !ok || !strings.HasSuffix(al.Type().String(), "dash-mpd/mpd.S") || al.Referrers() == nil {
					continue
				}
				hasT := false
				for _, ref := range *al.Referrers() {
					if fa, ok := ref.(*ssa.FieldAddr); ok && structFieldOf(fa.X.Type(), fa.Field) == "mpd.S.T" && fa.Referrers() != nil {
						for _, rr := range *fa.Referrers() {
							if st, ok := rr.(*ssa.Store); ok && st.Addr == fa && !isNilConst(st.Val) {
								hasT = true
							}
						}
					}
				}
				n++
				if hasT {
					withT = append(withT, b)
					continue
				}
				// without @t: an S with @t was created on every path to here ...
				domd := false
				for _, wb := range withT {
					if wb.Dominates(b) {
						domd = true
					}
				}
				if domd {
					continue
				}
				// ... or some earlier entry must exist (a *mpd.S variable tested non-nil on every path)
				for _, set := range f.condSets(b) {
					ok := false
					for _, c := range set {
						bo, isBin := c.V.(*ssa.BinOp)
						if !isBin || !isNilConst(bo.Y) || !strings.HasSuffix(bo.X.Type().String(), "dash-mpd/mpd.S") {
							continue
						}
						if (bo.Op == token.EQL && !c.Pos) || (bo.Op == token.NEQ && c.Pos) {
							ok = true
						}
					}
					if !ok {
						return false, "an S without @t is created at " + p.pos(al.Pos()) + " on a path where no earlier entry is known to exist"
					}
				}
			}
		}
	}
	if n < 2 {
		return false, "fewer than two S creation sites found in the timeline generators"
	}
	return true, "S entries without @t are created only after an earlier entry (timeline generators)"
}

// ---------------------------------------------------------------- class G: make with a negative size

// classG: make([]T, len, cap) panics when len or cap is negative. A request-controlled size must be
// proven non-negative.
func (e *e3) classG(rule string, fns []*ssa.Function) {
	for _, fn := range fns {
		for _, b := range fn.Blocks {
			for _, in := range b.Instrs {
				ms, ok := in.(*ssa.MakeSlice)
				if !ok {
					continue
				}
				for i, v := range []ssa.Value{ms.Len, ms.Cap} {
					if v == nil {
						continue
					}
					if _, isConst := v.(*ssa.Const); isConst {
						continue
					}
					what := [...]string{"len", "cap"}[i]
					construct := "make:" + what + ":" + roleKey(v)
					pos := e.p.pos(instrPos(ms))
					if !e.g.isTainted(v) {
						e.r.OutOfScope(rule, shortFn(fn), construct, pos, "size does not depend on request data")
						continue
					}
					if isUnsigned(stripConv(v).Type()) {
						e.r.Discharge(rule, shortFn(fn), construct, pos, "unsigned size")
						continue
					}
					if guardedDifference(v, b) {
						e.r.Discharge(rule, shortFn(fn), construct, pos, "difference a-b computed under the guard a > b")
						continue
					}
					rg := e.rg.rangeAt(v, b, 0)
					e.r.Decide(rg.lo >= 0, rule, shortFn(fn), construct, pos, fmt.Sprintf("size in %s (%s)", rg, rg.why),
						fmt.Sprintf("make with a request-controlled %s that may be negative (%s): runtime panic 'makeslice: %s out of range' [taint: %s]", what, rg, what, strings.Join(e.g.taintTrail(v, 6), " <- ")),
						e.p.callPath(fn))
				}
			}
		}
	}
}

// ---------------------------------------------------------------- class D3 / C2: library results and library panics

// libNilResults: library functions whose pointer result is nil for some inputs (documented behaviour).
var libNilResults = map[string]string{
	"(*github.com/beevik/etree.Document).Root":         "nil for a document without a root element (e.g. a body that is not XML)",
	"(*github.com/beevik/etree.Element).SelectElement": "nil when no child has the tag",
	"(*github.com/beevik/etree.Element).FindElement":   "nil when the path matches nothing",
	"(*github.com/beevik/etree.Element).SelectAttr":    "nil when the attribute is absent",
	"(*github.com/beevik/etree.Element).Parent":        "nil for the root",
}

// libPanics: library functions that panic on bad arguments instead of returning an error.
var libPanics = map[string]string{
	"net/http/httptest.NewRequest": "panics on a target that is not a valid request URI",
	"regexp.MustCompile":           "panics on an invalid expression",
	"text/template.Must":           "panics on a template error",
	"html/template.Must":           "panics on a template error",
}

// classLib: (D3) a request-dependent result of a library function that may be nil is dereferenced only
// under a non-nil test; (C2) a library function that panics on bad input gets no request-controlled argument.
func (e *e3) classLib(ruleNil, rulePanic string, fns []*ssa.Function) {
	na := newNilAnalysis(e)
	for _, fn := range fns {
		for _, b := range fn.Blocks {
			for _, in := range b.Instrs {
				c, ok := in.(*ssa.Call)
				if !ok || c.Call.StaticCallee() == nil {
					continue
				}
				name := c.Call.StaticCallee().String()
				if why, ok := libPanics[name]; ok {
					tainted := false
					for _, a := range c.Call.Args {
						if e.g.isTainted(a) {
							tainted = true
						}
					}
					construct := "call:" + name
					if !tainted {
						e.r.OutOfScope(rulePanic, shortFn(fn), construct, e.p.pos(c.Pos()), "no argument depends on request data")
					} else if name == "net/http/httptest.NewRequest" && len(c.Call.Args) >= 2 && requestTargetValidated(c.Call.Args[1], b) {
						e.r.Discharge(rulePanic, shortFn(fn), construct, e.p.pos(c.Pos()), "the target passed url.ParseRequestURI and contains no space on every path to the call")
					} else if reason, isEx := reviewedException(rulePanic, shortFn(fn), construct); isEx {
						e.r.Exception(rulePanic, shortFn(fn), construct, e.p.pos(c.Pos()), reason)
					} else {
						e.r.Violate(rulePanic, shortFn(fn), construct, e.p.pos(c.Pos()), name+" "+why+", and an argument is request-controlled", e.p.callPath(fn))
					}
					continue
				}
				why, ok := libNilResults[name]
				if !ok || c.Referrers() == nil {
					continue
				}
				// every dereference (field access, method call with the value as receiver) of the result
				for _, ref := range *c.Referrers() {
					var at ssa.Instruction
					switch x := ref.(type) {
					case *ssa.FieldAddr:
						if x.X == ssa.Value(c) {
							at = x
						}
					case *ssa.UnOp:
						if x.Op == token.MUL && x.X == ssa.Value(c) {
							at = x
						}
					case *ssa.Call:
						if len(x.Call.Args) > 0 && x.Call.Args[0] == ssa.Value(c) && x.Call.StaticCallee() != nil && x.Call.StaticCallee().Signature.Recv() != nil {
							// a method call on a nil *etree.Element dereferences the receiver inside the library
							at = x
						}
					}
					if at == nil {
						// handed to a repository function: the dereferences of the parameter there
						if call, isCall := ref.(*ssa.Call); isCall {
							e.libNilThroughParam(na, ruleNil, name, why, c, call, fn)
						}
						continue
					}
					construct := "deref:" + name[strings.LastIndex(name, ".")+1:] + "()"
					pos := e.p.pos(instrPos(at))
					ok, how := na.provedNonNil(c, at.Block(), at)
					if !ok {
						if reason, isEx := reviewedException(ruleNil, shortFn(fn), construct); isEx {
							e.r.Exception(ruleNil, shortFn(fn), construct, pos, reason)
							continue
						}
					}
					e.r.Decide(ok, ruleNil, shortFn(fn), construct, pos, how,
						"the result of "+name+" is used without a nil test: "+why, e.p.callPath(fn))
				}
			}
		}
	}
}

// libNilThroughParam: a possibly-nil library result is passed to a repository function without a test;
// the parameter's dereferences in the callee must then be guarded there.
func (e *e3) libNilThroughParam(na *nilAnalysis, rule, name, why string, res *ssa.Call, call *ssa.Call, caller *ssa.Function) {
	callee := call.Call.StaticCallee()
	if callee == nil || !e.p.isRepoFunc(callee) || len(callee.Blocks) == 0 {
		return
	}
	if ok, _ := na.provedNonNil(res, call.Block(), call); ok {
		return
	}
	for i, a := range call.Call.Args {
		if a != ssa.Value(res) || i >= len(callee.Params) {
			continue
		}
		prm := callee.Params[i]
		seen := map[*ssa.BasicBlock]bool{}
		for _, b := range callee.Blocks {
			for _, in := range b.Instrs {
				deref := false
				switch x := in.(type) {
				case *ssa.FieldAddr:
					deref = x.X == ssa.Value(prm)
				case *ssa.UnOp:
					deref = x.Op == token.MUL && x.X == ssa.Value(prm)
				}
				if !deref || seen[b] {
					continue
				}
				seen[b] = true
				construct := "deref:param(" + prm.Name() + ")<-" + name[strings.LastIndex(name, ".")+1:] + "()"
				ok, how := na.provedNonNil(prm, b, in)
				if !ok {
					if reason, isEx := reviewedException(rule, shortFn(callee), construct); isEx {
						e.r.Exception(rule, shortFn(callee), construct, e.p.pos(instrPos(in)), reason)
						continue
					}
				}
				e.r.Decide(ok, rule, shortFn(callee), construct, e.p.pos(instrPos(in)), how,
					"the result of "+name+" ("+why+") is passed from "+shortFn(caller)+" without a nil test and dereferenced here", e.p.callPath(callee))
			}
		}
	}
}

// guardedDifference: v is a - b (plus non-negative constants) and a dominating condition states a > b or a >= b.
func guardedDifference(v ssa.Value, at *ssa.BasicBlock) bool {
	v = stripConv(v)
	for {
		bo, ok := v.(*ssa.BinOp)
		if !ok {
			return false
		}
		if bo.Op == token.ADD {
			if k, isC := constInt(bo.Y); isC && k >= 0 {
				v = stripConv(bo.X)
				continue
			}
			return false
		}
		if bo.Op != token.SUB {
			return false
		}
		for _, c := range factsOf(at.Parent()).dominatingConds(at) {
			cb, ok := c.V.(*ssa.BinOp)
			if !ok {
				continue
			}
			op := cb.Op
			x, y := cb.X, cb.Y
			if !c.Pos {
				switch op {
				case token.LSS:
					op = token.GEQ
				case token.LEQ:
					op = token.GTR
				case token.GTR:
					op = token.LEQ
				case token.GEQ:
					op = token.LSS
				default:
					continue
				}
			}
			if (op == token.GTR || op == token.GEQ) && sameValue(stripConv(x), stripConv(bo.X)) && sameValue(stripConv(y), stripConv(bo.Y)) {
				return true
			}
			if (op == token.LSS || op == token.LEQ) && sameValue(stripConv(y), stripConv(bo.X)) && sameValue(stripConv(x), stripConv(bo.Y)) {
				return true
			}
		}
		return false
	}
}

// requestTargetValidated: on every path to block at, target was parsed successfully by url.ParseRequestURI
// and tested to contain no space (the two ways in which httptest.NewRequest's request line can be malformed).
func requestTargetValidated(target ssa.Value, at *ssa.BasicBlock) bool {
	parsed, noSpace := false, false
	for _, c := range factsOf(at.Parent()).dominatingConds(at) {
		switch x := c.V.(type) {
		case *ssa.BinOp:
			if x.Op != token.EQL && x.Op != token.NEQ || !isNilConst(x.Y) {
				continue
			}
			ex, ok := x.X.(*ssa.Extract)
			if !ok {
				continue
			}
			call, ok := ex.Tuple.(*ssa.Call)
			if !ok || call.Call.StaticCallee() == nil || call.Call.StaticCallee().String() != "net/url.ParseRequestURI" {
				continue
			}
			if !sameValue(call.Call.Args[0], target) {
				continue
			}
			if (x.Op == token.EQL && c.Pos) || (x.Op == token.NEQ && !c.Pos) {
				parsed = true
			}
		case *ssa.Call:
			if x.Call.StaticCallee() != nil && x.Call.StaticCallee().String() == "strings.Contains" && !c.Pos {
				if s, ok := constString(x.Call.Args[1]); ok && s == " " && sameValue(x.Call.Args[0], target) {
					noSpace = true
				}
			}
		}
	}
	return parsed && noSpace
}


// ---------------------------------------------------------------- class D4: calling a function value taken from a map

// classD4: a function value read from a map with a plain lookup is nil when the key is absent. Where the
// repository deletes entries from that map (so absence is possible for a key that was once valid), calling
// the looked-up value needs a comma-ok or non-nil test.
func (e *e3) classD4(rule string, fns []*ssa.Function) {
	deleted := map[string]string{}
	for _, fn := range e.p.allRepoFuncs() {
		for _, b := range fn.Blocks {
			for _, in := range b.Instrs {
				c, ok := in.(*ssa.Call)
				if !ok {
					continue
				}
				if bi, ok := c.Call.Value.(*ssa.Builtin); ok && bi.Name() == "delete" && len(c.Call.Args) == 2 {
					if f, ok := loadedField(c.Call.Args[0]); ok {
						deleted[f] = e.p.pos(c.Pos())
					}
				}
			}
		}
	}
	na := newNilAnalysis(e)
	for _, fn := range fns {
		for _, b := range fn.Blocks {
			for _, in := range b.Instrs {
				c, ok := in.(*ssa.Call)
				if !ok || c.Call.IsInvoke() {
					continue
				}
				lk, ok := c.Call.Value.(*ssa.Lookup)
				if !ok || lk.CommaOk {
					continue
				}
				if _, isSig := lk.Type().Underlying().(*types.Signature); !isSig {
					continue
				}
				f, ok := loadedField(lk.X)
				if !ok {
					continue
				}
				construct := "call:lookup(" + f + ")"
				pos := e.p.pos(instrPos(c))
				where, del := deleted[f]
				if !del {
					e.r.Discharge(rule, shortFn(fn), construct, pos, "no entry of "+f+" is ever deleted: a key found in the sibling table is present here")
					continue
				}
				ok2, how := na.provedNonNil(lk, b, c)
				e.r.Decide(ok2, rule, shortFn(fn), construct, pos, how,
					"a function value is taken from "+f+" by a plain lookup and called, but entries of that map are deleted ("+where+"): for a key whose entry is gone the value is nil and the call panics", e.p.callPath(fn))
			}
		}
	}
}

// privateHelperOf: the function named helper (short name) is called from exactly one place, directly or
// through further such helpers, inside the function named owner: code moved out of owner keeps owner's
// reviewed exceptions.
func privateHelperOf(helper, owner string) bool {
	p := exceptionProgram
	if p == nil || helper == owner {
		return false
	}
	var hf *ssa.Function
	for _, fn := range p.allRepoFuncs() {
		if shortFn(fn) == helper {
			hf = fn
		}
	}
	for lvl := 0; hf != nil && lvl < 3; lvl++ {
		site := uniqueCallSite(hf)
		if site == nil {
			return false
		}
		hf = site.Parent()
		if shortFn(hf) == owner {
			return true
		}
	}
	return false
}
