#!/usr/bin/env python3
"""usage: freeze.py <matrix.txt> <matrix_silent.txt>
Freezes selftest/expect.tsv from the output of selftest/matrix.sh and prints the markdown table for DESIGN.md §11.7.
A 'fire' row is written for every (patch, property) that reported a violation; 'silent' rows are written for the
behaviour-preserving rewrites and the properties listed in SILENT_FOR (the checks whose rules anchor in the rewritten code)."""
import sys, json, re, os
SILENT_FOR = {
 "S1": ["C02","C04"], "S2": ["C06","C08"], "S3": ["C09"], "S4": ["C11"], "S5": ["C15"], "S6": ["C04","C08"],
 "S7": ["C05","C08"], "S8": ["C16"], "S10": ["C11"], "S12": ["C15","C08"], "S14": ["C13"], "S15": ["C16"],
 "S16": ["C17"], "S17": ["C15"], "S19": ["C09","C08"], "S20": ["C10","C08"], "S21": ["C20","C07"],
 "S22": ["C02","C04"], "S23": ["C04"], "S25": ["C06","C08"], "S26": ["C18","C08"],
 "S27": ["C01","C02","C04"], "S28": ["C12"], "S29": ["C03"],
 "S30": ["C06","C08"], "S31": ["C13"], "S32": ["C14","C08"], "S33": ["C14","C08"], "S34": ["C05","C08","C02"],
 "S35": ["C15"], "S36": ["C20","C07"], "S37": ["C02","C04","C03"], "S38": ["C07","C05"], "S39": ["C16"],
 "S40": ["C15"], "S41": ["C04","C08","C02"], "S43": ["C11"], "S44": ["C09","C08","C10"], "S45": ["C06","C08"],
 "S46": ["C04","C02","C08"], "S47": ["C10","C09"], "S48": ["C15"], "S49": ["C18","C08"], "S50": ["C20"],
 "S51": ["C04","C02"], "S52": ["C16","C04"], "S53": ["C05","C02","C08"], "S54": ["C14","C08"],
 "S55": ["C05","C06"], "S56": ["C17","C19"], "S57": ["C11"], "S58": ["C11"], "S59": ["C14","C08"], "S60": ["C19","C08"], "S61": ["C04","C08"], "S62": ["C11"], "S63": ["C10","C09"], "S64": ["C20","C07"], "S65": ["C10","C02"],
}
fire = {}
for line in open(sys.argv[1]):
    parts = line.rstrip("\n").split("\t")
    if len(parts) < 2: continue
    name, props = parts[0], parts[1].split()
    rules = parts[2] if len(parts) > 2 else ""
    fire[name] = (props, rules)
silent = {}
for line in open(sys.argv[2]):
    parts = line.rstrip("\n").split("\t")
    name = parts[0]; props = parts[1].split() if len(parts) > 1 else []
    silent[name] = props
def path_of(name):
    if os.path.isdir(f"/verif/seeded/{name}"): return f"seeded/{name}/patch.diff"
    if os.path.exists(f"/verif/revfix/{name}.diff"): return f"revfix/{name}.diff"
    if os.path.exists(f"/verif/variants/{name}.diff"): return f"variants/{name}.diff"
    return f"variants/silent/{name}.diff"
rows = []
bad = []
for name in sorted(fire):
    props, rules = fire[name]
    for p in props:
        if "(" in p or p.startswith("PATCH") or p.startswith("DOES"):
            bad.append((name, p)); continue
        rows.append((path_of(name), p, "fire"))
for name in sorted(silent):
    key = name.split("-")[0]
    if silent[name]:
        bad.append((name, "fires: " + " ".join(silent[name])))
    for p in SILENT_FOR.get(key, []):
        rows.append((path_of(name), p, "silent"))
with open("/verif/selftest/expect.tsv", "w") as f:
    for r in rows: f.write("\t".join(r) + "\n")
print(f"{len(rows)} expectations written; anomalies: {bad}", file=sys.stderr)
# markdown
meta = {}
for d in os.listdir("/verif/seeded"):
    m = json.load(open(f"/verif/seeded/{d}/meta.json")); meta[d] = m.get("summary","")[:110].replace("|","/")
subj = {}
import subprocess
for l in subprocess.check_output(["git","-C","/repo","log","--format=%h\t%s","--grep=^fix:"]).decode().splitlines():
    h, s = l.split("\t",1); subj[h] = s[5:105].replace("|","/")
print("| change | what it does | caught by (rules) |\n|---|---|---|")
for name in sorted(fire):
    props, rules = fire[name]
    if os.path.isdir(f"/verif/seeded/{name}"): what = "seeded: " + meta.get(name,"")
    elif re.match(r"\d\d-[0-9a-f]{7}$", name): what = "revert of fix: " + subj.get(name.split("-")[1], "")
    else: what = "hand-written variant"
    caught = " ".join(props) if props else "— (not detected)"
    print(f"| {name} | {what} | {caught} {('('+rules.strip()+')') if rules.strip() else ''} |")
