package main

// E2: server-state access analysis: which accesses to server-lifetime state
// happen in concurrently running code, under which locks, from which thread class.

import (
	"fmt"
	"go/token"
	"go/types"
	"sort"
	"strings"

	"golang.org/x/tools/go/ssa"
)

type access struct {
	field   string // "app.IPRequestLimiter.ResetTime"
	write   bool
	through bool // access into the object graph hanging off the field (library object)
	fn      *ssa.Function
	instr   ssa.Instruction
	locks   map[string]string // mutex id ("app.IPRequestLimiter.mux") -> "W" | "R"
	classes []string
}

type e2 struct {
	p          *Program
	stateTypes map[string]*types.Named // "app.Server" -> type
	mutexOf    map[string][]string     // type -> mutex field ids
	accesses   []*access
	classOf    map[*ssa.Function][]string
	lockIn     map[*ssa.Function]map[ssa.Instruction]map[string]string
	entryLocks map[*ssa.Function]map[string]string
	originMemo map[ssa.Value]string
	lfBusy     map[string]bool
	sfMemo     map[ssa.Value]*sfResult
	payloadFlag bool
}

var e2shared *e2

func sharedE2(p *Program) *e2 {
	if e2shared != nil && e2shared.p == p {
		return e2shared
	}
	e := &e2{p: p, stateTypes: map[string]*types.Named{}, mutexOf: map[string][]string{}, classOf: map[*ssa.Function][]string{},
		lockIn: map[*ssa.Function]map[ssa.Instruction]map[string]string{}, entryLocks: map[*ssa.Function]map[string]string{}, originMemo: map[ssa.Value]string{}}
	e.findStateTypes()
	e.computeClasses()
	e.collect()
	e2shared = e
	return e
}

func typeID(n *types.Named) string {
	if n.Obj().Pkg() == nil {
		return n.Obj().Name()
	}
	return shortPkg(n.Obj().Pkg().Path()) + "." + n.Obj().Name()
}

func namedStructOf(t types.Type) *types.Named {
	for {
		switch u := t.(type) {
		case *types.Pointer:
			t = u.Elem()
			continue
		case *types.Named:
			if _, ok := u.Underlying().(*types.Struct); ok {
				return u
			}
			return nil
		}
		return nil
	}
}

func isMutexType(t types.Type) bool {
	s := types.TypeString(t, nil)
	return s == "sync.Mutex" || s == "sync.RWMutex" || s == "*sync.Mutex" || s == "*sync.RWMutex"
}

// findStateTypes: named struct types declared in the repository reachable by
// field/element traversal from the root objects and package-level variables.
func (e *e2) findStateTypes() {
	var queue []*types.Named
	add := func(t types.Type) {
		var walk func(t types.Type, d int)
		walk = func(t types.Type, d int) {
			if d > 6 {
				return
			}
			switch u := t.(type) {
			case *types.Pointer:
				walk(u.Elem(), d+1)
			case *types.Slice:
				walk(u.Elem(), d+1)
			case *types.Array:
				walk(u.Elem(), d+1)
			case *types.Map:
				walk(u.Elem(), d+1)
				walk(u.Key(), d+1)
			case *types.Chan:
				// objects handed over through channels are not followed
			case *types.Named:
				if _, ok := u.Underlying().(*types.Struct); ok && u.Obj().Pkg() != nil && isRepoPkgPath(u.Obj().Pkg().Path()) {
					id := typeID(u)
					if _, seen := e.stateTypes[id]; !seen {
						e.stateTypes[id] = u
						queue = append(queue, u)
					}
				}
			}
		}
		walk(t, 0)
	}
	for _, root := range [][2]string{{pkgApp, "Server"}, {pkgRecv, "Receiver"}} {
		if n := e.p.lookupType(root[0], root[1]); n != nil {
			add(n)
		}
	}
	for _, pk := range e.p.Pkgs {
		if strings.Contains(pk.PkgPath, "dashfetcher") || pk.Types == nil {
			continue
		}
		sc := pk.Types.Scope()
		for _, name := range sc.Names() {
			if v, ok := sc.Lookup(name).(*types.Var); ok {
				add(v.Type())
			}
		}
	}
	for len(queue) > 0 {
		n := queue[0]
		queue = queue[1:]
		st := n.Underlying().(*types.Struct)
		for i := 0; i < st.NumFields(); i++ {
			f := st.Field(i)
			if isMutexType(f.Type()) {
				e.mutexOf[typeID(n)] = append(e.mutexOf[typeID(n)], typeID(n)+"."+f.Name())
				continue
			}
			add(f.Type())
		}
	}
}

// computeClasses assigns thread classes: "H" (HTTP handler goroutines,
// replicated), "G:<root>" for goroutine roots.
func (e *e2) computeClasses() {
	var hroots []*ssa.Function
	for _, rt := range e.p.Roots {
		if rt.Class == "H" {
			hroots = append(hroots, rt.Fn)
		}
	}
	for fn := range reachableWithoutGo(e.p, hroots) {
		e.classOf[fn] = append(e.classOf[fn], "H")
	}
	for _, rt := range e.p.Roots {
		if rt.Class != "G" {
			continue
		}
		// lifecycle closures of main/Run are start-up, not serving-phase workers
		if strings.Contains(rt.Fn.String(), ".run$") || strings.Contains(rt.Fn.String(), ".Run$") {
			continue
		}
		name := "G:" + shortFn(rt.Fn)
		for fn := range reachableWithoutGo(e.p, []*ssa.Function{rt.Fn}) {
			e.classOf[fn] = append(e.classOf[fn], name)
		}
	}
	for fn, cl := range e.classOf {
		sort.Strings(cl)
		e.classOf[fn] = cl
	}
}

// ownerClass: goroutine classes of which exactly one instance exists per object it works on.
func ownerClass(c string) bool {
	return c == "G:(*recv.channel).run" || c == "G:(*app.cmafIngester).start"
}

func mayRunInParallel(a, b string) bool {
	if a == b && ownerClass(a) {
		return false
	}
	return true
}

// shallowCopyOfShared: al is a local variable holding a struct of a library type (mp4, mpd, ...) that was
// assigned, as a whole, the pointee of a pointer (x := *p): the copy shares every nested object with *p.
// Returns p.
func shallowCopyOfShared(e *e2, al *ssa.Alloc) ssa.Value {
	if al.Referrers() == nil {
		return nil
	}
	n := namedStructOf(al.Type())
	if n == nil || n.Obj().Pkg() == nil || isRepoPkgPath(n.Obj().Pkg().Path()) {
		return nil
	}
	if !carriesRefsType(n.Underlying()) {
		return nil
	}
	for _, ref := range *al.Referrers() {
		st, ok := ref.(*ssa.Store)
		if !ok || st.Addr != ssa.Value(al) {
			continue
		}
		if ld, ok := st.Val.(*ssa.UnOp); ok && ld.Op == token.MUL {
			if _, isAlloc := ld.X.(*ssa.Alloc); !isAlloc {
				return ld.X
			}
		}
	}
	return nil
}

func carriesRefsType(t types.Type) bool {
	st, ok := t.(*types.Struct)
	if !ok {
		return false
	}
	for i := 0; i < st.NumFields(); i++ {
		if isPointerLike(st.Field(i).Type()) {
			return true
		}
	}
	return false
}

// copiedStateStruct: addr is &v.f... for a local variable v of a state struct type that is assigned,
// as a whole, a value read directly from memory (map/slice element, field, dereference): returns that value.
func copiedStateStruct(e *e2, addr ssa.Value) ssa.Value {
	base, ap := resolveAddr(addr)
	al, ok := base.(*ssa.Alloc)
	if !ok || len(ap) == 0 || al.Referrers() == nil {
		return nil
	}
	if _, isState := e.isStateType(al.Type()); !isState {
		return nil
	}
	for _, ref := range *al.Referrers() {
		st, ok := ref.(*ssa.Store)
		if !ok || st.Addr != ssa.Value(al) {
			continue
		}
		v := st.Val
		if ex, ok := v.(*ssa.Extract); ok {
			v = ex.Tuple
		}
		switch v.(type) {
		case *ssa.Lookup, *ssa.Index, *ssa.UnOp, *ssa.Field, *ssa.Next:
			return st.Val
		}
	}
	return nil
}

// origin: "shared" if the pointer/struct value derives from server-lifetime
// state, "fresh" if allocated in this activation (or decoded by a library),
// "?" otherwise. The string after ':' names the state field it was loaded from.
func (e *e2) origin(v ssa.Value, depth int) string {
	if v == nil || depth > 40 {
		return "?"
	}
	if o, ok := e.originMemo[v]; ok {
		return o
	}
	e.originMemo[v] = "?"
	o := e.originCompute(v, depth)
	e.originMemo[v] = o
	return o
}

func (e *e2) isStateType(t types.Type) (string, bool) {
	n := namedStructOf(t)
	if n == nil {
		return "", false
	}
	id := typeID(n)
	_, ok := e.stateTypes[id]
	return id, ok
}

func (e *e2) originCompute(v ssa.Value, depth int) string {
	switch x := v.(type) {
	case *ssa.Alloc:
		if src := shallowCopyOfShared(e, x); src != nil {
			if o := e.origin(src, depth+1); strings.HasPrefix(o, "shared") {
				return o // a shallow copy of a shared library object: nested objects are the shared ones
			}
		}
		// objects built at start-up are handed to the handlers and live as long as the server
		if _, serving := e.classOf[x.Parent()]; !serving {
			return "shared:startup"
		}
		return "fresh"
	case *ssa.MakeSlice, *ssa.MakeMap, *ssa.MakeChan, *ssa.MakeClosure, *ssa.MakeInterface:
		if mi, ok := x.(*ssa.MakeInterface); ok {
			return e.origin(mi.X, depth+1)
		}
		if in, ok := v.(ssa.Instruction); ok {
			if _, serving := e.classOf[in.Parent()]; !serving {
				return "shared:startup"
			}
		}
		return "fresh"
	case *ssa.Global:
		return "shared:" + x.Name()
	case *ssa.Parameter:
		// receiver / parameter of a state type: shared unless every caller passes a fresh object
		fn := x.Parent()
		idx := -1
		for i, q := range fn.Params {
			if q == x {
				idx = i
			}
		}
		sites := e.p.callersOf(fn)
		if rt, isRoot := e.p.rootByFn[fn]; isRoot && rt.Class == "G" {
			// an object handed to a goroutine is shared between the spawner and the goroutine
			if _, ok := e.isStateType(x.Type()); ok {
				return "shared:goroutine"
			}
		}
		if len(sites) == 0 || depth > 30 {
			if _, ok := e.isStateType(x.Type()); ok {
				return "shared:param"
			}
			return "?"
		}
		res := ""
		for _, s := range sites {
			if !e.p.isRepoFunc(s.Parent()) {
				if _, ok := e.isStateType(x.Type()); ok {
					return "shared:param"
				}
				return "?"
			}
			cc := s.Common()
			args := cc.Args
			if cc.IsInvoke() {
				args = append([]ssa.Value{cc.Value}, args...)
			}
			if idx >= len(args) {
				return "?"
			}
			o := e.origin(args[idx], depth+1)
			if strings.HasPrefix(o, "shared") {
				return o
			}
			if o == "?" {
				res = "?"
			} else if res == "" {
				res = o
			}
		}
		if res == "" {
			res = "?"
		}
		if res == "?" {
			if _, ok := e.isStateType(x.Type()); ok {
				return "shared:param"
			}
		}
		return res
	case *ssa.FreeVar:
		// captured variable: find the binding
		fn := x.Parent()
		for i, fv := range fn.FreeVars {
			if fv != x || fn.Parent() == nil {
				continue
			}
			for _, b := range fn.Parent().Blocks {
				for _, in := range b.Instrs {
					if mc, ok := in.(*ssa.MakeClosure); ok && mc.Fn == fn && i < len(mc.Bindings) {
						return e.origin(mc.Bindings[i], depth+1)
					}
				}
			}
		}
		return "?"
	case *ssa.FieldAddr:
		return e.origin(x.X, depth+1)
	case *ssa.Field:
		if isRepoStruct(x.X.Type()) {
			if _, isState := e.isStateType(x.X.Type()); !isState {
				if o, ok := e.localFieldOrigin(structFieldOf(x.X.Type(), x.Field), depth); ok {
					return o
				}
			}
		}
		return e.origin(x.X, depth+1)
	case *ssa.IndexAddr:
		return e.origin(x.X, depth+1)
	case *ssa.Index:
		return e.origin(x.X, depth+1)
	case *ssa.Lookup:
		return e.origin(x.X, depth+1)
	case *ssa.Slice:
		return e.origin(x.X, depth+1)
	case *ssa.ChangeType:
		return e.origin(x.X, depth+1)
	case *ssa.TypeAssert:
		return e.origin(x.X, depth+1)
	case *ssa.Extract:
		return e.origin(x.Tuple, depth+1)
	case *ssa.Next:
		return e.origin(x.Iter, depth+1)
	case *ssa.Range:
		return e.origin(x.X, depth+1)
	case *ssa.UnOp:
		if x.Op == token.MUL {
			// load from a local variable cell (possibly captured by a closure): origin of what was stored into it
			if cell := localCell(x.X); cell != nil {
				res := "fresh"
				n := 0
				for _, ref := range *cell.Referrers() {
					if st, ok := ref.(*ssa.Store); ok && st.Addr == ssa.Value(cell) {
						n++
						o := e.origin(st.Val, depth+1)
						if strings.HasPrefix(o, "shared") {
							return o
						}
						if o == "?" {
							res = "?"
						}
					}
				}
				if n > 0 {
					return res
				}
			}
			// field of a local copy of a state-type struct (e := table[k]; e.data): the copy keeps the
			// references of the shared struct it was copied from
			if src := copiedStateStruct(e, x.X); src != nil {
				if o := e.origin(src, depth+1); strings.HasPrefix(o, "shared") {
					return o
				}
			}
			// field of a request-local repository struct (segOut, chunk, ...): field-based join over what is stored into it
			if fa, ok := x.X.(*ssa.FieldAddr); ok && isRepoStruct(fa.X.Type()) {
				if _, isState := e.isStateType(fa.X.Type()); !isState {
					if o, ok := e.localFieldOrigin(structFieldOf(fa.X.Type(), fa.Field), depth); ok {
						return o
					}
				}
			}
			// a loaded pointer/slice/map: shared if loaded from shared memory
			return e.origin(x.X, depth+1)
		}
		return "?"
	case *ssa.Phi:
		res := "fresh"
		for _, ed := range x.Edges {
			o := e.origin(ed, depth+1)
			if strings.HasPrefix(o, "shared") {
				return o
			}
			if o == "?" {
				res = "?"
			}
		}
		return res
	case *ssa.Call:
		callee := x.Call.StaticCallee()
		if callee == nil {
			return "?"
		}
		if !e.p.isRepoFunc(callee) {
			// library call: the result may alias its pointer-like arguments (a reader over a buffer,
			// a decoded object whose payload points into the input, a value loaded from a sync.Map).
			n := callee.String()
			if n == "(*sync.Pool).Get" {
				return "fresh" // exclusively owned between Get and Put
			}
			if libResultAliasesArgs(callee) {
				res := "fresh"
				for _, a := range x.Call.Args {
					if !isPointerLike(a.Type()) {
						continue
					}
					o := e.origin(a, depth+1)
					if strings.HasPrefix(o, "shared") {
						return o
					}
					if o == "?" {
						res = "?"
					}
				}
				return res
			}
			return "fresh" // library constructors return new objects
		}
		// repository function: shared if any returned value is shared
		res := "fresh"
		for _, b := range callee.Blocks {
			if ret, ok := b.Instrs[len(b.Instrs)-1].(*ssa.Return); ok {
				for _, r := range ret.Results {
					if !isPointerLike(r.Type()) {
						continue
					}
					o := e.origin(r, depth+1)
					if strings.HasPrefix(o, "shared") {
						return o
					}
					if o == "?" {
						res = "?"
					}
				}
			}
		}
		return res
	case *ssa.Const:
		return "fresh"
	}
	return "?"
}

// stateFieldOfAddr: the server-state field an address belongs to.
// direct: addr is &x.F with x of a state type. through: addr lies inside an
// object loaded from a state field (e.g. *ch.mpd ... AvailabilityStartTime).
type sfResult struct {
	field   string
	through bool
	ok      bool
	payload bool // reached through a decoder/reader: only the byte payload aliases the shared buffer, the decoded structs are fresh
}

func (e *e2) stateFieldOfAddr(addr ssa.Value, depth int) (field string, through bool, ok bool) {
	if addr == nil || depth > 60 {
		return "", false, false
	}
	if e.sfMemo == nil {
		e.sfMemo = map[ssa.Value]*sfResult{}
	}
	if r, done := e.sfMemo[addr]; done {
		if r == nil {
			return "", false, false // in progress (cycle)
		}
		if r.payload {
			e.payloadFlag = true
		}
		return r.field, r.through, r.ok
	}
	e.sfMemo[addr] = nil
	outer := e.payloadFlag
	e.payloadFlag = false
	f, t, k := e.stateFieldOfAddr1(addr, depth)
	mine := e.payloadFlag && k
	e.sfMemo[addr] = &sfResult{f, t, k, mine}
	e.payloadFlag = outer || mine
	return f, t, k
}

// payloadOnly reports whether the last resolution of addr went through a decoder.
func (e *e2) payloadOnly(addr ssa.Value) bool {
	if r := e.sfMemo[addr]; r != nil {
		return r.payload
	}
	return false
}

func isDecoderAlias(callee *ssa.Function) bool {
	n := callee.String()
	return strings.HasPrefix(n, "github.com/Eyevinn/mp4ff/bits.New") || strings.HasPrefix(n, "github.com/Eyevinn/mp4ff/mp4.Decode") || n == "bytes.NewBuffer" || n == "bytes.NewReader"
}

func (e *e2) stateFieldOfAddr1(addr ssa.Value, depth int) (field string, through bool, ok bool) {
	switch x := addr.(type) {
	case *ssa.Alloc:
		if src := shallowCopyOfShared(e, x); src != nil {
			if f, _, ok := e.stateFieldOfAddr(src, depth+1); ok {
				return f, true, true
			}
		}
	case *ssa.FieldAddr:
		if tid, isState := e.isStateType(x.X.Type()); isState {
			_ = tid
			if strings.HasPrefix(e.origin(x.X, 0), "shared") {
				return structFieldOf(x.X.Type(), x.Field), false, true
			}
			return "", false, false
		}
		f, _, ok := e.stateFieldOfAddr(x.X, depth+1)
		return f, true, ok
	case *ssa.IndexAddr:
		f, _, ok := e.stateFieldOfAddr(x.X, depth+1)
		return f, true, ok
	case *ssa.UnOp:
		if x.Op == token.MUL {
			if cell := localCell(x.X); cell != nil {
				for _, ref := range *cell.Referrers() {
					if st, ok := ref.(*ssa.Store); ok && st.Addr == ssa.Value(cell) {
						if f, _, ok := e.stateFieldOfAddr(st.Val, depth+1); ok {
							return f, true, true
						}
					}
				}
				return "", false, false
			}
			if src := copiedStateStruct(e, x.X); src != nil {
				if f, _, ok := e.stateFieldOfAddr(src, depth+1); ok {
					return f, true, true
				}
			}
			if fa, ok := x.X.(*ssa.FieldAddr); ok && isRepoStruct(fa.X.Type()) {
				if _, isState := e.isStateType(fa.X.Type()); !isState {
					if f, ok := e.localFieldState(structFieldOf(fa.X.Type(), fa.Field), depth); ok {
						return f, true, true
					}
				}
			}
			// value loaded from an address: the loaded pointer points into the graph of that field
			f, _, ok := e.stateFieldOfAddr(x.X, depth+1)
			return f, true, ok
		}
	case *ssa.Field:
		if isRepoStruct(x.X.Type()) {
			if _, isState := e.isStateType(x.X.Type()); !isState {
				if f, ok := e.localFieldState(structFieldOf(x.X.Type(), x.Field), depth); ok {
					return f, true, true
				}
			}
		}
		f, _, ok := e.stateFieldOfAddr(x.X, depth+1)
		return f, true, ok
	case *ssa.Slice:
		f, _, ok := e.stateFieldOfAddr(x.X, depth+1)
		return f, true, ok
	case *ssa.Lookup:
		f, _, ok := e.stateFieldOfAddr(x.X, depth+1)
		return f, true, ok
	case *ssa.Phi:
		for _, ed := range x.Edges {
			if f, _, ok := e.stateFieldOfAddr(ed, depth+1); ok {
				return f, true, true
			}
		}
	case *ssa.Parameter:
		// helper taking a pointer into shared state: look at the call sites
		fn := x.Parent()
		idx := -1
		for i, q := range fn.Params {
			if q == x {
				idx = i
			}
		}
		for _, s := range e.p.callersOf(fn) {
			if !e.p.isRepoFunc(s.Parent()) {
				continue
			}
			cc := s.Common()
			args := cc.Args
			if cc.IsInvoke() {
				args = append([]ssa.Value{cc.Value}, args...)
			}
			if idx < 0 || idx >= len(args) {
				continue
			}
			if f, _, ok := e.stateFieldOfAddr(args[idx], depth+2); ok {
				return f, true, true
			}
		}
	case *ssa.Extract:
		return e.stateFieldOfAddr(x.Tuple, depth+1)
	case *ssa.Next:
		return e.stateFieldOfAddr(x.Iter, depth+1)
	case *ssa.Range:
		return e.stateFieldOfAddr(x.X, depth+1)
	case *ssa.ChangeType:
		return e.stateFieldOfAddr(x.X, depth+1)
	case *ssa.TypeAssert:
		return e.stateFieldOfAddr(x.X, depth+1)
	case *ssa.MakeInterface:
		return e.stateFieldOfAddr(x.X, depth+1)
	case *ssa.Global:
		if x.Pkg != nil && isRepoPkgPath(x.Pkg.Pkg.Path()) {
			return "global:" + shortPkg(x.Pkg.Pkg.Path()) + "." + x.Name(), false, true
		}
	case *ssa.Call:
		// result of a repository getter returning shared state (GetChannel)
		callee := x.Call.StaticCallee()
		if callee != nil && !e.p.isRepoFunc(callee) && libResultAliasesArgs(callee) {
			for _, a := range x.Call.Args {
				if isPointerLike(a.Type()) {
					if f, _, ok := e.stateFieldOfAddr(a, depth+1); ok {
						if isDecoderAlias(callee) {
							e.payloadFlag = true
						}
						return f, true, true
					}
				}
			}
		}
		if callee != nil && e.p.isRepoFunc(callee) {
			for _, b := range callee.Blocks {
				if ret, ok := b.Instrs[len(b.Instrs)-1].(*ssa.Return); ok {
					for _, r := range ret.Results {
						if f, _, ok := e.stateFieldOfAddr(r, depth+2); ok {
							return f, true, true
						}
					}
				}
			}
		}
	}
	return "", false, false
}

// ---------------------------------------------------------------- locksets

func mutexIDOfCall(c ssa.CallInstruction) (id string, op string, ok bool) {
	callee := c.Common().StaticCallee()
	if callee == nil || len(c.Common().Args) == 0 {
		return "", "", false
	}
	switch callee.String() {
	case "(*sync.Mutex).Lock", "(*sync.RWMutex).Lock":
		op = "Lock"
	case "(*sync.Mutex).Unlock", "(*sync.RWMutex).Unlock":
		op = "Unlock"
	case "(*sync.RWMutex).RLock":
		op = "RLock"
	case "(*sync.RWMutex).RUnlock":
		op = "RUnlock"
	default:
		return "", "", false
	}
	fa, isFA := c.Common().Args[0].(*ssa.FieldAddr)
	if !isFA {
		return "", "", false
	}
	return structFieldOf(fa.X.Type(), fa.Field), op, true
}

// locksets computes the must-lockset before every instruction of fn.
func (e *e2) locksets(fn *ssa.Function) map[ssa.Instruction]map[string]string {
	if r, ok := e.lockIn[fn]; ok {
		return r
	}
	res := map[ssa.Instruction]map[string]string{}
	e.lockIn[fn] = res
	entry := e.entryLockset(fn, 0)
	in := map[*ssa.BasicBlock]map[string]string{}
	out := map[*ssa.BasicBlock]map[string]string{}
	copyLS := func(m map[string]string) map[string]string {
		c := map[string]string{}
		for k, v := range m {
			c[k] = v
		}
		return c
	}
	meet := func(a, b map[string]string) map[string]string {
		c := map[string]string{}
		for k, v := range a {
			if w, ok := b[k]; ok {
				if v == "W" && w == "W" {
					c[k] = "W"
				} else {
					c[k] = "R"
				}
			}
		}
		return c
	}
	changed := true
	for iter := 0; changed && iter < 50; iter++ {
		changed = false
		for _, b := range fn.Blocks {
			var cur map[string]string
			if b == fn.Blocks[0] {
				cur = copyLS(entry)
			} else {
				first := true
				for _, p := range b.Preds {
					o, ok := out[p]
					if !ok {
						continue // not yet computed: optimistic
					}
					if first {
						cur, first = copyLS(o), false
					} else {
						cur = meet(cur, o)
					}
				}
				if cur == nil {
					cur = map[string]string{}
				}
			}
			in[b] = cur
			st := copyLS(cur)
			for _, ins := range b.Instrs {
				res[ins] = copyLS(st)
				if c, ok := ins.(*ssa.Call); ok {
					if id, op, ok := mutexIDOfCall(c); ok {
						switch op {
						case "Lock":
							st[id] = "W"
						case "RLock":
							st[id] = "R"
						case "Unlock", "RUnlock":
							delete(st, id)
						}
					}
				}
				// deferred unlocks release at function exit only: no effect on the lockset
			}
			prev, had := out[b]
			if !had || len(prev) != len(st) {
				changed = true
			} else {
				for k, v := range st {
					if prev[k] != v {
						changed = true
					}
				}
			}
			out[b] = st
		}
	}
	return res
}

// entryLockset: locks held at every call site of fn (intersection).
func (e *e2) entryLockset(fn *ssa.Function, depth int) map[string]string {
	if r, ok := e.entryLocks[fn]; ok {
		return r
	}
	e.entryLocks[fn] = map[string]string{}
	if depth > 3 {
		return map[string]string{}
	}
	if _, isRoot := e.p.rootByFn[fn]; isRoot {
		return map[string]string{}
	}
	sites := e.p.callersOf(fn)
	var res map[string]string
	for _, s := range sites {
		caller := s.Parent()
		if !e.p.isRepoFunc(caller) {
			return map[string]string{}
		}
		if _, isGo := s.(*ssa.Go); isGo {
			return map[string]string{}
		}
		if _, isDefer := s.(*ssa.Defer); isDefer {
			return map[string]string{}
		}
		ls := e.locksets(caller)[s.(ssa.Instruction)]
		if res == nil {
			res = map[string]string{}
			for k, v := range ls {
				res[k] = v
			}
		} else {
			for k, v := range res {
				w, ok := ls[k]
				if !ok {
					delete(res, k)
				} else if v == "W" && w != "W" {
					res[k] = "R"
				}
			}
		}
	}
	if res == nil {
		res = map[string]string{}
	}
	e.entryLocks[fn] = res
	delete(e.lockIn, fn) // recompute with the final entry set
	return res
}

// ---------------------------------------------------------------- access collection

func (e *e2) collect() {
	var fns []*ssa.Function
	for fn := range e.classOf {
		if e.p.isRepoFunc(fn) && len(fn.Blocks) > 0 {
			fns = append(fns, fn)
		}
	}
	sort.Slice(fns, func(i, j int) bool { return fns[i].String() < fns[j].String() })
	for _, fn := range fns {
		ls := e.locksets(fn)
		add := func(in ssa.Instruction, addr ssa.Value, write bool) {
			// a load/store of a local variable's own field is not an access to shared memory,
			// even when the variable holds a (shallow) copy of a shared object
			if _, isStoreOrLoad := in.(*ssa.Store); isStoreOrLoad {
				if base, _ := resolveAddr(addr); base != nil {
					if _, isLocal := base.(*ssa.Alloc); isLocal {
						return
					}
				}
			}
			if ld, isLoad := in.(*ssa.UnOp); isLoad && ld.Op == token.MUL {
				if base, _ := resolveAddr(addr); base != nil {
					if _, isLocal := base.(*ssa.Alloc); isLocal {
						return
					}
				}
			}
			e.payloadFlag = false
			f, through, ok := e.stateFieldOfAddr(addr, 0)
			if !ok {
				return
			}
			if e.payloadOnly(addr) {
				// only writes to the payload bytes touch the shared buffer
				payloadWrite := false
				if write {
					switch x := in.(type) {
					case *ssa.Store:
						if ia, ok := x.Addr.(*ssa.IndexAddr); ok {
							if sl, ok := ia.X.Type().Underlying().(*types.Slice); ok {
								if b, ok := sl.Elem().Underlying().(*types.Basic); ok && b.Kind() == types.Uint8 {
									payloadWrite = true
								}
							}
						}
					case ssa.CallInstruction:
						if c := x.Common().StaticCallee(); c != nil && (strings.HasSuffix(c.String(), ".EncryptFragment") || strings.HasSuffix(c.String(), ".DecryptFragment") || c.Name() == "copy") {
							payloadWrite = true
						}
						if bi, ok := x.Common().Value.(*ssa.Builtin); ok && bi.Name() == "copy" {
							payloadWrite = true
						}
					}
				}
				if !payloadWrite {
					return
				}
			}
			if idx := strings.LastIndex(f, "."); idx >= 0 {
				if tid := f[:idx]; len(e.mutexOf[tid]) > 0 {
					for _, m := range e.mutexOf[tid] {
						if m == f {
							return // the mutex itself
						}
					}
				}
			}
			// a map/slice operation on the value loaded directly from the field is an access to the field itself
			if u, ok := addr.(*ssa.UnOp); ok && u.Op == token.MUL {
				if _, isFA := u.X.(*ssa.FieldAddr); isFA {
					if _, isLoad := in.(*ssa.UnOp); !isLoad {
						through = false
					}
				}
			}
			e.accesses = append(e.accesses, &access{field: f, write: write, through: through, fn: fn, instr: in, locks: ls[in], classes: e.classOf[fn]})
		}
		for _, b := range fn.Blocks {
			for _, in := range b.Instrs {
				switch x := in.(type) {
				case *ssa.Store:
					add(in, x.Addr, true)
				case *ssa.MapUpdate:
					add(in, x.Map, true)
				case *ssa.UnOp:
					if x.Op == token.MUL {
						add(in, x.X, false)
					}
				case *ssa.Lookup:
					add(in, x.X, false)
				case *ssa.Range:
					add(in, x.X, false)
				case ssa.CallInstruction:
					cc := x.Common()
					if bi, ok := cc.Value.(*ssa.Builtin); ok {
						switch bi.Name() {
						case "delete":
							add(in, cc.Args[0], true)
						case "copy":
							add(in, cc.Args[0], true)
						case "len", "cap":
							add(in, cc.Args[0], false)
						}
						continue
					}
					// library calls that write through a pointer into shared state
					callees := e.p.calleesAt(x)
					for ai, a := range cc.Args {
						if !isPointerLike(a.Type()) {
							continue
						}
						writes := false
						for _, callee := range callees {
							if e.p.isRepoFunc(callee) {
								continue // analysed on its own
							}
							if knownMutator(callee, ai) {
								writes = true
							}
						}
						if writes {
							add(in, a, true)
						}
					}
				}
			}
		}
	}
}

// libResultAliasesArgs: library functions whose result keeps pointing into an argument.
func libResultAliasesArgs(callee *ssa.Function) bool {
	n := callee.String()
	switch {
	case strings.HasPrefix(n, "github.com/Eyevinn/mp4ff/bits.New"),
		strings.HasPrefix(n, "github.com/Eyevinn/mp4ff/mp4.Decode"),
		n == "bytes.NewBuffer", n == "bytes.NewReader",
		n == "(*sync.Map).Load", n == "(*sync.Map).LoadOrStore", n == "(*sync.Map).Swap",
		n == "(*bytes.Buffer).Bytes":
		return true
	}
	return false
}

// knownMutator: library functions that modify the object passed at arg index.
func knownMutator(callee *ssa.Function, argIdx int) bool {
	n := callee.String()
	switch {
	case strings.HasPrefix(n, "sort."):
		return argIdx == 0
	case n == "encoding/json.Unmarshal", n == "(*encoding/json.Decoder).Decode":
		return argIdx == 1
	case n == "github.com/Eyevinn/mp4ff/mp4.EncryptFragment", n == "github.com/Eyevinn/mp4ff/mp4.DecryptFragment":
		return argIdx == 0 // encrypts the sample data in place
	case n == "(*bytes.Buffer).Reset", n == "(*bytes.Buffer).Write", n == "(*bytes.Buffer).WriteString", n == "(*bytes.Buffer).Truncate":
		return argIdx == 0
	case strings.HasPrefix(n, "(encoding/binary.bigEndian).Put"), strings.HasPrefix(n, "(encoding/binary.littleEndian).Put"):
		return argIdx == 1 // receiver is arg 0, the destination slice arg 1
	case n == "github.com/Eyevinn/mp4ff/mp4.InitProtect":
		return argIdx == 0 // rewrites the sample entries of the init segment in place
	case strings.HasPrefix(n, "(*github.com/Eyevinn/dash-mpd/mpd.") && argIdx == 0:
		m := callee.Name()
		return strings.HasPrefix(m, "Append") || strings.HasPrefix(m, "Set") || strings.HasPrefix(m, "Add")
	case strings.HasPrefix(n, "(*github.com/Eyevinn/mp4ff/mp4.") && argIdx == 0:
		m := callee.Name()
		return strings.HasPrefix(m, "Add") || strings.HasPrefix(m, "Set") || strings.HasPrefix(m, "Encrypt")
	}
	return false
}

func (a *access) holds(mutexes []string, needWrite bool) bool {
	for _, m := range mutexes {
		if mode, ok := a.locks[m]; ok {
			if !needWrite || mode == "W" {
				return true
			}
		}
	}
	return false
}

func (a *access) kind() string {
	k := "read"
	if a.write {
		k = "write"
	}
	if a.through {
		k += "-through"
	}
	return k
}

// ruleRace: for every state field with a serving-phase write, each access that may run
// in parallel with a write must hold the owning type's mutex (exclusively for writes).
func (e *e2) ruleRace(r *Reporter, rule string, typeFilter func(tid string) bool) {
	byField := map[string][]*access{}
	for _, a := range e.accesses {
		byField[a.field] = append(byField[a.field], a)
	}
	var fields []string
	for f := range byField {
		fields = append(fields, f)
	}
	sort.Strings(fields)
	for _, f := range fields {
		tid := f[:strings.LastIndex(f, ".")]
		if strings.HasPrefix(f, "global:") {
			tid = f
		}
		if typeFilter != nil && !typeFilter(tid) {
			continue
		}
		accs := byField[f]
		var writes []*access
		for _, a := range accs {
			if a.write {
				writes = append(writes, a)
			}
		}
		if len(writes) == 0 {
			continue // read-only while serving
		}
		if isAtomicField(e, f) {
			continue
		}
		mutexes := e.mutexOf[tid]
		seen := map[string]bool{}
		for _, a := range accs {
			// is there a write that may run in parallel with this access?
			var rival *access
			for _, w := range writes {
				if w == a && !selfParallel(a) {
					continue
				}
				par := false
				for _, ca := range a.classes {
					for _, cw := range w.classes {
						if mayRunInParallel(ca, cw) {
							par = true
						}
					}
				}
				if par {
					rival = w
					break
				}
			}
			if rival == nil {
				continue
			}
			construct := a.kind() + ":" + f
			if seen[shortFn(a.fn)+construct] {
				continue
			}
			seen[shortFn(a.fn)+construct] = true
			pos := e.p.pos(instrPos(a.instr))
			ok := len(mutexes) > 0 && a.holds(mutexes, a.write) && rival.holds(mutexes, true)
			if ok {
				r.Discharge(rule, shortFn(a.fn), construct, pos, fmt.Sprintf("holds %s; concurrent writer %s holds it exclusively", strings.Join(mutexes, ","), shortFn(rival.fn)))
				continue
			}
			why := ""
			switch {
			case len(mutexes) == 0:
				why = "the type has no mutex"
			case !a.holds(mutexes, a.write):
				why = "this access does not hold " + strings.Join(mutexes, ",")
				if a.write {
					why += " exclusively"
				}
			default:
				why = "the concurrent writer does not hold " + strings.Join(mutexes, ",")
			}
			r.Violate(rule, shortFn(a.fn), construct, pos,
				fmt.Sprintf("%s of server-lifetime state %s [%s] may run in parallel with the write in %s at %s [%s]: %s",
					a.kind(), f, strings.Join(a.classes, ","), shortFn(rival.fn), e.p.pos(instrPos(rival.instr)), strings.Join(rival.classes, ","), why),
				e.p.callPath(a.fn))
		}
	}
}

func selfParallel(a *access) bool {
	for _, c := range a.classes {
		if !ownerClass(c) {
			return true
		}
	}
	return false
}

func isAtomicField(e *e2, f string) bool {
	idx := strings.LastIndex(f, ".")
	n := e.stateTypes[f[:idx]]
	if n == nil {
		return false
	}
	st := n.Underlying().(*types.Struct)
	for i := 0; i < st.NumFields(); i++ {
		if st.Field(i).Name() == f[idx+1:] {
			ts := types.TypeString(st.Field(i).Type(), nil)
			return strings.HasPrefix(ts, "sync/atomic.") || strings.HasPrefix(ts, "log/slog.LevelVar") || strings.HasPrefix(ts, "*log/slog.LevelVar")
		}
	}
	return false
}

// ruleLockPairing: every Lock/RLock is released on every exit (explicitly or by a defer).
func (e *e2) ruleLockPairing(r *Reporter, rule string, fns []*ssa.Function) {
	for _, fn := range fns {
		deferred := map[string]bool{}
		hasLock := false
		for _, b := range fn.Blocks {
			for _, in := range b.Instrs {
				if d, ok := in.(*ssa.Defer); ok {
					if id, op, ok := mutexIDOfCall(d); ok && (op == "Unlock" || op == "RUnlock") {
						deferred[id] = true
					}
				}
				if c, ok := in.(*ssa.Call); ok {
					if _, op, ok := mutexIDOfCall(c); ok && (op == "Lock" || op == "RLock") {
						hasLock = true
					}
				}
			}
		}
		if !hasLock {
			continue
		}
		ls := e.locksets(fn)
		entry := e.entryLockset(fn, 0)
		okAll := true
		var where string
		for _, b := range fn.Blocks {
			last := b.Instrs[len(b.Instrs)-1]
			switch last.(type) {
			case *ssa.Return, *ssa.Panic:
				// lockset before the terminator, minus deferred unlocks and locks held on entry
				for id := range ls[last] {
					if !deferred[id] && entry[id] == "" {
						okAll = false
						where = e.p.pos(instrPos(last)) + " still holds " + id
					}
				}
			}
		}
		r.Decide(okAll, rule, shortFn(fn), "lock-pairing", e.p.pos(fn.Pos()), "every acquired lock is released on all exits", "a lock is not released on the exit at "+where, nil)
	}
}

// localCell: v is the Alloc of a local variable, or a free variable bound to one.
func localCell(v ssa.Value) *ssa.Alloc {
	switch x := v.(type) {
	case *ssa.Alloc:
		if x.Referrers() != nil {
			return x
		}
	case *ssa.FreeVar:
		fn := x.Parent()
		for i, fv := range fn.FreeVars {
			if fv != x || fn.Parent() == nil {
				continue
			}
			for _, b := range fn.Parent().Blocks {
				for _, in := range b.Instrs {
					if mc, ok := in.(*ssa.MakeClosure); ok && mc.Fn == fn && i < len(mc.Bindings) {
						return localCell(mc.Bindings[i])
					}
				}
			}
		}
	}
	return nil
}

// localFieldOrigin: origin of the values stored into a field of a request-local
// repository struct anywhere in serving-phase code (field-based).
func (e *e2) localFieldOrigin(field string, depth int) (string, bool) {
	if depth > 30 {
		return "", false
	}
	if e.lfBusy == nil {
		e.lfBusy = map[string]bool{}
	}
	if e.lfBusy[field] {
		return "", false
	}
	e.lfBusy[field] = true
	defer delete(e.lfBusy, field)
	res := "fresh"
	n := 0
	for _, st := range fieldStores(e.p, field) {
		if _, serving := e.classOf[st.Parent()]; !serving {
			continue
		}
		if !isPointerLike(st.Val.Type()) {
			continue
		}
		n++
		o := e.origin(st.Val, depth+2)
		if strings.HasPrefix(o, "shared") {
			return o, true
		}
		if o == "?" {
			res = "?"
		}
	}
	if n == 0 {
		return "", false
	}
	return res, true
}

// localFieldState: the server-state field that values stored into a request-local struct field point into.
func (e *e2) localFieldState(field string, depth int) (string, bool) {
	if depth > 50 {
		return "", false
	}
	if e.lfBusy == nil {
		e.lfBusy = map[string]bool{}
	}
	k := "S:" + field
	if e.lfBusy[k] {
		return "", false
	}
	e.lfBusy[k] = true
	defer delete(e.lfBusy, k)
	for _, st := range fieldStores(e.p, field) {
		if _, serving := e.classOf[st.Parent()]; !serving {
			continue
		}
		if !isPointerLike(st.Val.Type()) {
			continue
		}
		if f, _, ok := e.stateFieldOfAddr(st.Val, depth+2); ok {
			return f, true
		}
	}
	return "", false
}
