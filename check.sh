#!/bin/bash
# usage: check.sh <property-id> <quick|thorough>
# Decides the property by static analysis of /repo's current working tree.
#   quick:    the property's rules on the VTA call graph.
#   thorough: the same rules on VTA and on CHA reachability (differences reported, violations under either count),
#             followed by the both-ways self-test of this check (selftest/expect.tsv: seeded changes, reverted
#             fixes and hand-written variants that must fire, behaviour-preserving rewrites that must not).
set -u
ID="${1:?property id}"; TIER="${2:-quick}"
cd /verif || exit 2
export GOFLAGS=-mod=mod GOPROXY=off GOSUMDB=off GOTOOLCHAIN=local CGO_ENABLED=0
unset GOWORK
REPO="${VERIF_REPO:-/repo}"
./build.sh >/dev/null || { echo "CHECK-BROKEN property=$ID reason=analyzer build failed"; exit 2; }
./bin/lsverif -repo "$REPO" -prop "$ID" -tier "$TIER" -out "${VERIF_OUT:-/verif/evidence}" -known /verif/known_findings.json
code=$?
if [ "$TIER" = thorough ] && [ $code -ne 2 ]; then
  ./selftest/selftest.sh "$ID"; st=$?
  [ $st -ne 0 ] && code=2
fi
exit $code
