// Reproduction (run with -race): EndTime() reads ResetTime while Inc() writes it.
// go test -race -vet=off -run TestProbeC20 ./cmd/livesim2/app
package app

import (
	"sync"
	"testing"
	"time"
)

func TestProbeC20EndTimeRace(t *testing.T) {
	start := time.Now()
	l, err := NewIPRequestLimiter(5, time.Millisecond, start, "", "")
	if err != nil {
		t.Fatal(err)
	}
	var wg sync.WaitGroup
	wg.Add(2)
	go func() {
		defer wg.Done()
		for i := 0; i < 2000; i++ {
			l.Inc(start.Add(time.Duration(i)*2*time.Millisecond), "1.2.3.4")
		}
	}()
	go func() {
		defer wg.Done()
		for i := 0; i < 2000; i++ {
			_ = l.EndTime()
		}
	}()
	wg.Wait()
}
