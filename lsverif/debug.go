package main

import (
	"fmt"
	"os"
	"strings"
)

// debugDump prints the SSA of functions whose full name contains arg.
func debugDump(p *Program, arg string) int {
	n := 0
	for _, fn := range p.allRepoFuncs() {
		if strings.Contains(fn.String(), arg) {
			fn.WriteTo(os.Stdout)
			n++
		}
	}
	fmt.Printf("%d functions\n", n)
	return 0
}
