package main

import (
	"fmt"
	"go/token"
	"strings"

	"golang.org/x/tools/go/ssa"
)

func init() { register("C19", checkC19) }

func checkC19(p *Program, r *Reporter) {
	r.Explanation = "Static lock-discipline analysis (E2) of the ingest receiver: (a) RACE: every access to a field of Receiver, ChannelMgr, channel or trData (and to the object graph hanging off such a field, e.g. the channel's MPD) " +
		"that some concurrently running code writes while serving must hold the owning type's mutex on every path (must-lockset dataflow; thread classes: replicated HTTP handlers, one channel goroutine per channel object); " +
		"(b) GET-OR-CREATE: inserting an object into a shared map under a request-chosen key happens in the same critical section as the existence test for that key, whose found-branch leaves without inserting; " +
		"(c) LOCK-PAIRING. Fields touched by the channel goroutine only are exclusive to their owner. Decides these necessary conditions for all interleavings; does not decide equivalence of the stored result to a sequential order."
	r.NotCovered = "equivalence of final files/MPD to some sequential order; attribution of uploads to tracks; lost uploads"
	r.Assumptions = []string{"one channel.run goroutine per channel object (spawned by the constructor)", "objects handed over through channels are not followed", "origin analysis: objects loaded from server-lifetime fields are shared"}
	e := sharedE2(p)
	recvTypes := map[string]bool{}
	for tid := range e.stateTypes {
		if strings.HasPrefix(tid, "recv.") {
			recvTypes[tid] = true
		}
	}
	if len(recvTypes) < 5 {
		r.Broken("only %d receiver state types found (floor 5)", len(recvTypes))
	}
	r.Extra["state_types"] = sortedKeys(recvTypes)
	r.Rule("E2-RACE", "access to receiver state that is written while serving: owning mutex held; owner-goroutine-only fields exempt", 15)
	e.ruleRace(r, "E2-RACE", func(tid string) bool { return recvTypes[tid] })
	r.Rule("E2-GETORCREATE", "insert into the channel table / stream table: existence test and insert in one critical section", 2)
	e.ruleGetOrCreate(r, "E2-GETORCREATE", func(tid string) bool { return recvTypes[tid] })
	var fns []*ssa.Function
	for _, fn := range pkgFuncs(p, pkgRecv) {
		fns = append(fns, fn)
	}
	r.Rule("E2-LOCKPAIR", "every Lock/RLock is released on every exit", 4)
	e.ruleLockPairing(r, "E2-LOCKPAIR", fns)
	// files are the other shared resource of concurrent uploads: a per-segment file belongs to one track
	trackPathRule(p, r)
	noDropRule(p, r, fns, "recv.channel.recSegCh")
	tableValueRule(p, r, fns)
}

func sortedKeys(m map[string]bool) []string {
	var out []string
	for k := range m {
		out = append(out, k)
	}
	sortStrings(out)
	return out
}

func sortStrings(s []string) {
	for i := 1; i < len(s); i++ {
		for j := i; j > 0 && s[j] < s[j-1]; j-- {
			s[j], s[j-1] = s[j-1], s[j]
		}
	}
}

// ruleGetOrCreate: every MapUpdate into a shared map field of a mutex-carrying
// state type, executed by replicated code, must be dominated by a comma-ok lookup of the
// same map with the same key whose "found" side does not reach the update, with
// the mutex held exclusively from the lookup to the update.
func (e *e2) ruleGetOrCreate(r *Reporter, rule string, typeFilter func(string) bool) {
	for _, a := range e.accesses {
		mu, ok := a.instr.(*ssa.MapUpdate)
		if !ok || a.through {
			continue
		}
		tid := a.field[:strings.LastIndex(a.field, ".")]
		if !typeFilter(tid) {
			continue
		}
		if !getOrCreateMaps[a.field] {
			continue // plain registries where a later insert legitimately replaces the earlier one
		}
		if !selfParallel(a) {
			continue // only the owner goroutine inserts
		}
		construct := "insert:" + a.field
		pos := e.p.pos(instrPos(mu))
		mutexes := e.mutexOf[tid]
		if len(mutexes) == 0 || !a.holds(mutexes, true) {
			r.Violate(rule, shortFn(a.fn), construct, pos, "insert into the shared map "+a.field+" without holding the owning mutex exclusively", e.p.callPath(a.fn))
			continue
		}
		// find a dominating comma-ok lookup of the same map and key
		f := factsOf(a.fn)
		found := false
		why := ""
		for _, b := range a.fn.Blocks {
			for _, in := range b.Instrs {
				lk, ok := in.(*ssa.Lookup)
				if !ok || !lk.CommaOk {
					continue
				}
				if fld, ok := loadedField(lk.X); !ok || fld != a.field {
					continue
				}
				if !sameKeyExpr(lk.Index, mu.Key) {
					continue
				}
				if !instrDominates(lk, mu) {
					continue
				}
				// the ok flag is tested and the update lies on the not-found side
				for _, c := range f.dominatingConds(mu.Block()) {
					ex, isEx := c.V.(*ssa.Extract)
					if isEx && ex.Tuple == ssa.Value(lk) && ex.Index == 1 && !c.Pos {
						found = true
					}
					if un, isUn := c.V.(*ssa.UnOp); isUn && un.Op == token.NOT {
						if ex, isEx := un.X.(*ssa.Extract); isEx && ex.Tuple == ssa.Value(lk) && ex.Index == 1 && c.Pos {
							found = true
						}
					}
				}
				if !found {
					why = "the lookup at " + e.p.pos(lk.Pos()) + " does not guard the insert (the found-branch reaches it)"
					continue
				}
				// the mutex is held at the lookup as well and not released in between: same critical section
				ls := e.locksets(a.fn)
				held := false
				for _, m := range mutexes {
					if ls[lk][m] == "W" {
						held = true
					}
				}
				if !held || e.unlockBetween(a.fn, lk, mu, mutexes) {
					found = false
					why = "existence test at " + e.p.pos(lk.Pos()) + " and insert are not in one critical section"
				}
			}
		}
		r.Decide(found, rule, shortFn(a.fn), construct, pos, "existence test and insert under one exclusive critical section",
			fmt.Sprintf("check-then-insert into %s is not atomic: %s", a.field, orStr(why, "no comma-ok lookup of the same key dominates the insert")), e.p.callPath(a.fn))
	}
}

// getOrCreateMaps: shared maps whose entries must be created exactly once per key
// (confirmed by reading): a channel object owns a goroutine and the track tables;
// the stream table gates the one-time set-up of a track.
var getOrCreateMaps = map[string]bool{
	"recv.ChannelMgr.channels": true,
	"recv.Receiver.streams":    true,
}

// sameKeyExpr: the two key expressions denote the same value: identical SSA
// value / access path, or calls of the same repository function on the same arguments.
func sameKeyExpr(a, b ssa.Value) bool {
	if sameValue(a, b) {
		return true
	}
	ca, ok1 := a.(*ssa.Call)
	cb, ok2 := b.(*ssa.Call)
	if !ok1 || !ok2 {
		return false
	}
	fa, fb := ca.Call.StaticCallee(), cb.Call.StaticCallee()
	if fa == nil || fa != fb || len(ca.Call.Args) != len(cb.Call.Args) {
		return false
	}
	for i := range ca.Call.Args {
		if !sameValue(ca.Call.Args[i], cb.Call.Args[i]) {
			return false
		}
	}
	return true
}

func orStr(a, b string) string {
	if a != "" {
		return a
	}
	return b
}

// unlockBetween: an Unlock of the mutex can execute after `from` and before `to`.
func (e *e2) unlockBetween(fn *ssa.Function, from, to ssa.Instruction, mutexes []string) bool {
	f := factsOf(fn)
	for _, b := range fn.Blocks {
		for i, in := range b.Instrs {
			c, ok := in.(*ssa.Call)
			if !ok {
				continue
			}
			id, op, ok := mutexIDOfCall(c)
			if !ok || (op != "Unlock" && op != "RUnlock") {
				continue
			}
			match := false
			for _, m := range mutexes {
				if m == id {
					match = true
				}
			}
			if !match {
				continue
			}
			after := (b == from.Block() && i > instrIndex(from)) || (b != from.Block() && f.blockReaches(from.Block(), b))
			before := (b == to.Block() && i < instrIndex(to)) || (b != to.Block() && f.blockReaches(b, to.Block()))
			if after && before {
				return true
			}
		}
	}
	return false
}
