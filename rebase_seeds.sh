#!/bin/bash
# Rebases every /verif/seeded/*/patch.diff onto /repo's current HEAD (3-way apply in a scratch worktree),
# rewriting the patch when it applied only with 3-way merging. Reports seeds that conflict.
set -u
WT=$(mktemp -d /tmp/seedwt.XXXXXX)
git -C /repo worktree add -q --detach "$WT" HEAD || exit 1
for d in /verif/seeded/*/; do
  p="$d/patch.diff"
  if git -C "$WT" apply --check "$p" 2>/dev/null; then continue; fi
  if git -C "$WT" apply --3way "$p" >/dev/null 2>&1 && ! git -C "$WT" diff --name-only --diff-filter=U | grep -q .; then
    git -C "$WT" diff HEAD > "$p.new" && mv "$p.new" "$p" && echo "rebased $(basename $d)"
  else
    echo "CONFLICT $(basename $d)"
  fi
  git -C "$WT" reset -q --hard HEAD; git -C "$WT" clean -fdq
done
git -C /repo worktree remove --force "$WT"
