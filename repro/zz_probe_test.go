// Reproduction of the request-triggered faults found by the static checks
// (package app of cmd/livesim2). Copy into cmd/livesim2/app of a scratch tree:
//   go test -vet=off -run TestProbe ./cmd/livesim2/app
// Each case calls the real handler directly (no Recoverer middleware) and
// fails if the handler panics.
package app

import (
	"context"
	"fmt"
	"net/http"
	"net/http/httptest"
	"runtime/debug"
	"strings"
	"testing"
	"time"

	"github.com/Dash-Industry-Forum/livesim2/pkg/logging"
)

type probeCase struct {
	name    string
	method  string
	url     string
	body    string
	handler string // livesim | urlgen | laurl | patch
	want    int    // expected status (0 = any non-panic)
}

func TestProbe(t *testing.T) {
	cfg := ServerConfig{VodRoot: "testdata/assets", TimeoutS: 0, LogFormat: logging.LogDiscard}
	if err := logging.InitSlog(cfg.LogLevel, cfg.LogFormat); err != nil {
		t.Fatal(err)
	}
	s, err := SetupServer(context.Background(), &cfg)
	if err != nil {
		t.Fatal(err)
	}
	cases := []probeCase{
		{"d01 stoprel non-number", "GET", "/livesim2/stoprel_abc/testpic_2s/Manifest.mpd?nowMS=100000", "", "livesim", 400},
		{"d02 annexI without =", "GET", "/livesim2/annexI_a/testpic_2s/Manifest.mpd?nowMS=100000", "", "livesim", 400},
		{"d03 empty traffic pattern", "GET", "/livesim2/traffic_u10,/testpic_2s/bu1/V300/10.m4s?nowMS=100000", "", "livesim", 0},
		{"d04 BaseURL index out of range", "GET", "/livesim2/traffic_u10/testpic_2s/bu7/V300/10.m4s?nowMS=100000", "", "livesim", 404},
		{"d05a periods_0", "GET", "/livesim2/periods_0/testpic_2s/Manifest.mpd?nowMS=100000", "", "livesim", 0},
		{"d05b periods_7200", "GET", "/livesim2/periods_7200/testpic_2s/Manifest.mpd?nowMS=100000", "", "livesim", 0},
		{"d05c periods_-3", "GET", "/livesim2/periods_-3/testpic_2s/Manifest.mpd?nowMS=100000", "", "livesim", 0},
		{"d06 chunkdur+ato = segdur", "GET", "/livesim2/chunkdur_0.5/ato_2/testpic_2s/V300/49.m4s?nowMS=100000", "", "livesim", 0},
		{"d07a timesubsdur_0", "GET", "/livesim2/timesubsstpp_en/timesubsdur_0/testpic_2s/timestpp-en/10.m4s?nowMS=30000", "", "livesim", 0},
		{"d07b timesubsdur_-5", "GET", "/livesim2/timesubsstpp_en/timesubsdur_-5/testpic_2s/timestpp-en/10.m4s?nowMS=30000", "", "livesim", 0},
		{"d08a audio below snr", "GET", "/livesim2/snr_5/testpic_2s/A48/2.m4s?nowMS=100000", "", "livesim", 404},
		{"d08b timesubs below snr", "GET", "/livesim2/timesubsstpp_en/snr_5/testpic_2s/timestpp-en/2.m4s?nowMS=100000", "", "livesim", 404},
		{"d08c statuscode below snr", "GET", "/livesim2/snr_1/statuscode_[{cycle:30,rsq:0,code:404}]/testpic_2s/V300/5.m4s?nowMS=20000", "", "livesim", 0},
		{"d09 drm on text rep", "GET", "/livesim2/eccp_cbcs/testpic_2s/imsc1_txt_sv/45.m4s?nowMS=100000", "", "livesim", 0},
		{"d10 drm without config", "GET", "/livesim2/drm_x/testpic_2s/V300/init.mp4?nowMS=100000", "", "livesim", 0},
		{"d11 licence foreign kid", "POST", "/livesim2/eccp_cbcs/testpic_2s/eccp.json", `{"kids":["nrQFDeRLSAKTLifXUIPiZg"],"type":"temporary"}`, "laurl", 0},
		{"d12a urlgen tsbd", "GET", "/urlgen/create?asset=testpic_2s&mpd=Manifest.mpd&tsbd=abc", "", "urlgen", 0},
		{"d12b urlgen ltgt", "GET", "/urlgen/create?asset=testpic_2s&mpd=Manifest.mpd&ltgt=abc", "", "urlgen", 0},
		{"d12c urlgen patch-ttl", "GET", "/urlgen/create?asset=testpic_2s&mpd=Manifest.mpd&patch-ttl=abc", "", "urlgen", 0},
		{"d13 urlgen drms without drm config", "GET", "/urlgen/drms?asset=testpic_2s", "", "urlgen", 0},
		{"d14 patch of chunked segment url", "GET", "/patch/livesim2/patch_60/chunkdur_1/ato_1/testpic_2s/V300/49.m4s?publishTime=1970-01-01T00:01:40Z&nowMS=120000", "", "patch", 0},
		{"d23 stoprel as content part", "GET", "/livesim2/startrel_-20/testpic_2s/stoprel_5/Manifest.mpd?nowMS=100000", "", "livesim", 0},
	}
	for _, c := range cases {
		t.Run(c.name, func(t *testing.T) {
			var h http.HandlerFunc
			switch c.handler {
			case "livesim":
				h = s.livesimHandlerFunc
			case "urlgen":
				h = s.urlGenHandlerFunc
			case "laurl":
				h = s.laURLHandlerFunc
			case "patch":
				h = s.patchHandlerFunc
			}
			var body *strings.Reader
			if c.body != "" {
				body = strings.NewReader(c.body)
			}
			var req *http.Request
			if body != nil {
				req = httptest.NewRequest(c.method, c.url, body)
			} else {
				req = httptest.NewRequest(c.method, c.url, nil)
			}
			w := httptest.NewRecorder()
			done := make(chan string, 1)
			go func() {
				defer func() {
					if e := recover(); e != nil {
						st := string(debug.Stack())
						// keep the frames of the repository only
						var keep []string
						for _, l := range strings.Split(st, "\n") {
							if strings.Contains(l, "livesim2/") && strings.Contains(l, ".go:") {
								keep = append(keep, strings.TrimSpace(l))
							}
						}
						if len(keep) > 3 {
							keep = keep[:3]
						}
						done <- fmt.Sprintf("PANIC %v at %s", e, strings.Join(keep, " <- "))
						return
					}
					done <- ""
				}()
				h(w, req)
			}()
			select {
			case msg := <-done:
				if msg != "" {
					t.Fatalf("%s %s: %s", c.method, c.url, msg)
				}
			case <-time.After(15 * time.Second):
				t.Fatalf("%s %s: handler did not return within 15s", c.method, c.url)
			}
			if c.want != 0 && w.Code != c.want {
				t.Errorf("%s %s: status %d, want %d (body %q)", c.method, c.url, w.Code, c.want, strings.TrimSpace(w.Body.String()))
			}
			t.Logf("status %d body %.80q", w.Code, strings.TrimSpace(w.Body.String()))
		})
	}
}
