// Reproduction (run with -race): concurrent ingest API calls race on the ingester manager's tables
// and on the session's state/report. go test -race -vet=off -run TestProbeC07 ./cmd/livesim2/app
package app

import (
	"context"
	"fmt"
	"net/http"
	"net/http/httptest"
	"strings"
	"sync"
	"testing"

	"github.com/Dash-Industry-Forum/livesim2/pkg/logging"
)

func TestProbeC07IngestAPIConcurrent(t *testing.T) {
	cfg := ServerConfig{VodRoot: "testdata/assets", TimeoutS: 0, LogFormat: logging.LogDiscard}
	_ = logging.InitSlog(cfg.LogLevel, cfg.LogFormat)
	s, err := SetupServer(context.Background(), &cfg)
	if err != nil {
		t.Fatal(err)
	}
	recv := httptest.NewServer(http.HandlerFunc(func(w http.ResponseWriter, r *http.Request) { w.WriteHeader(200) }))
	defer recv.Close()
	ts := httptest.NewServer(s.Router)
	defer ts.Close()
	body := func() *strings.Reader {
		return strings.NewReader(fmt.Sprintf(`{"destRoot":%q,"destName":"x","livesimURL":"/livesim2/testpic_2s/Manifest.mpd","testNowMS":100000}`, recv.URL))
	}
	var wg sync.WaitGroup
	for i := 0; i < 6; i++ {
		wg.Add(3)
		go func() {
			defer wg.Done()
			resp, err := http.Post(ts.URL+"/api/cmaf-ingests", "application/json", body())
			if err == nil {
				resp.Body.Close()
			}
		}()
		go func(i int) {
			defer wg.Done()
			resp, err := http.Get(fmt.Sprintf("%s/api/cmaf-ingests/%d", ts.URL, i+1))
			if err == nil {
				resp.Body.Close()
			}
		}(i)
		go func(i int) {
			defer wg.Done()
			req, _ := http.NewRequest(http.MethodDelete, fmt.Sprintf("%s/api/cmaf-ingests/%d", ts.URL, i+1), nil)
			resp, err := http.DefaultClient.Do(req)
			if err == nil {
				resp.Body.Close()
			}
		}(i)
	}
	wg.Wait()
}
