// Reproduction of the upload-triggered faults in the CMAF-ingest receiver
// (package app of cmd/cmaf-ingest-receiver). Copy into that directory of a
// scratch tree:  go test -vet=off -run TestProbeRecv ./cmd/cmaf-ingest-receiver/app
// The faults happen in the channel goroutine, outside any recoverer, and kill
// the process; each scenario therefore runs in a child process.
package app

import (
	"bytes"
	"context"
	"fmt"
	"net/http"
	"net/http/httptest"
	"os"
	"os/exec"
	"path/filepath"
	"strings"
	"testing"
	"time"

	"github.com/Dash-Industry-Forum/livesim2/pkg/logging"
	"github.com/Eyevinn/mp4ff/mp4"
)

func probePut(url string, data []byte) (int, error) {
	req, err := http.NewRequest(http.MethodPut, url, bytes.NewReader(data))
	if err != nil {
		return 0, err
	}
	resp, err := http.DefaultClient.Do(req)
	if err != nil {
		return 0, err
	}
	resp.Body.Close()
	return resp.StatusCode, nil
}

func reencode(t *testing.T, path string, mod func(f *mp4.File)) []byte {
	data, err := os.ReadFile(path)
	if err != nil {
		t.Fatal(err)
	}
	f, err := mp4.DecodeFile(bytes.NewReader(data))
	if err != nil {
		t.Fatal(err)
	}
	mod(f)
	var buf bytes.Buffer
	if err := f.Encode(&buf); err != nil {
		t.Fatal(err)
	}
	return buf.Bytes()
}

func zeroDurations(f *mp4.File) {
	if f.Init != nil && f.Init.Moov.Mvex != nil && f.Init.Moov.Mvex.Trex != nil {
		f.Init.Moov.Mvex.Trex.DefaultSampleDuration = 0
	}
	for _, seg := range f.Segments {
		for _, fr := range seg.Fragments {
			tr := fr.Moof.Traf
			tr.Tfhd.DefaultSampleDuration = 0
			for i := range tr.Trun.Samples {
				tr.Trun.Samples[i].Dur = 0
			}
		}
	}
}

func runRecvScenario(t *testing.T, scenario string) {
	_ = logging.InitSlog("error", "text")
	tmpDir, err := os.MkdirTemp("", "recv-probe")
	if err != nil {
		t.Fatal(err)
	}
	defer os.RemoveAll(tmpDir)
	opts := Options{prefix: "/upload", timeShiftBufferDepthS: 30, storage: tmpDir}
	ctx, cancel := context.WithCancel(context.Background())
	defer cancel()
	receiver, err := NewReceiver(ctx, &opts, &Config{Channels: []ChannelConfig{{Name: "ch"}}})
	if err != nil {
		t.Fatal(err)
	}
	server := httptest.NewServer(setupRouter(receiver, opts.storage, ""))
	defer server.Close()
	src := filepath.Join("testdata", "zero_3.84s", "video-500Kbps")
	url := func(name string) string { return fmt.Sprintf("%s/upload/ch/video/%s.cmfv", server.URL, name) }
	var initData, s0, s1 []byte
	switch scenario {
	case "zerodur":
		initData = reencode(t, filepath.Join(src, "init_org.cmfv"), zeroDurations)
		s0 = reencode(t, filepath.Join(src, "0.cmfv"), zeroDurations)
		s1 = reencode(t, filepath.Join(src, "1.cmfv"), zeroDurations)
	case "zerotimescale":
		initData = reencode(t, filepath.Join(src, "init_org.cmfv"), func(f *mp4.File) { f.Init.Moov.Trak.Mdia.Mdhd.Timescale = 0 })
		s0 = reencode(t, filepath.Join(src, "0.cmfv"), func(f *mp4.File) {})
		s1 = reencode(t, filepath.Join(src, "1.cmfv"), func(f *mp4.File) {})
	}
	for _, up := range []struct {
		name string
		data []byte
	}{{"init", initData}, {"0", s0}, {"1", s1}} {
		code, err := probePut(url(up.name), up.data)
		fmt.Printf("PUT %s -> %d %v\n", up.name, code, err)
		time.Sleep(100 * time.Millisecond)
	}
	time.Sleep(300 * time.Millisecond)
	// a further upload must still be processed
	code, err := probePut(url("2"), reencode(t, filepath.Join(src, "2.cmfv"), func(f *mp4.File) {}))
	fmt.Printf("PUT 2 -> %d %v\n", code, err)
	if err != nil {
		t.Fatalf("receiver no longer answers: %v", err)
	}
}

func TestProbeRecv(t *testing.T) {
	if sc := os.Getenv("RECV_PROBE_SCENARIO"); sc != "" {
		runRecvScenario(t, sc)
		return
	}
	for _, sc := range []string{"zerodur", "zerotimescale"} {
		t.Run(sc, func(t *testing.T) {
			cmd := exec.Command(os.Args[0], "-test.run", "^TestProbeRecv$", "-test.v")
			cmd.Env = append(os.Environ(), "RECV_PROBE_SCENARIO="+sc)
			out, err := cmd.CombinedOutput()
			s := string(out)
			if err != nil || strings.Contains(s, "panic:") {
				var keep []string
				for _, l := range strings.Split(s, "\n") {
					if strings.Contains(l, "panic:") || strings.Contains(l, "PUT ") || (strings.Contains(l, "cmaf-ingest-receiver/app") && strings.Contains(l, ".go:")) {
						keep = append(keep, strings.TrimSpace(l))
					}
				}
				if len(keep) > 8 {
					keep = keep[:8]
				}
				t.Fatalf("receiver process died (%v): %s", err, strings.Join(keep, " | "))
			}
		})
	}
}

// TestProbeRecvInit: crafted init segments must be refused, not crash the handler.
func TestProbeRecvInit(t *testing.T) {
	_ = logging.InitSlog("error", "text")
	src := filepath.Join("testdata", "zero_3.84s", "video-500Kbps")
	cases := map[string]func(f *mp4.File){
		"empty stsd": func(f *mp4.File) {
			stsd := f.Init.Moov.Trak.Mdia.Minf.Stbl.Stsd
			stsd.Children = nil
			stsd.AvcX = nil
			stsd.SampleCount = 0
		},
		"avcC without SPS": func(f *mp4.File) {
			f.Init.Moov.Trak.Mdia.Minf.Stbl.Stsd.AvcX.AvcC.DecConfRec.SPSnalus = nil
		},
	}
	for name, mod := range cases {
		t.Run(name, func(t *testing.T) {
			tmpDir, err := os.MkdirTemp("", "recv-probe-init")
			if err != nil {
				t.Fatal(err)
			}
			defer os.RemoveAll(tmpDir)
			opts := Options{prefix: "/upload", timeShiftBufferDepthS: 30, storage: tmpDir}
			ctx, cancel := context.WithCancel(context.Background())
			defer cancel()
			receiver, err := NewReceiver(ctx, &opts, &Config{Channels: []ChannelConfig{{Name: "ch"}}})
			if err != nil {
				t.Fatal(err)
			}
			data := reencode(t, filepath.Join(src, "init_org.cmfv"), mod)
			req := httptest.NewRequest(http.MethodPut, "/upload/ch/video/init.cmfv", bytes.NewReader(data))
			w := httptest.NewRecorder()
			func() {
				defer func() {
					if e := recover(); e != nil {
						t.Fatalf("handler panicked: %v", e)
					}
				}()
				receiver.SegmentHandlerFunc(w, req)
			}()
			t.Logf("status %d", w.Code)
		})
	}
}
