#!/bin/bash
# builds bin/lsverif offline if sources are newer than the binary
set -eu
cd /verif/lsverif
export GOFLAGS=-mod=mod GOPROXY=off GOSUMDB=off GOTOOLCHAIN=local CGO_ENABLED=0
unset GOWORK
if [ ! -x ../bin/lsverif ] || [ -n "$(find . -name '*.go' -newer ../bin/lsverif -print -quit)" ] || [ go.mod -nt ../bin/lsverif ]; then
  mkdir -p ../bin
  go build -o ../bin/lsverif .
fi
echo built
