package main

// E5: error discipline rules.

import (
	"fmt"
	"go/token"
	"go/types"
	"strings"

	"golang.org/x/tools/go/ssa"
)

// errorValuesOfCall returns the error-typed values produced by a call
// (the call itself, or the Extracts of its tuple result).
func errorValuesOfCall(c *ssa.Call) []ssa.Value {
	var out []ssa.Value
	if isErrorType(c.Type()) {
		out = append(out, c)
		return out
	}
	if tup, ok := c.Type().(*types.Tuple); ok {
		for i := 0; i < tup.Len(); i++ {
			if !isErrorType(tup.At(i).Type()) {
				continue
			}
			found := false
			for _, ref := range *c.Referrers() {
				if ex, ok := ref.(*ssa.Extract); ok && ex.Index == i {
					out = append(out, ex)
					found = true
				}
			}
			if !found {
				out = append(out, nil) // error component never extracted
			}
		}
	}
	return out
}

func isGlobalLoad(v ssa.Value, name string) bool {
	u, ok := v.(*ssa.UnOp)
	if !ok || u.Op != token.MUL {
		return false
	}
	g, ok := u.X.(*ssa.Global)
	return ok && g.String() == name
}

// nilTest: is `c` a comparison of e with nil? returns (isTest, trueMeansNonNil).
func nilTest(c ssa.Value, e ssa.Value) (bool, bool) {
	bo, ok := c.(*ssa.BinOp)
	if !ok || (bo.Op != token.NEQ && bo.Op != token.EQL) {
		return false, false
	}
	if (bo.X == e && isNilConst(bo.Y)) || (bo.Y == e && isNilConst(bo.X)) {
		return true, bo.Op == token.NEQ
	}
	return false, false
}

// eofTest: comparison of e with io.EOF. returns (isTest, trueMeansEOF).
func eofTest(c ssa.Value, e ssa.Value) (bool, bool) {
	bo, ok := c.(*ssa.BinOp)
	if !ok || (bo.Op != token.NEQ && bo.Op != token.EQL) {
		return false, false
	}
	if (bo.X == e && isGlobalLoad(bo.Y, "io.EOF")) || (bo.Y == e && isGlobalLoad(bo.X, "io.EOF")) {
		return true, bo.Op == token.EQL
	}
	return false, false
}

// errorReturnedWhenNonNil decides whether error value e is returned on every
// path on which it is non-nil, except paths on which it equals io.EOF.
// Returns ok and a diagnostic.
func errorReturnedWhenNonNil(e ssa.Value) (bool, string) {
	refs := e.Referrers()
	if refs == nil {
		return false, "value has no referrers"
	}
	// direct return of the value (return f()) is fine
	tested := false
	for _, ref := range *refs {
		switch r := ref.(type) {
		case *ssa.Return:
			return true, "returned directly"
		case *ssa.BinOp:
			if is, nonNilOnTrue := nilTest(r, e); is {
				for _, rr := range *r.Referrers() {
					ifi, ok := rr.(*ssa.If)
					if !ok {
						continue
					}
					tested = true
					start := ifi.Block().Succs[0]
					if !nonNilOnTrue {
						start = ifi.Block().Succs[1]
					}
					if ok, why := errRegionReturns(e, start); !ok {
						return false, why
					}
				}
			}
		case *ssa.Phi, *ssa.Store:
			// the value is merged with others / stored into a variable: follow one level for phi
			if ph, ok := ref.(*ssa.Phi); ok {
				ok2, why := errorReturnedWhenNonNil(ph)
				if !ok2 {
					return false, "via phi: " + why
				}
				tested = true
			}
		}
	}
	if !tested {
		return false, "error value is never tested against nil nor returned"
	}
	return true, "every non-nil path returns it (io.EOF side exempt)"
}

// errRegionReturns walks forward from the block entered when e != nil.
func errRegionReturns(e ssa.Value, start *ssa.BasicBlock) (bool, string) {
	seen := map[*ssa.BasicBlock]bool{}
	var walk func(b *ssa.BasicBlock) (bool, string)
	walk = func(b *ssa.BasicBlock) (bool, string) {
		if seen[b] {
			return true, ""
		}
		seen[b] = true
		if b != start && !start.Dominates(b) {
			return false, fmt.Sprintf("path from the non-nil branch rejoins normal flow at block %d without returning the error", b.Index)
		}
		last := b.Instrs[len(b.Instrs)-1]
		switch x := last.(type) {
		case *ssa.Return:
			for _, r := range x.Results {
				if r == e {
					return true, ""
				}
			}
			return false, fmt.Sprintf("return in block %d does not return the error", b.Index)
		case *ssa.Panic:
			return true, ""
		case *ssa.If:
			if is, eofOnTrue := eofTest(x.Cond, e); is {
				// only the non-EOF side carries the obligation
				nonEOF := b.Succs[1]
				if !eofOnTrue {
					nonEOF = b.Succs[0]
				}
				return walk(nonEOF)
			}
		}
		if len(b.Succs) == 0 {
			return false, fmt.Sprintf("block %d ends without returning the error", b.Index)
		}
		for _, s := range b.Succs {
			if ok, why := walk(s); !ok {
				return false, why
			}
		}
		return true, ""
	}
	return walk(start)
}

// ruleErrorsReturned applies the rule to every error-producing call in fns that
// satisfies filter (nil = all calls).
func ruleErrorsReturned(p *Program, r *Reporter, rule string, fns []*ssa.Function, filter func(c *ssa.Call) (string, bool)) {
	for _, fn := range fns {
		for _, b := range fn.Blocks {
			for _, in := range b.Instrs {
				c, ok := in.(*ssa.Call)
				if !ok {
					continue
				}
				evs := errorValuesOfCall(c)
				if len(evs) == 0 {
					continue
				}
				name := calleeName(c)
				if filter != nil {
					n, ok := filter(c)
					if !ok {
						continue
					}
					name = n
				}
				for _, e := range evs {
					construct := "err<-" + name
					if e == nil {
						r.Violate(rule, shortFn(fn), construct, p.pos(instrPos(c)), "error result of "+name+" is discarded", nil)
						continue
					}
					ok, why := errorReturnedWhenNonNil(e)
					r.Decide(ok, rule, shortFn(fn), construct, p.pos(instrPos(c)), why, "error from "+name+" can be dropped: "+why, nil)
				}
			}
		}
	}
}

func calleeName(c ssa.CallInstruction) string {
	cc := c.Common()
	if cc.IsInvoke() {
		return "(" + types.TypeString(cc.Value.Type(), shortQual) + ")." + cc.Method.Name()
	}
	if f := cc.StaticCallee(); f != nil {
		return shortFn(f)
	}
	if b, ok := cc.Value.(*ssa.Builtin); ok {
		return b.Name()
	}
	// dynamic call through a func value: describe the access path
	k := exprKey(cc.Value)
	return "dyn:" + strings.TrimPrefix(k, "*")
}

func shortQual(p *types.Package) string { return shortPkg(p.Path()) }
