package main

import (
	"fmt"
	"go/token"
	"strings"

	"golang.org/x/tools/go/ssa"
)

func init() { register("C11", checkC11) }


// usesValueInCall: instruction is a call that receives v as receiver or argument.
func usesValueInCall(in ssa.Instruction, v ssa.Value) bool {
	c, ok := in.(ssa.CallInstruction)
	if !ok {
		return false
	}
	cc := c.Common()
	if cc.Value == v {
		return true
	}
	for _, a := range cc.Args {
		if a == v {
			return true
		}
		if mi, ok := a.(*ssa.MakeInterface); ok && mi.X == v {
			return true
		}
	}
	return false
}

// onlyAllowedControl: the block's control dependences (modulo error exits) are loop tests or satisfy allow.
func onlyAllowedControl(p *Program, b *ssa.BasicBlock, allow func(c cond) bool) (bool, string) {
	for _, c := range effectiveCDeps(b, true) {
		if isLoopTest(c) || allow(c) {
			continue
		}
		leaves := keysOf(fieldLeavesOf(p, c.V))
		return false, fmt.Sprintf("%s at %s (reads %v)", c.V.String(), p.pos(instrPos(c.At.Instrs[len(c.At.Instrs)-1])), leaves)
	}
	return true, ""
}

func checkC11(p *Program, r *Reporter) {
	errDiscByName(p, r, pkgApp, "(*Server).patchHandlerFunc")
	r.Explanation = "Static analysis of structural necessary conditions of C11: (a) the patch handler answers 425 for 'same publishTime' and 410 for 'beyond time-to-live', the two sentinel errors are returned under the publishTime-equality test and the expiration test, and travel unchanged to the handler; after an error answer the handler writes nothing more; " +
		"(b) originalPublishTime of the patch is the publishTime attribute of the old document and publishTime that of the new one; (c) writer/reader agreement on mandatory ids: for every element kind for which the differ demands an id, the MPD generator stores one under no other condition than 'patch requested' and 'id absent'; " +
		"(d) the advertised patch location embeds the final publishTime: no store to MPD.publishTime can follow the call that builds the location. Applying the patch reproduces the new MPD is not decided."
	r.NotCovered = "correctness of the Myers diff and of XPath addressing, patch application reproducing the new MPD, equality of regenerated and originally served old MPD"
	r.Assumptions = []string{"Representation ids come from the VoD MPD (schema-mandatory) and are not generated", "control dependence with error-only exits pruned"}
	h := p.mustFunc(r, pkgApp, "(*Server).patchHandlerFunc")
	diff := p.mustFunc(r, pkgPatch, "MPDDiff")
	cpc := p.mustFunc(r, pkgPatch, "checkPatchConditions")
	npd := p.mustFunc(r, pkgPatch, "newPatchDoc")
	rdr := p.mustFunc(r, pkgPatch, "checkMandatoryIdAttribute")
	live := p.mustFunc(r, pkgApp, "LiveMPD")
	if h == nil || diff == nil || cpc == nil || npd == nil || rdr == nil || live == nil {
		return
	}
	oldQueryRule(p, r, h)
	if aac := p.mustFunc(r, pkgPatch, "addAttrChanges"); aac != nil {
		attrOpsRule(p, r, aac)
	}
	if aec := p.mustFunc(r, pkgPatch, "addElemChanges"); aec != nil {
		anchorAdvanceRule(p, r, aec)
	}
	// (a) status table + sentinel propagation
	r.Rule("E5-STATUS", "patch handler: same publishTime -> 425, beyond ttl -> 410", 2)
	ruleStatusTable(p, r, "E5-STATUS", h, map[string]int64{"ErrPatchSamePublishTime": 425, "ErrPatchTooLate": 410})
	r.Rule("E5-SENTINEL", "the two patch sentinels reach the handler unchanged", 1)
	fns := pkgFuncs(p, pkgPatch)
	sentinels := map[string]bool{pkgPatch + ".ErrPatchSamePublishTime": true, pkgPatch + ".ErrPatchTooLate": true}
	carry := mayCarrySentinel(p, fns, sentinels, map[string]bool{})
	ruleSentinelPropagation(p, r, "E5-SENTINEL", fns, carry)
	if !carry[diff] {
		r.Violate("E5-SENTINEL", shortFn(diff), "carries", p.pos(diff.Pos()), "MPDDiff can no longer return the patch sentinels: the handler's 425/410 branches are dead", nil)
	}
	// the sentinel returns sit under the right tests
	r.Rule("E5-CONDITION", "sentinel returned under the publishTime equality test / the expiration test", 2)
	for _, b := range cpc.Blocks {
		ret, ok := b.Instrs[len(b.Instrs)-1].(*ssa.Return)
		if !ok {
			continue
		}
		for _, res := range ret.Results {
			u, ok := res.(*ssa.UnOp)
			if !ok {
				continue
			}
			g, ok := u.X.(*ssa.Global)
			if !ok || !sentinels[g.String()] {
				continue
			}
			conds := factsOf(cpc).dominatingConds(b)
			okc, why := false, "no dominating test"
			for _, cd := range conds {
				switch g.Name() {
				case "ErrPatchSamePublishTime":
					if bo, isBo := cd.V.(*ssa.BinOp); isBo && bo.Op == token.EQL && cd.Pos {
						l, r2 := attrRead(bo.X), attrRead(bo.Y)
						if l.key == "publishTime" && r2.key == "publishTime" && l.elem != nil && r2.elem != nil && l.elem != r2.elem {
							okc, why = true, "under publishTime(new) == publishTime(old)"
						}
					}
				case "ErrPatchTooLate":
					if c, isCall := cd.V.(*ssa.Call); isCall && cd.Pos && c.Call.StaticCallee() != nil && c.Call.StaticCallee().String() == "(time.Time).After" {
						okc, why = true, "under newPublishTime.After(expiration)"
					}
				}
			}
			r.Decide(okc, "E5-CONDITION", shortFn(cpc), "return:"+g.Name(), p.pos(instrPos(ret)), why,
				g.Name()+" is not returned under its defining test ("+why+")", nil)
		}
	}
	// respond once
	respondOnceRule(p, r, h, 4)
	// (b) attribute sources
	r.Rule("E4-ATTR", "originalPublishTime <- old document's publishTime; publishTime <- new document's", 2)
	if len(npd.Params) == 2 {
		want := map[string]*ssa.Parameter{"originalPublishTime": npd.Params[0], "publishTime": npd.Params[1]}
		seen := map[string]bool{}
		for _, b := range npd.Blocks {
			for _, in := range b.Instrs {
				c, ok := in.(*ssa.Call)
				if !ok || c.Call.StaticCallee() == nil || c.Call.StaticCallee().Name() != "CreateAttr" || len(c.Call.Args) != 3 {
					continue
				}
				key, ok := constString(c.Call.Args[1])
				if !ok {
					continue
				}
				src, wanted := want[key]
				if !wanted {
					continue
				}
				seen[key] = true
				ar := attrRead(c.Call.Args[2])
				okA := ar.key == "publishTime" && ar.elem == ssa.Value(src)
				r.Decide(okA, "E4-ATTR", shortFn(npd), "attr:"+key, p.pos(c.Pos()), "value is the publishTime attribute of "+src.Name(),
					fmt.Sprintf("patch attribute %s is not the publishTime attribute of %s (it reads %q of %v)", key, src.Name(), ar.key, nameOf(ar.elem)), nil)
			}
		}
		for key := range want {
			if !seen[key] {
				r.Violate("E4-ATTR", shortFn(npd), "attr:"+key, p.pos(npd.Pos()), "the patch document no longer carries "+key, nil)
			}
		}
	} else {
		r.Broken("newPatchDoc: unexpected signature")
	}
	// (c) mandatory ids
	r.Rule("E5-IDS", "every element kind for which the differ demands an id gets one from the MPD generator whenever a patch location is advertised", 4)
	writer := map[string]string{"MPD": "mpd.MPD.Id", "Period": "mpd.Period.Id", "AdaptationSet": "mpd.AdaptationSetType.Id"}
	fromAsset := map[string]string{"Representation": "ids of representations are taken from the VoD MPD, where the schema makes them mandatory; the asset loader keys its tables by them",
		"SubRepresentation": "livesim2 never emits SubRepresentation elements of its own; present only if the VoD MPD has them (schema: level/dependency, id not generated)"}
	var tags []string
	for _, b := range rdr.Blocks {
		for _, in := range b.Instrs {
			bo, ok := in.(*ssa.BinOp)
			if !ok || bo.Op != token.EQL {
				continue
			}
			for _, pair := range [][2]ssa.Value{{bo.X, bo.Y}, {bo.Y, bo.X}} {
				if f, ok := loadedField(pair[0]); ok && f == "etree.Element.Tag" {
					if s, ok := constString(pair[1]); ok {
						tags = append(tags, s)
					}
				}
			}
		}
	}
	if len(tags) < 3 {
		r.Broken("reader checkMandatoryIdAttribute: only %d tags recognised", len(tags))
	}
	reach := p.reachableFrom(live)
	for _, tag := range tags {
		if why, ok := fromAsset[tag]; ok {
			r.Exception("E5-IDS", shortFn(rdr), "tag:"+tag, p.pos(rdr.Pos()), why)
			continue
		}
		fld, ok := writer[tag]
		if !ok {
			r.Violate("E5-IDS", shortFn(rdr), "tag:"+tag, p.pos(rdr.Pos()), "the differ demands an id on <"+tag+"> but the MPD generator has no known id writer for that element kind", nil)
			continue
		}
		nGood := 0
		liveBad := false
		var firstBad string
		for _, fn := range livesimFuncs(p) {
			if !reach[fn] {
				continue
			}
			for _, b := range fn.Blocks {
				for _, in := range b.Instrs {
					st, ok := in.(*ssa.Store)
					if !ok {
						continue
					}
					if f, ok := fieldOfAddr(st.Addr); !ok || f != fld {
						continue
					}
					okCtl, bad := onlyAllowedControl(p, b, func(c cond) bool {
						if bo, ok := c.V.(*ssa.BinOp); ok {
							for _, side := range []ssa.Value{bo.X, bo.Y} {
								if f, ok := loadedField(side); ok && (f == "app.ResponseConfig.PatchTTL" || f == fld || f == "app.ResponseConfig.PeriodsPerHour") {
									return true
								}
							}
						}
						return false
					})
					if okCtl {
						nGood++
					} else {
						if firstBad == "" {
							firstBad = p.pos(st.Pos()) + ": only under " + bad
						}
						if fn == live {
							liveBad = true // the generator's own pass over all elements must be unconditional
						}
					}
				}
			}
		}
		r.Decide(nGood > 0 && !liveBad, "E5-IDS", shortFn(live), "tag:"+tag, p.pos(live.Pos()), fmt.Sprintf("%d store(s) to %s conditional only on 'patch requested' / 'id absent' / loops", nGood, fld),
			"no unconditional id writer for <"+tag+"> elements: "+firstBad+" — elements outside that condition get no id and the advertised patch location answers 500", nil)
	}
	// (d) publishTime final before the patch location is built
	r.Rule("E5-LOCATION", "no store to MPD.publishTime can follow the call that builds the patch location", 1)
	apl := p.mustFunc(r, pkgApp, "addPatchLocation")
	if apl != nil {
		ff := factsOf(live)
		var ptStores []ssa.Instruction
		ptFieldStores := fieldStores(p, "mpd.MPD.PublishTime")
		for _, b := range live.Blocks {
			for _, in := range b.Instrs {
				if st, ok := in.(*ssa.Store); ok {
					if f, ok := fieldOfAddr(st.Addr); ok && f == "mpd.MPD.PublishTime" {
						ptStores = append(ptStores, st)
					}
				}
				// callees that store publishTime
				if c, ok := in.(*ssa.Call); ok && c.Call.StaticCallee() != nil && p.isRepoFunc(c.Call.StaticCallee()) && c.Call.StaticCallee() != apl {
					reachC := p.reachableFrom(c.Call.StaticCallee())
					for _, st := range ptFieldStores {
						if reachC[st.Parent()] {
							ptStores = append(ptStores, c)
						}
					}
				}
			}
		}
		n := 0
		for _, s := range callsTo(p, apl) {
			if s.Parent() != live {
				r.Violate("E5-LOCATION", shortFn(s.Parent()), "call:addPatchLocation", p.pos(s.Pos()), "patch location built outside LiveMPD: ordering against publishTime not analysed", nil)
				continue
			}
			n++
			bad := ""
			for _, st := range ptStores {
				sb, cb := st.Block(), s.Block()
				after := false
				if sb == cb {
					after = instrIndex(st) > instrIndex(s.(ssa.Instruction))
				} else {
					after = ff.blockReaches(cb, sb)
				}
				if after {
					bad = p.pos(instrPos(st))
				}
			}
			r.Decide(bad == "", "E5-LOCATION", shortFn(live), "call:addPatchLocation", p.pos(s.Pos()), "publishTime is final here",
				"publishTime is (re)written at "+bad+" after the patch location was built from it: the advertised location carries a stale publishTime and the patch base differs from the served MPD", nil)
		}
		if n == 0 {
			r.Violate("E5-LOCATION", shortFn(live), "call:addPatchLocation", p.pos(live.Pos()), "LiveMPD no longer advertises a patch location", nil)
		}
	}
	_ = strings.Contains
}

type attrSrc struct {
	elem ssa.Value
	key  string
}

// attrRead: v is the result of a call that reads an attribute of an element — a call receiving an
// *etree.Element and a constant attribute name (getAttrValue(e, "k"), e.SelectAttrValue("k", ""), ...):
// returns the element and the name.
func attrRead(v ssa.Value) attrSrc {
	c, ok := v.(*ssa.Call)
	if !ok {
		return attrSrc{}
	}
	var out attrSrc
	for _, a := range c.Call.Args {
		if out.elem == nil && strings.HasSuffix(a.Type().String(), "etree.Element") {
			out.elem = a
			continue
		}
		if out.key == "" {
			if k, ok := constString(a); ok {
				out.key = k
			}
		}
	}
	if out.elem == nil || out.key == "" {
		return attrSrc{}
	}
	return out
}

func nameOf(v ssa.Value) string {
	if v == nil {
		return "nothing"
	}
	return v.Name()
}

// oldQueryRule: the query with which the patch handler regenerates the old MPD is cut out of the request's
// raw query; the publishTime in it is not re-encoded (a re-encoding with time.Format drops the fraction of
// a second unless the layout carries one, and the old MPD is then regenerated for an earlier instant).
func oldQueryRule(p *Program, r *Reporter, h *ssa.Function) {
	r.Rule("E4-OLDQUERY", "the queries of the two regenerated MPDs are taken from the request's raw query, no time value is re-formatted into them", 2)
	n := 0
	for _, fn := range cluster(h) {
		for _, b := range fn.Blocks {
			for _, in := range b.Instrs {
				st, ok := in.(*ssa.Store)
				if !ok {
					continue
				}
				if f, ok := fieldOfAddr(st.Addr); !ok || f != "url.URL.RawQuery" {
					continue
				}
				n++
				var formats []string
				seen := map[ssa.Value]bool{}
				fromRaw := false
				sliceVisit(p, st.Val, true, func(x ssa.Value) {
					if seen[x] {
						return
					}
					seen[x] = true
					if c, ok := x.(*ssa.Call); ok && c.Call.StaticCallee() != nil {
						switch c.Call.StaticCallee().String() {
						case "(time.Time).Format", "(time.Time).AppendFormat", "(time.Time).String":
							formats = append(formats, c.Call.StaticCallee().String()+" at "+p.pos(c.Pos()))
						case "(*net/url.URL).Query", "net/url.ParseQuery":
							fromRaw = true // the parsed form of the request's query
						}
					}
					if f, ok := loadedField(x); ok && f == "url.URL.RawQuery" {
						fromRaw = true
					}
				})
				switch {
				case len(formats) > 0:
					r.Violate("E4-OLDQUERY", shortFn(fn), "store:URL.RawQuery", p.pos(st.Pos()), "a time value is re-formatted into the query of a regenerated MPD ("+strings.Join(formats, ", ")+"): a publishTime with a fraction of a second no longer selects the MPD that advertised the patch", nil)
				case !fromRaw:
					r.Violate("E4-OLDQUERY", shortFn(fn), "store:URL.RawQuery", p.pos(st.Pos()), "the query of a regenerated MPD is not derived from the request's raw query", nil)
				default:
					r.Discharge("E4-OLDQUERY", shortFn(fn), "store:URL.RawQuery", p.pos(st.Pos()), "derived from the raw query by removing keys")
				}
			}
		}
	}
	if n == 0 {
		r.Broken("patchHandlerFunc: no store to URL.RawQuery found")
	}
}

// respondOnceRule: after an error answer (http.Error) the handler writes nothing more to the response.
func respondOnceRule(p *Program, r *Reporter, h *ssa.Function, floor int) {
	r.Rule("E5-RESPOND-ONCE", "after an error answer the handler writes nothing more", floor)
	var w *ssa.Parameter
	for _, prm := range h.Params {
		if prm.Type().String() == "net/http.ResponseWriter" {
			w = prm
		}
	}
	if w == nil {
		r.Broken("%s: no ResponseWriter parameter", shortFn(h))
		return
	}
	for _, b := range h.Blocks {
		for idx, in := range b.Instrs {
			c, ok := isCallTo(in, "net/http.Error")
			if !ok {
				continue
			}
			bad := ""
			seen := map[*ssa.BasicBlock]bool{}
			var walk func(bb *ssa.BasicBlock, from int)
			walk = func(bb *ssa.BasicBlock, from int) {
				if bad != "" {
					return
				}
				for k := from; k < len(bb.Instrs); k++ {
					if usesValueInCall(bb.Instrs[k], w) {
						bad = p.pos(instrPos(bb.Instrs[k]))
						return
					}
				}
				for _, s := range bb.Succs {
					if !seen[s] {
						seen[s] = true
						walk(s, 0)
					}
				}
			}
			walk(b, idx+1)
			r.Decide(bad == "", "E5-RESPOND-ONCE", shortFn(h), "http.Error", p.pos(c.Pos()), "every path from this answer returns without touching the ResponseWriter",
				"after this error answer the handler goes on and writes to the response again at "+bad, nil)
		}
	}
}
