package app

import (
	"context"
	"net/http/httptest"
	"regexp"
	"testing"

	"github.com/Dash-Industry-Forum/livesim2/pkg/logging"
)

// With SegmentTimeline the MPD changes with every new segment, so publishTime must change too —
// also for an MPD that has a thumbnail adaptation set.
func TestProbeC05PublishTimeWithThumbnails(t *testing.T) {
	cfg := ServerConfig{VodRoot: "testdata/assets", TimeoutS: 0, LogFormat: logging.LogDiscard}
	_ = logging.InitSlog(cfg.LogLevel, cfg.LogFormat)
	s, err := SetupServer(context.Background(), &cfg)
	if err != nil {
		t.Fatal(err)
	}
	re := regexp.MustCompile(`publishTime="([^"]+)"`)
	get := func(mpd string, nowMS string) (string, string) {
		w := httptest.NewRecorder()
		s.livesimHandlerFunc(w, httptest.NewRequest("GET", "/livesim2/segtimeline_1/testpic_2s/"+mpd+"?nowMS="+nowMS, nil))
		if w.Code != 200 {
			t.Fatalf("%s: status %d", mpd, w.Code)
		}
		m := re.FindStringSubmatch(w.Body.String())
		if m == nil {
			t.Fatal("no publishTime")
		}
		return m[1], w.Body.String()
	}
	for _, mpd := range []string{"Manifest.mpd", "Manifest_thumbs.mpd"} {
		p1, b1 := get(mpd, "100000")
		p2, b2 := get(mpd, "110000")
		t.Logf("%s: publishTime %s -> %s, content changed: %v", mpd, p1, p2, b1 != b2)
		if b1 != b2 && p1 == p2 {
			t.Errorf("%s: the MPD changed between 100 s and 110 s but publishTime stayed %s", mpd, p1)
		}
	}
}
