#!/bin/bash
# Regenerates /verif/revfix/NN-<hash>.diff: for every "fix:" commit of /repo the patch that takes the
# current HEAD to "HEAD with that one fix reverted" (3-way revert in a scratch worktree). Apply forward.
set -u
WT=$(mktemp -d /tmp/revfix.XXXXXX)
git -C /repo worktree add -q --detach "$WT" HEAD || exit 1
rm -f /verif/revfix/*.diff   # revfix/manual/ holds hand-resolved reverts for fixes whose revert conflicts with later fixes
i=0
for h in $(git -C /repo log --reverse --format=%h --grep='^fix:'); do
  i=$((i+1))
  f=/verif/revfix/$(printf %02d $i)-$h.diff
  if git -C "$WT" revert -n "$h" >/dev/null 2>&1; then
    git -C "$WT" diff HEAD > "$f"
    echo "$f ok"
  elif [ -f /verif/revfix/manual/$(basename $f) ] && git -C "$WT" reset -q --hard HEAD && git -C "$WT" apply --check /verif/revfix/manual/$(basename $f) 2>/dev/null; then
    cp /verif/revfix/manual/$(basename $f) "$f"
    echo "$f ok (manually resolved revert)"
  else
    echo "$f CONFLICT (skipped)"
  fi
  git -C "$WT" revert --abort >/dev/null 2>&1
  git -C "$WT" reset -q --hard HEAD
done
git -C /repo worktree remove --force "$WT"
